"""Engine D - path-wise symbolic interpreter for a small subset of LLVM IR (clang-14 -O0 output) over
z3 bit-vectors, used on tornado/speedups.c:websocket_mask.

compile_ir(c_path)          -> text of the .ll produced by clang from the CURRENT C file (temp dir, removed)
parse_function(ll, name)    -> Function(blocks, params, strings)
Interp(fn, stubs).run(...)  -> list of Leaf(pc, ret, exc, memory, oob) - one per feasible path

Memory model: every allocation is separate (no pointer arithmetic between allocations); a pointer is
(allocation, byte offset as 64-bit z3 term).  `alloca` slots are typed cells (whole-value load/store
only, anything else raises Unsupported).  Data allocations are byte-addressed: a Python list of 8-bit terms
when the size is concrete, a z3 Array(BV64->BV8) when it is symbolic; multi-byte loads/stores are
little-endian compositions of byte accesses (so results do not depend on the base address/alignment).
EVERY access generates a bounds condition 0 <= off, off + width <= size: decided at once when concrete,
otherwise returned as an obligation with its path condition.

Addresses: a data allocation may carry a SYMBOLIC 64-bit base address (Buf.base, constrained only by what the
creator states - no alignment assumption unless given).  `ptrtoint` yields base + offset, so alignment tests such
as `(uintptr_t)p & 7` are terms over the base and the branches on them FORK paths (feasibility by the solver);
`inttoptr` is accepted for <base of an allocation> + <address-independent term>.  A GEP index / pointer
increment into a concretely sized buffer that is a symbolic term is ENUMERATED: the solver lists its feasible values
under the path condition (blocking clauses, cap 16, more -> Unsupported) and one path per value continues with the
value pinned (substituted in all registers and slots).  Pointers into the same
allocation may be compared; across allocations -> Unsupported.

Opcodes handled: alloca load store getelementptr(single index) bitcast ptrtoint inttoptr icmp br xor or and shl lshr
ashr add sub mul udiv urem sdiv srem zext sext trunc call ret select phi.  Anything else -> Unsupported (ERROR).
"""
import atexit
import os
import re
import shutil
import subprocess
import tempfile

import z3


class Unsupported(Exception):
    pass


_TMP = []


def tempdir(prefix="native_llk_"):
    d = tempfile.mkdtemp(prefix=prefix)
    _TMP.append(d)
    return d


@atexit.register
def _cleanup():
    for d in _TMP:
        shutil.rmtree(d, ignore_errors=True)


def find_clang():
    for c in ("clang-14", "clang"):
        p = shutil.which(c)
        if p:
            return p
    raise Unsupported("no clang found")


def python_include():
    import sysconfig
    inc = sysconfig.get_paths()["include"]
    if not os.path.exists(os.path.join(inc, "Python.h")):
        inc = "/root/.pyenv/versions/3.12.1/include/python3.12"
    if not os.path.exists(os.path.join(inc, "Python.h")):
        raise Unsupported("Python.h not found")
    return inc


def compile_ir(c_path, workdir=None):
    d = workdir or tempdir()
    out = os.path.join(d, "unit.ll")
    cmd = [find_clang(), "-S", "-emit-llvm", "-O0", "-Xclang", "-disable-O0-optnone",
           "-I" + python_include(), c_path, "-o", out]
    p = subprocess.run(cmd, capture_output=True, text=True, timeout=120)
    if p.returncode != 0:
        raise Unsupported("clang failed: " + p.stderr[-800:])
    return open(out).read(), " ".join(cmd)


def build_extension(c_path, workdir=None, name="speedups"):
    d = workdir or tempdir()
    out = os.path.join(d, name + ".abi3.so")
    cmd = [find_clang(), "-shared", "-fPIC", "-O2", "-I" + python_include(), c_path, "-o", out]
    p = subprocess.run(cmd, capture_output=True, text=True, timeout=120)
    if p.returncode != 0:
        raise Unsupported("clang (shared) failed: " + p.stderr[-800:])
    import importlib.machinery
    import importlib.util
    loader = importlib.machinery.ExtensionFileLoader(name, out)
    spec = importlib.util.spec_from_file_location(name, out, loader=loader)
    mod = importlib.util.module_from_spec(spec)
    loader.exec_module(mod)
    return mod, " ".join(cmd)


DRIVER_C = r'''
/* replay driver: same translation unit as the CURRENT speedups.c (so the real, static websocket_mask with the real
   PyArg_ParseTuple is called), plus a tiny read-only buffer type without bf_releasebuffer - "s#" accepts it - whose
   memory sits at a chosen offset from a 64-byte aligned block.  Lets the replay put mask/data at any address
   alignment, which bytes objects cannot do. */
#include "%(c_path)s"
#include <stdlib.h>
#include <string.h>
typedef struct { PyObject_HEAD char *ptr; Py_ssize_t len; void *block; } DrvView;
static int drv_getbuffer(DrvView *self, Py_buffer *view, int flags)
{ return PyBuffer_FillInfo(view, (PyObject *)self, self->ptr, self->len, 1, flags); }
static void drv_dealloc(DrvView *self) { free(self->block); Py_TYPE(self)->tp_free((PyObject *)self); }
static PyBufferProcs drv_as_buffer = { (getbufferproc)drv_getbuffer, NULL };
static PyTypeObject DrvViewType = { PyVarObject_HEAD_INIT(NULL, 0) .tp_name = "llkdrv.View",
    .tp_basicsize = sizeof(DrvView), .tp_flags = Py_TPFLAGS_DEFAULT, .tp_as_buffer = &drv_as_buffer,
    .tp_dealloc = (destructor)drv_dealloc };
static PyObject *drv_view(const char *src, Py_ssize_t n, int off)
{
    void *blk = NULL;
    if (posix_memalign(&blk, 64, (size_t)n + 256) != 0) return PyErr_NoMemory();
    DrvView *o = PyObject_New(DrvView, &DrvViewType);
    if (!o) { free(blk); return NULL; }
    o->block = blk; o->ptr = (char *)blk + 64 + off; o->len = n;
    memset(blk, 0xA5, (size_t)n + 256);
    memcpy(o->ptr, src, (size_t)n);
    return (PyObject *)o;
}
static PyObject *drv_call(PyObject *self, PyObject *args)
{
    const char *m, *d; Py_ssize_t ml, dl; int moff, doff;
    if (!PyArg_ParseTuple(args, "y#y#ii", &m, &ml, &d, &dl, &moff, &doff)) return NULL;
    PyObject *mv = drv_view(m, ml, moff & 63), *dv = drv_view(d, dl, doff & 63);
    if (!mv || !dv) { Py_XDECREF(mv); Py_XDECREF(dv); return NULL; }
    PyObject *t = PyTuple_Pack(2, mv, dv);
    Py_DECREF(mv); Py_DECREF(dv);
    if (!t) return NULL;
    PyObject *r = websocket_mask(NULL, t);
    Py_DECREF(t);
    return r;
}
static PyMethodDef drv_methods[] = { {"call", drv_call, METH_VARARGS, ""}, {NULL, NULL, 0, NULL} };
static struct PyModuleDef drv_module = { PyModuleDef_HEAD_INIT, "llkdrv", NULL, -1, drv_methods };
PyMODINIT_FUNC PyInit_llkdrv(void)
{
    if (PyType_Ready(&DrvViewType) < 0) return NULL;
    return PyModule_Create(&drv_module);
}
'''


def build_driver(c_path, workdir=None):
    """compile DRIVER_C (which #includes the current C file) and import it; returns (module, command)"""
    d = workdir or tempdir()
    src = os.path.join(d, "llkdrv.c")
    with open(src, "w") as f:
        f.write(DRIVER_C % dict(c_path=c_path))
    out = os.path.join(d, "llkdrv.so")
    cmd = [find_clang(), "-shared", "-fPIC", "-O2", "-I" + python_include(), src, "-o", out]
    p = subprocess.run(cmd, capture_output=True, text=True, timeout=120)
    if p.returncode != 0:
        raise Unsupported("clang (driver) failed: " + p.stderr[-800:])
    import importlib.machinery
    import importlib.util
    loader = importlib.machinery.ExtensionFileLoader("llkdrv", out)
    spec = importlib.util.spec_from_file_location("llkdrv", out, loader=loader)
    mod = importlib.util.module_from_spec(spec)
    loader.exec_module(mod)
    return mod, " ".join(cmd)


# ------------------------------------------------------------------------------------------ parsing
class Function:
    def __init__(self, name, params, blocks, order, strings, text):
        self.name, self.params, self.blocks, self.order = name, params, blocks, order
        self.strings, self.text = strings, text


def parse_function(ll, name):
    strings = {}
    for m in re.finditer(r'^(@[\w.]+) = private unnamed_addr constant \[(\d+) x i8\] (c"((?:[^"\\]|\\[0-9A-Fa-f]{2})*)"|zeroinitializer)',
                         ll, re.M):
        raw = m.group(4)
        if raw is None:
            strings[m.group(1)] = b"\0" * int(m.group(2))
        else:
            strings[m.group(1)] = re.sub(r"\\([0-9A-Fa-f]{2})", lambda x: chr(int(x.group(1), 16)), raw).encode("latin1")
    m = re.search(r"^define [^\n]*@%s\(([^\n]*)\) [^\n]*\{\n(.*?)^\}" % re.escape(name), ll, re.M | re.S)
    if not m:
        raise Unsupported("function %s not found in the IR" % name)
    params = re.findall(r"(%[\w.]+)(?=,|$)", m.group(1))
    body = m.group(2)
    blocks, order = {}, []
    # the entry block's implicit label is the next unnamed value after the parameters
    cur = "%" + str(len(params))
    blocks[cur] = []
    order.append(cur)
    for line in body.split("\n"):
        line = line.split(" ; ")[0].rstrip() if not line.startswith(";") else ""
        if not line.strip():
            continue
        lm = re.match(r"^([\w.]+):", line)
        if lm:
            cur = "%" + lm.group(1)
            blocks[cur] = []
            order.append(cur)
            continue
        blocks[cur].append(re.sub(r", ![\w.]+ ![\w.]+", "", line.strip()))
    return Function(name, params, blocks, order, strings, m.group(0))


# ------------------------------------------------------------------------------------------ values
class Ptr:
    __slots__ = ("alloc", "off")

    def __init__(self, alloc, off=None):
        self.alloc = alloc
        self.off = z3.BitVecVal(0, 64) if off is None else off

    def is_null(self):
        return self.alloc is None

    def __repr__(self):
        return "Ptr(%s,%s)" % (self.alloc, self.off)


NULL = Ptr(None)


class Cell:
    """an alloca slot / out-parameter: holds one whole value"""
    def __init__(self, ty):
        self.ty = ty
        self.val = None
        self.kind = "cell"

    def copy(self):
        c = Cell(self.ty)
        c.val = self.val
        return c


class Buf:
    """byte-addressed allocation"""
    def __init__(self, name, size, bytes_=None, array=None, readonly=False, base=None):
        self.name, self.size, self.bytes, self.array, self.readonly = name, size, bytes_, array, readonly
        self.base = base          # symbolic 64-bit address of byte 0 (None: address never observable)
        self.kind = "buf"

    def copy(self):
        return Buf(self.name, self.size, None if self.bytes is None else list(self.bytes), self.array,
                   self.readonly, self.base)


class Opaque:
    """an object only passed around (PyObject*, exception type, string constant)"""
    def __init__(self, name, data=None):
        self.name, self.data = name, data
        self.kind = "opaque"

    def copy(self):
        return self

    def __repr__(self):
        return "Opaque(%s)" % self.name


def width_of(ty):
    ty = ty.strip()
    m = re.match(r"^i(\d+)$", ty)
    if m:
        return int(m.group(1))
    if ty.endswith("*"):
        return 64
    raise Unsupported("type " + ty)


class State:
    def __init__(self):
        self.regs = {}
        self.mem = {}         # alloc id -> Cell | Buf | Opaque
        self.pc = []
        self.exc = None
        self.oob = []         # (description, pc list, in-bounds condition)  - non-trivial ones only
        self.block = None
        self.prev = None
        self.steps = 0
        self.log = []

    def fork(self):
        s = State()
        s.regs = dict(self.regs)
        s.mem = {k: v.copy() for k, v in self.mem.items()}
        s.pc = list(self.pc)
        s.exc = self.exc
        s.oob = list(self.oob)
        s.block, s.prev, s.steps = self.block, self.prev, self.steps
        s.log = list(self.log)
        return s


class Leaf:
    def __init__(self, st, ret):
        self.st, self.ret = st, ret
        self.pc = st.pc
        self.exc = st.exc
        self.mem = st.mem
        self.oob = st.oob


def _c(x):
    return z3.simplify(x)


class Interp:
    def __init__(self, fn, stubs, max_steps=200000, solver_timeout_ms=60000):
        self.fn = fn
        self.stubs = stubs            # name -> callable(interp, state, args) -> list of (state, retval)
        self.max_steps = max_steps
        self.queries = 0
        self.solver_s = 0.0
        self.timeout = solver_timeout_ms
        self.n_alloc = 0
        self.opcodes = set()

    # -- helpers
    def new_alloc(self, st, obj, hint="a"):
        self.n_alloc += 1
        aid = "%s%d" % (hint, self.n_alloc)
        st.mem[aid] = obj
        return aid

    def feasible(self, pc):
        import time
        s = z3.Solver()
        s.set("timeout", self.timeout)
        s.add(*pc)
        t0 = time.time()
        r = s.check()
        self.solver_s += time.time() - t0
        self.queries += 1
        if r == z3.unknown:
            raise Unsupported("solver returned unknown on a path condition")
        return r == z3.sat

    VALUE_CAP = 16

    def enumerate_values(self, pc, term):
        """all values of `term` that are feasible under pc (blocking clauses); more than VALUE_CAP -> Unsupported"""
        import time
        s = z3.Solver()
        s.set("timeout", self.timeout)
        s.add(*pc)
        vals = []
        while True:
            t0 = time.time()
            r = s.check()
            self.solver_s += time.time() - t0
            self.queries += 1
            if r == z3.unknown:
                raise Unsupported("solver returned unknown while enumerating the values of " + str(term))
            if r == z3.unsat:
                break
            v = s.model().eval(term, model_completion=True)
            vals.append(v)
            if len(vals) > self.VALUE_CAP:
                raise Unsupported("symbolic offset with more than %d feasible values: %s" % (self.VALUE_CAP, term))
            s.add(term != v)
        self.forks_by_value = getattr(self, "forks_by_value", 0) + max(0, len(vals) - 1)
        return vals

    def pin(self, st, term, value):
        """replace every occurrence of `term` in registers and scalar slots by its pinned value"""
        if z3.is_bv_value(term):
            return
        for k, v in list(st.regs.items()):
            if z3.is_expr(v):
                st.regs[k] = _c(z3.substitute(v, (term, value)))
            elif isinstance(v, Ptr) and not v.is_null() and z3.is_expr(v.off) and not z3.is_bv_value(v.off):
                st.regs[k] = Ptr(v.alloc, _c(z3.substitute(v.off, (term, value))))
        for obj in st.mem.values():
            if obj.kind == "cell" and obj.val is not None:
                v = obj.val
                if z3.is_expr(v):
                    obj.val = _c(z3.substitute(v, (term, value)))
                elif isinstance(v, Ptr) and not v.is_null() and not z3.is_bv_value(v.off):
                    obj.val = Ptr(v.alloc, _c(z3.substitute(v.off, (term, value))))

    def operand(self, st, ty, tok):
        tok = tok.strip()
        ty = ty.strip()
        if tok.startswith("%"):
            if tok not in st.regs:
                raise Unsupported("use of undefined register " + tok)
            return st.regs[tok]
        if tok == "null":
            return NULL
        if tok in ("true", "false"):
            return z3.BitVecVal(1 if tok == "true" else 0, 1)
        if re.match(r"^-?\d+$", tok):
            return z3.BitVecVal(int(tok), width_of(ty))
        if tok.startswith("@"):
            return self.global_ptr(st, tok)
        m = re.match(r"^getelementptr inbounds \(\[(\d+) x i8\], \[\d+ x i8\]\* (@[\w.]+), i(?:32|64) 0, i(?:32|64) 0\)$", tok)
        if m:
            return self.global_ptr(st, m.group(2))
        raise Unsupported("operand " + tok)

    def global_ptr(self, st, name):
        key = "g:" + name
        if key not in st.mem:
            if name in self.fn.strings:
                st.mem[key] = Opaque(name, self.fn.strings[name])
            else:
                # external global variable holding an object pointer (e.g. @PyExc_ValueError)
                c = Cell("ptr")
                c.val = Ptr("obj:" + name)
                st.mem.setdefault("obj:" + name, Opaque(name))
                st.mem[key] = c
        return Ptr(key)

    def addr_of(self, st, p):
        """integer value of a pointer: symbolic base address of its allocation + offset"""
        if not isinstance(p, Ptr):
            raise Unsupported("ptrtoint of a non-pointer")
        if p.is_null():
            return z3.BitVecVal(0, 64)
        obj = st.mem.get(p.alloc)
        if obj is None or obj.kind != "buf" or obj.base is None:
            raise Unsupported("ptrtoint of a pointer to %r (no address model)" % (obj,))
        return _c(obj.base + p.off)

    def ptr_of(self, st, v):
        """pointer for an integer: the integer must be <base of an allocation> + <term without base addresses>"""
        v = _c(v)
        if z3.is_bv_value(v) and v.as_long() == 0:
            return NULL
        bases = [(aid, o.base) for aid, o in st.mem.items() if o.kind == "buf" and o.base is not None]
        names = {str(b) for _, b in bases}
        for aid, b in bases:
            off = _c(v - b)
            if not (_free_names(off) & names):
                return Ptr(aid, off)
        raise Unsupported("inttoptr of a value that is not an allocation base plus an address-independent offset: %s" % v)

    def bounds(self, st, buf, off, nbytes, what):
        size = buf.size if z3.is_expr(buf.size) else z3.BitVecVal(buf.size, 64)
        cond = _c(z3.And(z3.ULE(off, size), z3.ULE(z3.BitVecVal(nbytes, 64), size - off)))
        if z3.is_true(cond):
            return
        if z3.is_false(cond):
            st.oob.append((what, list(st.pc), z3.BoolVal(False)))
            return
        st.oob.append((what, list(st.pc), cond))

    def load_bytes(self, st, p, nbytes, what):
        buf = st.mem.get(p.alloc)
        if buf is None or buf.kind != "buf":
            raise Unsupported("%s through %r" % (what, p))
        off = _c(p.off)
        self.bounds(st, buf, off, nbytes, "%s of %d byte(s) at %s+%s" % (what, nbytes, buf.name, off))
        out = []
        for i in range(nbytes):
            o = _c(off + i)
            if buf.bytes is not None:
                if not z3.is_bv_value(o):
                    raise Unsupported("symbolic offset into a concrete-size buffer")
                idx = o.as_long()
                out.append(buf.bytes[idx] if 0 <= idx < len(buf.bytes) else z3.BitVec("oob!%s!%d" % (buf.name, idx), 8))
            else:
                out.append(z3.Select(buf.array, o))
        return out

    def store_bytes(self, st, p, vals, what):
        buf = st.mem.get(p.alloc)
        if buf is None or buf.kind != "buf":
            raise Unsupported("%s through %r" % (what, p))
        if buf.readonly:
            st.oob.append(("store into read-only buffer " + buf.name, list(st.pc), z3.BoolVal(False)))
        off = _c(p.off)
        self.bounds(st, buf, off, len(vals), "%s of %d byte(s) at %s+%s" % (what, len(vals), buf.name, off))
        for i, v in enumerate(vals):
            o = _c(off + i)
            if buf.bytes is not None:
                if not z3.is_bv_value(o):
                    raise Unsupported("symbolic offset into a concrete-size buffer")
                idx = o.as_long()
                if 0 <= idx < len(buf.bytes):
                    buf.bytes[idx] = _c(v)
            else:
                buf.array = z3.Store(buf.array, o, v)

    def load(self, st, ty, p):
        if not isinstance(p, Ptr) or p.is_null():
            raise Unsupported("load through null / non-pointer")
        obj = st.mem.get(p.alloc)
        if obj is None:
            raise Unsupported("load from unknown allocation %r" % (p,))
        if obj.kind == "cell":
            if not (z3.is_bv_value(_c(p.off)) and _c(p.off).as_long() == 0):
                raise Unsupported("offset access to a scalar slot")
            if obj.val is None:
                raise Unsupported("read of an uninitialised slot")
            v = obj.val
            if ty.endswith("*") != isinstance(v, Ptr) or (not isinstance(v, Ptr) and v.size() != width_of(ty)):
                raise Unsupported("type-punned access to a scalar slot")
            return v
        if obj.kind == "buf":
            if ty.endswith("*"):
                raise Unsupported("pointer load from byte memory")
            n = width_of(ty)
            if n % 8:
                raise Unsupported("load of i%d" % n)
            bs = self.load_bytes(st, p, n // 8, "load")
            return _c(z3.Concat(*reversed(bs))) if len(bs) > 1 else bs[0]      # little endian
        raise Unsupported("load from opaque object %r" % (obj,))

    def store(self, st, ty, v, p):
        if not isinstance(p, Ptr) or p.is_null():
            raise Unsupported("store through null / non-pointer")
        obj = st.mem.get(p.alloc)
        if obj is None:
            raise Unsupported("store to unknown allocation")
        if obj.kind == "cell":
            if not (z3.is_bv_value(_c(p.off)) and _c(p.off).as_long() == 0):
                raise Unsupported("offset access to a scalar slot")
            obj.val = v
            return
        if obj.kind == "buf":
            if isinstance(v, Ptr):
                raise Unsupported("pointer store into byte memory")
            n = v.size()
            if n % 8:
                raise Unsupported("store of i%d" % n)
            self.store_bytes(st, p, [z3.Extract(8 * i + 7, 8 * i, v) for i in range(n // 8)], "store")
            return
        raise Unsupported("store into opaque object")

    # -- instruction execution; returns list of successor states (st.block set) or Leaf
    def step(self, st, ins):
        st.steps += 1
        if st.steps > self.max_steps:
            raise Unsupported("step limit (unbounded loop on a symbolic bound?)")
        dst = None
        m = re.match(r"^(%[\w.]+) = (.*)$", ins)
        if m:
            dst, ins = m.group(1), m.group(2)
        op = ins.split(" ", 1)[0]
        self.opcodes.add(op)
        R = st.regs
        if op == "alloca":
            ty = re.match(r"^alloca ([^,]+)", ins).group(1).strip()
            if "[" in ty or "{" in ty or ty.startswith("%struct") and not ty.endswith("*"):
                raise Unsupported("alloca of aggregate " + ty)
            R[dst] = Ptr(self.new_alloc(st, Cell(ty), "slot"))
            return [st]
        if op == "load":
            mm = re.match(r"^load (.+?), (.+?)\* ([^,]+)(?:, align \d+)?$", ins)
            if not mm:
                raise Unsupported(ins)
            R[dst] = self.load(st, mm.group(1), self.operand(st, mm.group(2) + "*", mm.group(3)))
            return [st]
        if op == "store":
            mm = re.match(r"^store (.+?) ([^ ,]+), (.+?)\* ([^ ,]+)(?:, align \d+)?$", ins)
            if not mm:
                raise Unsupported(ins)
            self.store(st, mm.group(1), self.operand(st, mm.group(1), mm.group(2)),
                       self.operand(st, mm.group(3) + "*", mm.group(4)))
            return [st]
        if op == "getelementptr":
            mm = re.match(r"^getelementptr (?:inbounds )?(i\d+), i\d+\* ([^ ,]+), (i\d+) ([^ ,]+)$", ins)
            if not mm:
                raise Unsupported(ins)
            p = self.operand(st, mm.group(1) + "*", mm.group(2))
            idx = self.operand(st, mm.group(3), mm.group(4))
            if not isinstance(p, Ptr) or p.is_null():
                raise Unsupported("gep on null")
            if idx.size() < 64:
                idx = z3.SignExt(64 - idx.size(), idx)
            esz = width_of(mm.group(1)) // 8
            tgt = st.mem.get(p.alloc)
            off = _c(p.off + idx * esz)
            if z3.is_bv_value(off) or tgt is None or tgt.kind != "buf" or tgt.bytes is None:
                R[dst] = Ptr(p.alloc, off)
                return [st]
            # index / pointer increment that is a SYMBOLIC term (e.g. derived from the buffer address) into a
            # concretely sized buffer: enumerate its feasible values under the path condition and fork one path per
            # value, with the value pinned (substituted everywhere) so that everything downstream is concrete again
            idx = _c(idx)
            vals = self.enumerate_values(st.pc, idx)
            outs = []
            for n_, v in enumerate(vals):
                s2 = st if n_ == len(vals) - 1 else st.fork()
                s2.pc.append(idx == v)
                self.pin(s2, idx, v)
                s2.regs[dst] = Ptr(p.alloc, _c(p.off + v * esz))
                outs.append(s2)
            return outs
        if op == "bitcast":
            mm = re.match(r"^bitcast (.+?\*) ([^ ]+) to (.+?\*)$", ins)
            if not mm:
                raise Unsupported(ins)
            R[dst] = self.operand(st, mm.group(1), mm.group(2))
            return [st]
        if op == "ptrtoint":
            mm = re.match(r"^ptrtoint (.+?\*) ([^ ]+) to (i\d+)$", ins)
            if not mm:
                raise Unsupported(ins)
            v = self.addr_of(st, self.operand(st, mm.group(1), mm.group(2)))
            w = width_of(mm.group(3))
            R[dst] = v if w == 64 else _c(z3.Extract(w - 1, 0, v)) if w < 64 else _c(z3.ZeroExt(w - 64, v))
            return [st]
        if op == "inttoptr":
            mm = re.match(r"^inttoptr (i\d+) ([^ ]+) to (.+?\*)$", ins)
            if not mm:
                raise Unsupported(ins)
            v = self.operand(st, mm.group(1), mm.group(2))
            if v.size() != 64:
                raise Unsupported("inttoptr of i%d" % v.size())
            R[dst] = self.ptr_of(st, v)
            return [st]
        if op in ("udiv", "urem", "sdiv", "srem"):
            mm = re.match(r"^\w+ (?:exact )?(i\d+) ([^ ,]+), ([^ ,]+)$", ins)
            if not mm:
                raise Unsupported(ins)
            a = self.operand(st, mm.group(1), mm.group(2))
            b = self.operand(st, mm.group(1), mm.group(3))
            nz = _c(b != 0)
            if not z3.is_true(nz):
                st.oob.append(("division by zero in `%s`" % ins, list(st.pc), nz))
            if op in ("sdiv", "srem"):
                w = a.size()
                no = _c(z3.Not(z3.And(a == z3.BitVecVal(1 << (w - 1), w), b == z3.BitVecVal(-1, w))))
                if not z3.is_true(no):
                    st.oob.append(("signed division overflow in `%s`" % ins, list(st.pc), no))
            R[dst] = _c({"udiv": lambda: z3.UDiv(a, b), "urem": lambda: z3.URem(a, b), "sdiv": lambda: a / b,
                         "srem": lambda: z3.SRem(a, b)}[op]())
            return [st]
        if op in ("xor", "or", "and", "shl", "lshr", "ashr", "add", "sub", "mul"):
            mm = re.match(r"^\w+ (?:nsw |nuw |exact )*(i\d+) ([^ ,]+), ([^ ,]+)$", ins)
            if not mm:
                raise Unsupported(ins)
            a = self.operand(st, mm.group(1), mm.group(2))
            b = self.operand(st, mm.group(1), mm.group(3))
            if " nsw " in ins + " " and op in ("add", "sub", "mul"):
                # signed overflow is undefined behaviour: make its absence an obligation
                if op == "add":
                    cond = z3.And(z3.BVAddNoOverflow(a, b, True), z3.BVAddNoUnderflow(a, b))
                elif op == "sub":
                    cond = z3.And(z3.BVSubNoOverflow(a, b), z3.BVSubNoUnderflow(a, b, True))
                else:
                    cond = z3.And(z3.BVMulNoOverflow(a, b, True), z3.BVMulNoUnderflow(a, b))
                cond = _c(cond)
                if not z3.is_true(cond):
                    st.oob.append(("signed overflow in `%s`" % ins, list(st.pc), cond))
            f = {"xor": lambda: a ^ b, "or": lambda: a | b, "and": lambda: a & b, "shl": lambda: a << b,
                 "lshr": lambda: z3.LShR(a, b), "ashr": lambda: a >> b, "add": lambda: a + b,
                 "sub": lambda: a - b, "mul": lambda: a * b}[op]
            R[dst] = _c(f())
            return [st]
        if op in ("zext", "sext", "trunc"):
            mm = re.match(r"^\w+ (i\d+) ([^ ]+) to (i\d+)$", ins)
            if not mm:
                raise Unsupported(ins)
            a = self.operand(st, mm.group(1), mm.group(2))
            w = width_of(mm.group(3))
            if op == "zext":
                R[dst] = _c(z3.ZeroExt(w - a.size(), a))
            elif op == "sext":
                R[dst] = _c(z3.SignExt(w - a.size(), a))
            else:
                R[dst] = _c(z3.Extract(w - 1, 0, a))
            return [st]
        if op == "icmp":
            mm = re.match(r"^icmp (\w+) (.+?) ([^ ,]+), ([^ ,]+)$", ins)
            if not mm:
                raise Unsupported(ins)
            pred, ty = mm.group(1), mm.group(2)
            a = self.operand(st, ty, mm.group(3))
            b = self.operand(st, ty, mm.group(4))
            if isinstance(a, Ptr) or isinstance(b, Ptr):
                if not (isinstance(a, Ptr) and isinstance(b, Ptr)):
                    raise Unsupported("pointer comparison " + ins)
                if not (a.is_null() or b.is_null()):
                    if a.alloc != b.alloc:
                        raise Unsupported("comparison of pointers into different allocations")
                    # same object: compare the offsets (the object does not wrap around the address space)
                    x, y = a.off, b.off
                    cmpf = {"eq": lambda: x == y, "ne": lambda: x != y, "ult": lambda: x < y, "ule": lambda: x <= y,
                            "ugt": lambda: x > y, "uge": lambda: x >= y, "slt": lambda: x < y, "sle": lambda: x <= y,
                            "sgt": lambda: x > y, "sge": lambda: x >= y}
                    if pred not in cmpf:
                        raise Unsupported("icmp " + pred)
                    R[dst] = _c(z3.If(cmpf[pred](), z3.BitVecVal(1, 1), z3.BitVecVal(0, 1)))
                    return [st]
                if pred not in ("eq", "ne"):
                    raise Unsupported("ordered comparison with null")
                same = a.is_null() and b.is_null()
                r = same if pred == "eq" else not same
                R[dst] = z3.BitVecVal(1 if r else 0, 1)
                return [st]
            c = {"eq": lambda: a == b, "ne": lambda: a != b, "slt": lambda: a < b, "sle": lambda: a <= b,
                 "sgt": lambda: a > b, "sge": lambda: a >= b, "ult": lambda: z3.ULT(a, b),
                 "ule": lambda: z3.ULE(a, b), "ugt": lambda: z3.UGT(a, b), "uge": lambda: z3.UGE(a, b)}
            if pred not in c:
                raise Unsupported("icmp " + pred)
            R[dst] = _c(z3.If(c[pred](), z3.BitVecVal(1, 1), z3.BitVecVal(0, 1)))
            return [st]
        if op == "select":
            mm = re.match(r"^select i1 ([^ ,]+), (i\d+) ([^ ,]+), i\d+ ([^ ,]+)$", ins)
            if not mm:
                pm = re.match(r"^select i1 ([^ ,]+), (.+?\*) ([^ ,]+), .+?\* ([^ ,]+)$", ins)
                if not pm:
                    raise Unsupported(ins)
                c = _c(self.operand(st, "i1", pm.group(1)) == 1)
                outs = []
                for cond, tok in ((c, pm.group(3)), (_c(z3.Not(c)), pm.group(4))):
                    if z3.is_false(cond):
                        continue
                    s2 = st if z3.is_true(cond) else st.fork()
                    if not z3.is_true(cond):
                        s2.pc.append(cond)
                        if not self.feasible(s2.pc):
                            continue
                    s2.regs[dst] = self.operand(s2, pm.group(2), tok)
                    outs.append(s2)
                return outs
            c = self.operand(st, "i1", mm.group(1))
            R[dst] = _c(z3.If(c == 1, self.operand(st, mm.group(2), mm.group(3)),
                              self.operand(st, mm.group(2), mm.group(4))))
            return [st]
        if op == "phi":
            mm = re.match(r"^phi (.+?) (\[.*\])$", ins)
            if not mm:
                raise Unsupported(ins)
            for val, lab in re.findall(r"\[ ([^,]+), (%[\w.]+) \]", mm.group(2)):
                if lab == st.prev:
                    R[dst] = self.operand(st, mm.group(1), val)
                    return [st]
            raise Unsupported("phi without matching predecessor")
        if op == "br":
            mm = re.match(r"^br label (%[\w.]+)$", ins)
            if mm:
                st.prev, st.block = st.block, mm.group(1)
                return [st]
            mm = re.match(r"^br i1 ([^ ,]+), label (%[\w.]+), label (%[\w.]+)$", ins)
            if not mm:
                raise Unsupported(ins)
            c = _c(self.operand(st, "i1", mm.group(1)) == 1)
            outs = []
            for cond, lab in ((c, mm.group(2)), (_c(z3.Not(c)), mm.group(3))):
                if z3.is_false(cond):
                    continue
                s2 = st if z3.is_true(cond) else st.fork()
                if not z3.is_true(cond):
                    s2.pc.append(cond)
                    if not self.feasible(s2.pc):
                        continue
                s2.prev, s2.block = st.block, lab
                outs.append(s2)
            return outs
        if op == "call":
            mm = re.match(r"^call (.+?) (?:\(.*?\) )?(@[\w.]+)\((.*)\)$", ins)
            if not mm:
                raise Unsupported(ins)
            name = mm.group(2)[1:]
            if name not in self.stubs:
                raise Unsupported("call of unknown function " + name)
            args = []
            for a in _split_args(mm.group(3)):
                a = re.sub(r"\b(noundef|nonnull|signext|zeroext) ", "", a.strip())
                tm = re.match(r"^(.+?\*+|i\d+) (.+)$", a)
                if not tm:
                    raise Unsupported("argument " + a)
                args.append(self.operand(st, tm.group(1), tm.group(2)))
            outs = []
            for s2, rv in self.stubs[name](self, st, args):
                if dst is not None:
                    s2.regs[dst] = rv
                outs.append(s2)
            return outs
        if op == "ret":
            mm = re.match(r"^ret (.+?) ([^ ]+)$", ins)
            if ins.strip() == "ret void":
                return [Leaf(st, None)]
            if not mm:
                raise Unsupported(ins)
            return [Leaf(st, self.operand(st, mm.group(1), mm.group(2)))]
        raise Unsupported("opcode `%s` in `%s`" % (op, ins))

    def run(self, st, args):
        if len(args) != len(self.fn.params):
            raise Unsupported("parameter count")
        for p, a in zip(self.fn.params, args):
            st.regs[p] = a
        st.block = self.fn.order[0]
        leaves = []
        work = [(st, 0)]
        while work:
            s, ip = work.pop()
            block = self.fn.blocks[s.block]
            cur = s.block
            while True:
                if ip >= len(block):
                    raise Unsupported("fell off block " + cur)
                outs = self.step(s, block[ip])
                ip += 1
                if len(outs) == 1 and outs[0] is s and s.block == cur and not isinstance(outs[0], Leaf) \
                        and not block[ip - 1].startswith("br "):
                    continue
                for o in outs:
                    if isinstance(o, Leaf):
                        leaves.append(o)
                    elif o.block == cur and not block[ip - 1].startswith("br "):
                        work.append((o, ip))       # forked by a call stub: continue in the same block
                    else:
                        work.append((o, 0))
                break
        return leaves


def _free_names(e):
    out, todo, seen = set(), [e], set()
    while todo:
        x = todo.pop()
        if x.get_id() in seen:
            continue
        seen.add(x.get_id())
        if z3.is_const(x) and x.decl().kind() == z3.Z3_OP_UNINTERPRETED:
            out.add(str(x))
        todo.extend(x.children())
    return out


def _split_args(s):
    out, depth, cur = [], 0, ""
    for ch in s:
        if ch in "([":
            depth += 1
        elif ch in ")]":
            depth -= 1
        if ch == "," and depth == 0:
            out.append(cur)
            cur = ""
        else:
            cur += ch
    if cur.strip():
        out.append(cur)
    return out
