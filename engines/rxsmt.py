"""Engine B (rxsmt): live Python regex -> z3 regular expression over z3 String + language queries.

The pattern text and flags are taken from the LIVE object (a compiled pattern imported from the
repo under test, or a pattern literal pulled out of the live source with `inline_patterns`); it is
parsed with CPython's own `re._parser.parse` and the parse tree is translated node by node:
  LITERAL/NOT_LITERAL/ANY/IN(+NEGATE, RANGE, CATEGORY) -> character sets kept as interval lists over
  code points 0..0x2FFFF (z3's character sort) for str patterns, 0..0xFF for bytes patterns, emitted
  as Union(Range..); BRANCH -> Union; SUBPATTERN -> its body (scoped inline flags honoured);
  MAX_REPEAT/MIN_REPEAT -> Star/Plus/Option/Loop (lazy = same language); \\d \\w \\s -> tables built
  from `unicodedata` (ASCII tables for bytes patterns / re.ASCII) and cross-checked against sre for
  every code point by validate(); IGNORECASE -> case closure; ^ \\A $ \\Z only at the two ends.
  Refused with `Unsupported`: \\b \\B, look-around, back-references, conditional groups, atomic groups
  and possessive repeats, LOCALE, MULTILINE anchors, anchors in the middle of the pattern.

API (R, A, B are z3 ReRef; every query returns (verdict, witness, seconds), verdict in
{"unsat","sat","unknown"}; "unknown" is inconclusive, never success; the witness is a Python str):
  to_z3(compiled_or_pattern, flags=0, mode="fullmatch") -> ReRef
        mode "fullmatch" | "match" | "search": the set of subject strings s for which
        re.<mode>(pattern, s) succeeds (so `$` in match/search mode also admits one trailing "\\n").
        For bytes patterns a string stands for its latin-1 decoding; pass universe=BYTES to queries.
  included(A, B, universe=None)    unsat <=> L(A) & universe is a subset of L(B); sat: s in A \\ B
  equivalent(A, B, universe=None)  unsat <=> same language (both inclusions)
  excludes_chars(A, chars, universe=None)  unsat <=> no member of A contains any character of `chars`
  witness(R, universe=None)        sat + a member of R (pass e.g. diff(A, B)); unsat <=> R empty
  diff(A, B) = A & ~B;  chars(iterable_of_codepoints_or_str) -> ReRef for one char of the set;
  anystr(top) / BYTES / lit(s): helpers for writing independent reference grammars.
  members(R, n, universe=None)     up to n distinct solver-generated members
  validate(compiled, samples, mode="fullmatch", nsolver=6) -> dict(checked, mismatches, ...):
        compares re.<mode> with the z3 encoding evaluated on each concrete sample
        (InRe(StringVal(s), R)), on solver-generated members / non-members, and the \\d\\w\\s tables
        with sre on every code point.  Must be run on every check run (harvest() supplies samples).
  harvest(limit=300)               string literals from <repo>/tornado/test/*_test.py
  inline_patterns(func)            [(pattern, callee)] for re.search/match/fullmatch/compile literals
                                   in the live source of `func` (inspect.getsource + ast)
Timeout per query: TIMEOUT_MS (z3 "timeout").  Trusted base: z3 (wheel) seq/re theory, re._parser.
"""
import ast
import bisect
import glob
import inspect
import os
import re
import re._constants as sc
import re._parser as sp
import textwrap
import time
import unicodedata

import z3

MAXCP = 0x2FFFF
TIMEOUT_MS = 60000
_RS = z3.ReSort(z3.StringSort())


class Unsupported(Exception):
    """The pattern uses a construct that has no regular-language translation here."""


# ----------------------------------------------------------------- interval-list character sets
def _norm(iv):
    out = []
    for lo, hi in sorted(iv):
        if lo > hi:
            continue
        if out and lo <= out[-1][1] + 1:
            out[-1][1] = max(out[-1][1], hi)
        else:
            out.append([lo, hi])
    return [(a, b) for a, b in out]


def _compl(iv, top):
    out, nxt = [], 0
    for lo, hi in _norm(iv):
        if lo > nxt:
            out.append((nxt, lo - 1))
        nxt = hi + 1
    if nxt <= top:
        out.append((nxt, top))
    return out


def _clip(iv, top):
    return _norm([(lo, min(hi, top)) for lo, hi in iv if lo <= top])


def _from_pred(pred, top):
    out, start = [], None
    for x in range(top + 2):
        ok = x <= top and pred(x)
        if ok and start is None:
            start = x
        elif not ok and start is not None:
            out.append((start, x - 1))
            start = None
    return out


def _has(iv, x):
    i = bisect.bisect_right(iv, (x, MAXCP + 1)) - 1
    return i >= 0 and iv[i][0] <= x <= iv[i][1]


_CAT = {}


def _category(kind, uni):
    """kind in 'd','s','w'. Unicode tables are derived from unicodedata (validated against sre)."""
    key = (kind, uni)
    if key not in _CAT:
        if not uni:
            _CAT[key] = {"d": [(48, 57)], "s": [(9, 13), (32, 32)],
                         "w": [(48, 57), (65, 90), (95, 95), (97, 122)]}[kind]
        elif kind == "d":
            _CAT[key] = _from_pred(lambda x: unicodedata.category(chr(x)) == "Nd", MAXCP)
        elif kind == "s":
            _CAT[key] = _from_pred(lambda x: unicodedata.category(chr(x)) == "Zs" or
                                   unicodedata.bidirectional(chr(x)) in ("WS", "B", "S"), MAXCP)
        else:
            _CAT[key] = _from_pred(lambda x: x == 95 or unicodedata.category(chr(x))[0] in "LN" or
                                   unicodedata.numeric(chr(x), None) is not None, MAXCP)
    return _CAT[key]


def _case_closure(iv, top, ascii_only=False):
    iv = _norm(iv)

    def pred(x):
        if _has(iv, x):
            return True
        if ascii_only and x > 127:
            return False
        c = chr(x)
        for v in (c.lower(), c.upper(), c.lower().upper(), c.upper().lower()):
            if len(v) == 1 and _has(iv, ord(v)):
                return True
        return False
    return _from_pred(pred, top)


def _ch(x):
    return z3.Unit(z3.CharVal(x))


def lit(s):
    """z3 regex for exactly the string s (any code points <= 0x2FFFF)."""
    if isinstance(s, bytes):
        s = s.decode("latin-1")
    if s == "":
        return z3.Re(z3.StringVal(""))
    if all(32 <= ord(c) < 127 and c != "\\" for c in s):
        return z3.Re(z3.StringVal(s))
    parts = [_ch(ord(c)) for c in s]
    return z3.Re(parts[0] if len(parts) == 1 else z3.Concat(*parts))


def _set_re(iv, top=MAXCP):
    iv = _clip(iv, top)
    if not iv:
        return z3.Empty(_RS)
    if iv == [(0, MAXCP)]:
        return z3.AllChar(_RS)
    rs = [z3.Re(_ch(lo)) if lo == hi else z3.Range(_ch(lo), _ch(hi)) for lo, hi in iv]
    return rs[0] if len(rs) == 1 else z3.Union(*rs)


def chars(cs, top=MAXCP):
    """One character out of `cs` (str, or iterable of code points / (lo, hi) pairs)."""
    iv = []
    for c in cs:
        iv.append((ord(c), ord(c)) if isinstance(c, str) else (c, c) if isinstance(c, int) else tuple(c))
    return _set_re(_norm(iv), top)


def anystr(top=MAXCP):
    return z3.Star(_set_re([(0, top)], top))


BYTES = anystr(0xFF)


def _cat(*rs):
    rs = list(rs)
    return lit("") if not rs else rs[0] if len(rs) == 1 else z3.Concat(*rs)


def _alt(*rs):
    rs = list(rs)
    return z3.Empty(_RS) if not rs else rs[0] if len(rs) == 1 else z3.Union(*rs)


# ----------------------------------------------------------------- translation
class _Tr:
    def __init__(self, isbytes, flags):
        self.top = 0xFF if isbytes else MAXCP
        self.isbytes = isbytes
        self.flags = flags
        if flags & re.LOCALE:
            raise Unsupported("LOCALE flag")

    @property
    def uni(self):
        return not self.isbytes and not (self.flags & re.ASCII)

    def charset(self, iv):
        iv = _clip(_norm(iv), self.top)
        if self.flags & re.IGNORECASE:
            iv = _case_closure(iv, self.top, ascii_only=not self.uni)
        return iv

    def category(self, which):
        name = str(which)
        kind = "d" if "DIGIT" in name else "s" if "SPACE" in name else "w" if "WORD" in name else None
        if kind is None or "LOC" in name:
            raise Unsupported("category %s" % name)
        iv = _category(kind, self.uni)
        return _compl(iv, self.top) if "NOT" in name else _clip(iv, self.top)

    def in_set(self, items):
        neg, iv, cats = False, [], []
        for op, av in items:
            if op is sc.NEGATE:
                neg = True
            elif op is sc.LITERAL:
                iv.append((av, av))
            elif op is sc.RANGE:
                iv.append(av)
            elif op is sc.CATEGORY:
                cats += self.category(av)
            else:
                raise Unsupported("set item %s" % op)
        iv = _norm(self.charset(iv) + cats)
        return _compl(iv, self.top) if neg else iv

    def seq(self, items):
        return _cat(*[self.node(op, av) for op, av in items])

    def node(self, op, av):
        if op is sc.LITERAL:
            return _set_re(self.charset([(av, av)]), self.top)
        if op is sc.NOT_LITERAL:
            return _set_re(_compl(self.charset([(av, av)]), self.top), self.top)
        if op is sc.ANY:
            return _set_re([(0, self.top)] if self.flags & re.DOTALL else _compl([(10, 10)], self.top),
                           self.top)
        if op is sc.IN:
            return _set_re(self.in_set(av), self.top)
        if op is sc.BRANCH:
            return _alt(*[self.seq(list(b)) for b in av[1]])
        if op is sc.SUBPATTERN:
            _g, add, dele, body = av
            sub = self if not (add or dele) else _Tr(self.isbytes, (self.flags | add) & ~dele)
            return sub.seq(list(body))
        if op in (sc.MAX_REPEAT, sc.MIN_REPEAT):
            lo, hi, body = av
            r = self.seq(list(body))
            if hi == sc.MAXREPEAT:
                return z3.Star(r) if lo == 0 else z3.Plus(r) if lo == 1 else z3.Concat(z3.Loop(r, lo, lo), z3.Star(r))
            if (lo, hi) == (0, 1):
                return z3.Option(r)
            return z3.Loop(r, lo, hi) if hi > 0 else lit("")
        if op is sc.AT:
            raise Unsupported("anchor/boundary %s not at the ends of the pattern" % av)
        raise Unsupported("construct %s" % op)


def to_z3(p, flags=0, mode="fullmatch"):
    if hasattr(p, "pattern"):
        flags |= p.flags
        p = p.pattern
    tree = sp.parse(p, flags)
    flags = tree.state.flags
    tr = _Tr(isinstance(p, bytes), flags)
    items = list(tree)
    bol, eol = False, None
    while items and items[0][0] is sc.AT and items[0][1] in (sc.AT_BEGINNING, sc.AT_BEGINNING_STRING):
        if items[0][1] is sc.AT_BEGINNING and flags & re.MULTILINE:
            raise Unsupported("^ with MULTILINE")
        bol = True
        items.pop(0)
    while items and items[-1][0] is sc.AT and items[-1][1] in (sc.AT_END, sc.AT_END_STRING):
        if items[-1][1] is sc.AT_END and flags & re.MULTILINE:
            raise Unsupported("$ with MULTILINE")
        eol = "Z" if (eol == "Z" or items[-1][1] is sc.AT_END_STRING) else "$"
        items.pop()
    body = tr.seq(items)
    if mode == "fullmatch":
        return body
    if mode not in ("match", "search"):
        raise ValueError(mode)
    sigma = anystr(tr.top)
    tail = sigma if eol is None else lit("") if eol == "Z" else z3.Option(lit("\n"))
    head = lit("") if (bol or mode == "match") else sigma
    return z3.Concat(head, body, tail)


# ----------------------------------------------------------------- queries
_UESC = re.compile(r"\\u\{([0-9a-fA-F]+)\}")


def _decode(v):
    return "" if v is None else _UESC.sub(lambda m: chr(int(m.group(1), 16)), v.as_string())


def diff(A, B):
    return z3.Intersect(A, z3.Complement(B))


def witness(R, universe=None, avoid=()):
    s = z3.String("s")
    sol = z3.Solver()
    sol.set("timeout", TIMEOUT_MS)
    sol.add(z3.InRe(s, R if universe is None else z3.Intersect(R, universe)))
    for w in avoid:
        sol.add(s != _str(w))
    t0 = time.time()
    r = sol.check()
    dt = round(time.time() - t0, 3)
    if r == z3.sat:
        return "sat", _decode(sol.model().eval(s, model_completion=True)), dt
    return ("unsat" if r == z3.unsat else "unknown"), None, dt


def included(A, B, universe=None):
    return witness(diff(A, B), universe)


def equivalent(A, B, universe=None):
    v1, w1, t1 = included(A, B, universe)
    if v1 == "sat":
        return v1, w1, t1
    v2, w2, t2 = included(B, A, universe)
    if v2 == "sat":
        return v2, w2, round(t1 + t2, 3)
    return ("unsat" if v1 == v2 == "unsat" else "unknown"), None, round(t1 + t2, 3)


def excludes_chars(A, cs, universe=None):
    return witness(z3.Intersect(A, z3.Concat(anystr(), chars(cs), anystr())), universe)


def members(R, n, universe=None):
    out = []
    for _ in range(n):
        v, w, _t = witness(R, universe, avoid=out)
        if v != "sat":
            break
        out.append(w)
    return out


def _str(s):
    if all(32 <= ord(c) < 127 and c != "\\" for c in s):
        return z3.StringVal(s)
    parts = [_ch(ord(c)) for c in s]
    return parts[0] if len(parts) == 1 else z3.Concat(*parts)


def in_re(s, R):
    """Evaluate the z3 encoding on the concrete string s -> True/False/None(unknown)."""
    e = z3.simplify(z3.InRe(_str(s), R))
    if z3.is_true(e):
        return True
    if z3.is_false(e):
        return False
    sol = z3.Solver()
    sol.set("timeout", 10000)
    sol.add(e)
    r = sol.check()
    return True if r == z3.sat else False if r == z3.unsat else None


_CATS_OK = []


def _check_categories():
    """unicodedata-derived \\d \\s \\w tables == sre's, on every code point 0..MAXCP."""
    if not _CATS_OK:
        bad = []
        for kind in "dsw":
            f = re.compile("\\" + kind).fullmatch
            real = _from_pred(lambda x: f(chr(x)) is not None, MAXCP)
            if real != _norm(_category(kind, True)):
                bad.append(kind)
        _CATS_OK.append(bad)
    return _CATS_OK[0]


def validate(compiled, samples, mode="fullmatch", nsolver=6, flags=0):
    if not hasattr(compiled, "pattern"):
        compiled = re.compile(compiled, flags)
    isb = isinstance(compiled.pattern, bytes)
    top = 0xFF if isb else MAXCP
    R = to_z3(compiled, mode=mode)
    real = getattr(compiled, mode)
    uni = anystr(top)
    sol_in = members(R, nsolver, uni)
    sol_out = members(z3.Complement(R), nsolver, uni)
    mism, n = [], 0
    for s in list(samples) + sol_in + sol_out:
        if isinstance(s, bytes):
            s = s.decode("latin-1")
        if any(ord(c) > top for c in s):
            continue
        want = real(s.encode("latin-1") if isb else s) is not None
        got = in_re(s, R)
        n += 1
        if got is not want:
            mism.append(dict(sample=s, re=want, z3=got))
    for s in sol_in:
        if real(s.encode("latin-1") if isb else s) is None:
            mism.append(dict(sample=s, re=False, z3="solver member"))
    bad = _check_categories() if not isb else []
    if bad:
        mism.append(dict(sample="category tables", re="sre", z3=bad))
    return dict(pattern=repr(compiled.pattern)[:80], mode=mode, checked=n, solver_members=len(sol_in),
                solver_nonmembers=len(sol_out), mismatches=mism[:5], ok=not mism)


def harvest(limit=300, repo=None):
    repo = repo or os.environ.get("VERIF_REPO", "/repo")
    seen = []
    for path in sorted(glob.glob(os.path.join(repo, "tornado/test/*_test.py"))):
        try:
            tree = ast.parse(open(path, encoding="utf-8").read())
        except Exception:
            continue
        for n in ast.walk(tree):
            if isinstance(n, ast.Constant) and isinstance(n.value, (str, bytes)):
                v = n.value.decode("latin-1") if isinstance(n.value, bytes) else n.value
                if 0 < len(v) <= 60 and all(ord(c) <= MAXCP for c in v):
                    seen.append(v)
    seen = sorted(set(seen))
    step = max(1, len(seen) // limit)
    return seen[::step][:limit]


def inline_patterns(func):
    """Pattern literals passed to re.search/match/fullmatch/compile/sub in func's LIVE source."""
    tree = ast.parse(textwrap.dedent(inspect.getsource(func)))
    out = []
    for n in ast.walk(tree):
        if (isinstance(n, ast.Call) and isinstance(n.func, ast.Attribute) and
                isinstance(n.func.value, ast.Name) and n.func.value.id == "re" and n.args and
                isinstance(n.args[0], ast.Constant) and isinstance(n.args[0].value, (str, bytes))):
            out.append((n.args[0].value, n.func.attr))
    return out
