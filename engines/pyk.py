"""Engine C - a small Python-AST -> z3 translator for arithmetic kernels.

translate(fn, mode, fields=..., args=...) reads the CURRENT source of `fn` (inspect.getsource),
parses it and symbolically executes the statements over z3 terms:

  statements : Assign / AugAssign / AnnAssign (to a local name or to `self.<attr>`), If/else (both
               branches executed and merged with If-then-else terms unless the test folds to a
               constant), `while` (unrolled `unroll` times + an unwinding obligation), Pass,
               docstrings, a trailing `return expr`, `raise` (ends the path; recorded as the obligation
               "this point is unreachable" with its path condition)
  expressions: names, `self.<attr>` reads, int/float constants, + - * / (and // in the exact mode),
               unary minus, comparisons (also chained), and/or/not, truthiness of numbers,
               math.floor(x), random.random(), isinstance(x, datetime.timedelta) (decided from the declared
               kind of x), datetime.timedelta(<int keyword constants>), timedelta / timedelta and
               timedelta // timedelta (exact mode; a timedelta is its integer microsecond count)   (callees are resolved through fn.__globals__ and
               compared BY IDENTITY with the stdlib function - a name that merely looks like one
               is not accepted)

Anything else raises Unsupported - the caller must report ERROR, never guess.

Two numeric modes
  RealMode : Python float -> z3 Real, Python int -> z3 Int (exact arithmetic; floor(x) is an Int
             witness k with k <= x < k+1).
  FPMode(sort): Python float -> z3 FloatingPoint(sort), RNE for + - * /.  Python ints are unbounded,
             so an int value is kept *lazily* as  (integral FP term | None) + exact integer constant;
             it is converted to a float with ONE correctly-rounded addition exactly where CPython
             converts (int op float).  int*int etc. are not needed by the kernels and raise
             Unsupported.  math.floor(x) = fpRoundToIntegral(RTN, x) with the definedness
             obligation "x is finite" (CPython raises OverflowError / ValueError otherwise).

Result: Kernel(inputs, fields_out, locals, ret, side (constraints that define witnesses / ranges),
safety (definedness obligations: (label, path_condition, must_hold)), randoms, source_sha).
"""
import ast
import hashlib
import inspect
import math
import random
import struct
import textwrap
from fractions import Fraction

import z3


class Unsupported(Exception):
    pass


# ------------------------------------------------------------------------------------------ values
class V:
    """kind in 'int' | 'float' | 'bool'.  For FP-mode ints: term = integral FP term or None, off = int."""
    __slots__ = ("kind", "term", "off")

    def __init__(self, kind, term, off=0):
        self.kind, self.term, self.off = kind, term, off

    def __repr__(self):
        return "V(%s,%s,%s)" % (self.kind, self.term, self.off)


class RealMode:
    name = "real"

    def var(self, name, kind):
        if kind == "opaque":
            return V("opaque", None)
        if kind == "td":                       # datetime.timedelta as an integer number of microseconds
            return V("td", z3.Int(name))
        return V(kind, z3.Int(name) if kind == "int" else z3.Real(name))

    def const(self, c):
        if c is None:
            return V("opaque", None)
        if isinstance(c, bool):
            return V("bool", z3.BoolVal(c))
        if isinstance(c, int):
            return V("int", z3.IntVal(c))
        if isinstance(c, float):
            if c != c or c in (float("inf"), float("-inf")):
                raise Unsupported("non-finite float constant")
            f = Fraction(c)
            return V("float", z3.RealVal(str(f.numerator)) / z3.RealVal(str(f.denominator))
                     if f.denominator != 1 else z3.RealVal(str(f.numerator)))
        raise Unsupported("constant %r" % (c,))

    def num(self, v):
        if v.kind not in ("int", "float"):
            raise Unsupported("%s used as a number" % v.kind)
        return v.term

    def fl(self, v):
        return z3.ToReal(v.term) if v.kind == "int" else self.num(v)

    def binop(self, op, a, b, tr):
        if a.kind == "td" and b.kind == "td" and op in ("/", "//"):
            # timedelta / timedelta -> float (exact ratio of the microsecond counts); // -> int (floor)
            tr.need("division by zero", b.term != 0)
            q = V("float", z3.ToReal(a.term) / z3.ToReal(b.term))
            return q if op == "/" else self.floor(q, tr)
        if a.kind in ("bool", "td", "opaque") or b.kind in ("bool", "td", "opaque"):
            raise Unsupported("arithmetic on %s %s %s" % (a.kind, op, b.kind))
        both_int = a.kind == "int" and b.kind == "int"
        if op in ("+", "-", "*"):
            x, y = (a.term, b.term) if both_int else (self.fl(a), self.fl(b))
            r = x + y if op == "+" else x - y if op == "-" else x * y
            return V("int" if both_int else "float", r)
        if op == "/":
            tr.need("division by zero", self.fl(b) != 0)
            return V("float", self.fl(a) / self.fl(b))
        if op == "//":
            tr.need("division by zero", self.fl(b) != 0)
            q = self.fl(a) / self.fl(b)
            k = self.floor(V("float", q), tr)
            return k if both_int else V("float", z3.ToReal(k.term))
        raise Unsupported("operator " + op)

    def neg(self, a):
        return V(a.kind, -self.num(a))

    def floor(self, a, tr):
        if a.kind == "int":
            return a
        k = z3.Int("floor!%d" % tr.fresh())
        tr.side.append(z3.And(z3.ToReal(k) <= a.term, a.term < z3.ToReal(k) + 1))
        tr.witnesses.append((k, a.term))
        return V("int", k)

    def cmp(self, op, a, b):
        if a.kind not in ("int", "float") or b.kind not in ("int", "float"):
            raise Unsupported("comparison of %s and %s" % (a.kind, b.kind))
        x, y = (a.term, b.term) if (a.kind == b.kind) else (self.fl(a), self.fl(b))
        return {"<": x < y, "<=": x <= y, ">": x > y, ">=": x >= y, "==": x == y, "!=": x != y}[op]

    def truthy(self, a):
        if a.kind == "bool":
            return a.term
        if a.kind not in ("int", "float"):
            raise Unsupported("truthiness of " + a.kind)
        return a.term != 0

    def ite(self, c, a, b):
        if "opaque" in (a.kind, b.kind) or "td" in (a.kind, b.kind):
            raise Unsupported("merge of %s and %s" % (a.kind, b.kind))
        if a.kind != b.kind:
            if "bool" in (a.kind, b.kind):
                raise Unsupported("merge of bool and number")
            return V("float", z3.If(c, self.fl(a), self.fl(b)))
        return V(a.kind, z3.If(c, a.term, b.term))

    def random(self, tr):
        r = z3.Real("random!%d" % tr.fresh())
        tr.side.append(z3.And(r >= 0, r < 1))
        tr.randoms.append(r)
        return V("float", r)


class FPMode:
    def __init__(self, sort):
        self.sort = sort
        self.name = "fp%d" % (sort.ebits() + sort.sbits())
        self.rm = z3.RNE()

    def var(self, name, kind):
        if kind != "float":
            raise Unsupported("FP mode: symbolic int input")
        return V("float", z3.FP(name, self.sort))

    def const(self, c):
        if c is None:
            return V("opaque", None)
        if isinstance(c, bool):
            return V("bool", z3.BoolVal(c))
        if isinstance(c, int):
            return V("int", None, c)
        if isinstance(c, float):
            return V("float", z3.FPVal(c, self.sort))
        raise Unsupported("constant %r" % (c,))

    def _exact_const(self, n):
        """the integer n as an FP constant; must be exactly representable in the sort."""
        if abs(n) >= 2 ** self.sort.sbits():
            raise Unsupported("integer constant %d not exactly representable" % n)
        return z3.FPVal(n, self.sort)

    def fl(self, v):
        if v.kind == "float":
            return v.term
        if v.kind == "int":
            if v.term is None:
                return self._exact_const(v.off)
            if v.off == 0:
                return v.term
            # exact integer (term + off) converted with one correct rounding (= PyLong_AsDouble)
            return z3.fpAdd(self.rm, v.term, self._exact_const(v.off))
        raise Unsupported("bool used as a number")

    def binop(self, op, a, b, tr):
        if a.kind == "bool" or b.kind == "bool":
            raise Unsupported("arithmetic on bool")
        if a.kind == "int" and b.kind == "int":
            if op in ("+", "-"):
                if b.term is None:
                    return V("int", a.term, a.off + (b.off if op == "+" else -b.off))
                if a.term is None and op == "+":
                    return V("int", b.term, a.off + b.off)
            if op == "*" and a.term is None and b.term is None:
                return V("int", None, a.off * b.off)
            raise Unsupported("FP mode: int %s int on symbolic integers" % op)
        x, y = self.fl(a), self.fl(b)
        if op == "+":
            return V("float", z3.fpAdd(self.rm, x, y))
        if op == "-":
            return V("float", z3.fpSub(self.rm, x, y))
        if op == "*":
            return V("float", z3.fpMul(self.rm, x, y))
        if op == "/":
            tr.need("division by zero", z3.Not(z3.fpIsZero(y)))
            return V("float", z3.fpDiv(self.rm, x, y))
        raise Unsupported("FP mode: operator " + op)

    def neg(self, a):
        if a.kind == "int":
            if a.term is None:
                return V("int", None, -a.off)
            raise Unsupported("FP mode: negation of symbolic int")
        return V("float", z3.fpNeg(a.term))

    def floor(self, a, tr):
        if a.kind == "int":
            return a
        tr.need("math.floor of inf/nan", z3.Not(z3.Or(z3.fpIsInf(a.term), z3.fpIsNaN(a.term))))
        return V("int", z3.fpRoundToIntegral(z3.RTN(), a.term), 0)

    def cmp(self, op, a, b):
        if a.kind == "int" and b.kind == "int" and a.term is None and b.term is None:
            return z3.BoolVal({"<": a.off < b.off, "<=": a.off <= b.off, ">": a.off > b.off,
                               ">=": a.off >= b.off, "==": a.off == b.off, "!=": a.off != b.off}[op])
        if "int" in (a.kind, b.kind) and (a.term is not None and a.kind == "int" and a.off != 0 or
                                          b.term is not None and b.kind == "int" and b.off != 0):
            raise Unsupported("FP mode: comparison with an unconverted symbolic int")
        x, y = self.fl(a), self.fl(b)
        return {"<": z3.fpLT(x, y), "<=": z3.fpLEQ(x, y), ">": z3.fpGT(x, y), ">=": z3.fpGEQ(x, y),
                "==": z3.fpEQ(x, y), "!=": z3.Not(z3.fpEQ(x, y))}[op]

    def truthy(self, a):
        if a.kind == "bool":
            return a.term
        if a.kind == "int":
            if a.term is None:
                return z3.BoolVal(a.off != 0)
            raise Unsupported("FP mode: truthiness of symbolic int")
        return z3.Not(z3.fpIsZero(a.term))       # nan is truthy, +-0.0 falsy - as in CPython

    def ite(self, c, a, b):
        if a.kind == "bool" and b.kind == "bool":
            return V("bool", z3.If(c, a.term, b.term))
        if a.kind == "int" and b.kind == "int" and a.off == b.off and \
                a.term is not None and b.term is not None:
            return V("int", z3.If(c, a.term, b.term), a.off)
        if a.kind == "int" and b.kind == "int" and a.term is None and b.term is None and a.off == b.off:
            return a
        if a.kind == "float" and b.kind == "float":
            return V("float", z3.If(c, a.term, b.term))
        raise Unsupported("FP mode: merge of %s and %s" % (a.kind, b.kind))

    def random(self, tr):
        r = z3.FP("random!%d" % tr.fresh(), self.sort)
        tr.side.append(z3.And(z3.fpGEQ(r, z3.FPVal(0.0, self.sort)), z3.fpLT(r, z3.FPVal(1.0, self.sort))))
        tr.randoms.append(r)
        return V("float", r)


# ------------------------------------------------------------------------------------------ kernel
class Kernel:
    def __init__(self):
        self.inputs = {}        # name -> z3 var        ('self.x' for fields)
        self.fields_out = {}    # attr -> V
        self.locals = {}
        self.ret = None
        self.side = []          # witness-defining constraints (always satisfiable)
        self.witnesses = []     # (k, x) floor witnesses (Real mode)
        self.randoms = []
        self.safety = []        # (label, path condition, must_hold)
        self.source_sha = None
        self.source = None
        self.nodes = 0

    def side_conj(self):
        return z3.And(*self.side) if self.side else z3.BoolVal(True)


_BIN = {ast.Add: "+", ast.Sub: "-", ast.Mult: "*", ast.Div: "/", ast.FloorDiv: "//"}
_CMP = {ast.Lt: "<", ast.LtE: "<=", ast.Gt: ">", ast.GtE: ">=", ast.Eq: "==", ast.NotEq: "!="}


class _Tr:
    def __init__(self, mode, fn, fields, args, unroll):
        self.m = mode
        self.fn = fn
        self.k = Kernel()
        self.side = self.k.side
        self.witnesses = self.k.witnesses
        self.randoms = self.k.randoms
        self._n = 0
        self.path = []          # stack of z3 Bool path conditions
        self.unroll = unroll
        self.fields = dict(fields)   # attr -> V (current)
        self.locals = dict(args)     # name -> V
        self.selfname = None

    def fresh(self):
        self._n += 1
        return self._n

    def pc(self):
        return z3.And(*self.path) if self.path else z3.BoolVal(True)

    def need(self, label, cond):
        self.k.safety.append((label, self.pc(), cond))

    # ---------------------------------------------------------------- expressions
    def resolve(self, node):
        """Resolve a dotted name through the function's globals; returns the Python object."""
        if isinstance(node, ast.Name):
            if node.id in self.locals or node.id == self.selfname:
                raise Unsupported("call of a local")
            g = self.fn.__globals__
            if node.id in g:
                return g[node.id]
            import builtins
            if hasattr(builtins, node.id):
                return getattr(builtins, node.id)
            raise Unsupported("unknown global " + node.id)
        if isinstance(node, ast.Attribute):
            return getattr(self.resolve(node.value), node.attr)
        raise Unsupported("callee " + ast.dump(node))

    def expr(self, e):
        self.k.nodes += 1
        m = self.m
        if isinstance(e, ast.Constant):
            return m.const(e.value)
        if isinstance(e, ast.Name):
            if e.id in self.locals:
                return self.locals[e.id]
            raise Unsupported("read of unknown name " + e.id)
        if isinstance(e, ast.Attribute):
            if isinstance(e.value, ast.Name) and e.value.id == self.selfname:
                if e.attr in self.fields:
                    return self.fields[e.attr]
                raise Unsupported("read of undeclared field self." + e.attr)
            raise Unsupported("attribute " + ast.dump(e))
        if isinstance(e, ast.BinOp):
            if type(e.op) not in _BIN:
                raise Unsupported("operator " + type(e.op).__name__)
            a = self.expr(e.left)
            b = self.expr(e.right)
            return m.binop(_BIN[type(e.op)], a, b, self)
        if isinstance(e, ast.UnaryOp):
            if isinstance(e.op, ast.USub):
                return m.neg(self.expr(e.operand))
            if isinstance(e.op, ast.UAdd):
                return self.expr(e.operand)
            if isinstance(e.op, ast.Not):
                return V("bool", z3.Not(m.truthy(self.expr(e.operand))))
            raise Unsupported("unary " + type(e.op).__name__)
        if isinstance(e, ast.Compare):
            left = self.expr(e.left)
            cs = []
            for op, right in zip(e.ops, e.comparators):
                if type(op) not in _CMP:
                    raise Unsupported("comparison " + type(op).__name__)
                r = self.expr(right)
                cs.append(m.cmp(_CMP[type(op)], left, r))
                left = r
            return V("bool", z3.And(*cs) if len(cs) > 1 else cs[0])
        if isinstance(e, ast.BoolOp):
            # only as a condition (value semantics of and/or on numbers not modelled)
            vs = [self.expr(x) for x in e.values]
            if any(v.kind != "bool" for v in vs):
                raise Unsupported("and/or on non-bool operands")
            ts = [v.term for v in vs]
            return V("bool", z3.And(*ts) if isinstance(e.op, ast.And) else z3.Or(*ts))
        if isinstance(e, ast.Call):
            f = self.resolve(e.func)
            import datetime as _dt
            if f is _dt.timedelta and not e.args:
                # constant timedelta from integer keyword arguments -> microseconds
                unit = dict(weeks=604800 * 10 ** 6, days=86400 * 10 ** 6, hours=3600 * 10 ** 6, minutes=60 * 10 ** 6,
                            seconds=10 ** 6, milliseconds=1000, microseconds=1)
                us = 0
                for kw in e.keywords:
                    if kw.arg not in unit or not isinstance(kw.value, ast.Constant) or \
                            type(kw.value.value) is not int:
                        raise Unsupported("timedelta(%s=...) with a non-constant / non-integer argument" % kw.arg)
                    us += unit[kw.arg] * kw.value.value
                if self.m.name != "real":
                    raise Unsupported("timedelta in FP mode")
                return V("td", z3.IntVal(us))
            if e.keywords:
                raise Unsupported("keyword arguments")
            if f is isinstance and len(e.args) == 2:
                v = self.expr(e.args[0])
                t = self.resolve(e.args[1])
                if t is _dt.timedelta:
                    if v.kind == "td":
                        return V("bool", z3.BoolVal(True))
                    if v.kind in ("int", "float"):
                        return V("bool", z3.BoolVal(False))
                raise Unsupported("isinstance(%s, %r)" % (v.kind, t))
            if f is math.floor and len(e.args) == 1:
                return m.floor(self.expr(e.args[0]), self)
            if f is random.random and not e.args:
                return m.random(self)
            raise Unsupported("call of %r" % (f,))
        raise Unsupported("expression " + type(e).__name__)

    def cond(self, e):
        c = z3.simplify(self.m.truthy(self.expr(e)))
        return c

    # ---------------------------------------------------------------- statements
    def assign(self, target, v):
        if isinstance(target, ast.Name):
            self.locals[target.id] = v
        elif isinstance(target, ast.Attribute) and isinstance(target.value, ast.Name) and \
                target.value.id == self.selfname:
            self.fields[target.attr] = v
        else:
            raise Unsupported("assignment target " + ast.dump(target))

    def snapshot(self):
        return dict(self.locals), dict(self.fields)

    def restore(self, s):
        self.locals, self.fields = dict(s[0]), dict(s[1])

    def merge(self, c, s_then, s_else):
        out = []
        for dt, de in ((s_then[0], s_else[0]), (s_then[1], s_else[1])):
            d = {}
            for k in set(dt) | set(de):
                if k in dt and k in de:
                    a, b = dt[k], de[k]
                    d[k] = a if a is b else self.m.ite(c, a, b)
                # a name bound on one side only is not usable afterwards (UnboundLocalError risk):
                # leaving it out makes any later read raise Unsupported
            out.append(d)
        self.locals, self.fields = out

    def block(self, stmts, top=False):
        """returns True when the block always ends in `raise` (dead end)"""
        for i, s in enumerate(stmts):
            self.k.nodes += 1
            if isinstance(s, ast.Raise):
                # reaching a raise is an obligation of its own: (label, path condition, must_hold=False)
                self.need("raise reachable: " + ast.unparse(s)[:60], z3.BoolVal(False))
                return True
            if isinstance(s, ast.Expr) and isinstance(s.value, ast.Constant):
                continue                                  # docstring
            if isinstance(s, ast.Pass):
                continue
            if isinstance(s, ast.Assign):
                v = self.expr(s.value)
                for t in s.targets:
                    self.assign(t, v)
                continue
            if isinstance(s, ast.AnnAssign):
                if s.value is None:
                    continue
                self.assign(s.target, self.expr(s.value))
                continue
            if isinstance(s, ast.AugAssign):
                if type(s.op) not in _BIN:
                    raise Unsupported("operator " + type(s.op).__name__)
                cur = self.expr(s.target)                 # Name / self.attr read
                v = self.expr(s.value)
                self.assign(s.target, self.m.binop(_BIN[type(s.op)], cur, v, self))
                continue
            if isinstance(s, ast.If):
                c = self.cond(s.test)
                if z3.is_true(c):
                    if self.block(s.body):
                        return True
                elif z3.is_false(c):
                    if self.block(s.orelse):
                        return True
                else:
                    s0 = self.snapshot()
                    self.path.append(c)
                    dead_t = self.block(s.body)
                    st = self.snapshot()
                    self.path.pop()
                    self.restore(s0)
                    self.path.append(z3.Not(c))
                    dead_e = self.block(s.orelse)
                    se = self.snapshot()
                    self.path.pop()
                    if dead_t and dead_e:
                        return True
                    if dead_t:                      # only the else side continues: its condition stays on the path
                        self.restore(se)
                        self.path.append(z3.Not(c))
                    elif dead_e:
                        self.restore(st)
                        self.path.append(c)
                    else:
                        self.merge(c, st, se)
                continue
            if isinstance(s, ast.While):
                if s.orelse:
                    raise Unsupported("while-else")
                npush = 0
                exits = []
                for _ in range(self.unroll):
                    c = self.cond(s.test)
                    if z3.is_false(c):
                        break
                    s0 = self.snapshot()
                    self.path.append(c)
                    npush += 1
                    self.block(s.body)
                    exits.append((c, s0))
                else:
                    c = self.cond(s.test)
                    self.need("unwinding assertion (loop bound %d)" % self.unroll, z3.Not(c))
                for _ in range(npush):
                    self.path.pop()
                # fold back: state = If(c_i, state_after_i.., state_before_i)
                cur = self.snapshot()
                for c, s0 in reversed(exits):
                    self.merge(c, cur, s0)
                    cur = self.snapshot()
                continue
            if isinstance(s, ast.Return):
                if not (top and i == len(stmts) - 1):
                    raise Unsupported("return that is not the last top-level statement")
                self.k.ret = None if s.value is None else self.expr(s.value)
                continue
            raise Unsupported("statement " + type(s).__name__)
        return False


def _walk_break(node):
    for n in ast.walk(node):
        if isinstance(n, (ast.Break, ast.Continue, ast.Try, ast.With, ast.For, ast.Yield,
                          ast.Await, ast.Lambda, ast.Global, ast.Nonlocal)):
            raise Unsupported("construct " + type(n).__name__)


def translate(fn, mode, fields, args, unroll=0):
    """fields: {attr: ('float'|'int', None) -> fresh symbolic input | Python number -> constant}
    args: {argname: same}.  Returns a Kernel."""
    src = textwrap.dedent(inspect.getsource(fn))
    tree = ast.parse(src)
    fd = tree.body[0]
    if not isinstance(fd, ast.FunctionDef) or len(tree.body) != 1:
        raise Unsupported("not a plain function")
    if fd.decorator_list:
        raise Unsupported("decorated function")
    a = fd.args
    if a.vararg or a.kwarg or a.kwonlyargs or a.posonlyargs:        # (defaults: every argument must be declared)
        raise Unsupported("signature")
    _walk_break(fd)
    names = [x.arg for x in a.args]

    def mk(name, spec):
        if isinstance(spec, tuple):
            v = mode.var(name, spec[0])
            return v, v.term
        return mode.const(spec), None

    fvals, avals, inputs = {}, {}, {}
    for k, spec in fields.items():
        v, var = mk("self." + k, spec)
        fvals[k] = v
        if var is not None:
            inputs["self." + k] = var
    selfname = None
    if names and names[0] == "self":
        selfname = names[0]
        names = names[1:]
    if sorted(names) != sorted(args):
        raise Unsupported("arguments %r do not match the declared %r" % (names, sorted(args)))
    for k, spec in args.items():
        v, var = mk(k, spec)
        avals[k] = v
        if var is not None:
            inputs[k] = var
    tr = _Tr(mode, fn, fvals, avals, unroll)
    tr.selfname = selfname
    tr.block(fd.body, top=True)
    k = tr.k
    k.inputs = inputs
    k.fields_out = tr.fields
    k.locals = tr.locals
    k.source = src
    k.source_sha = hashlib.sha1(src.encode()).hexdigest()[:12]
    k.mode = mode
    return k


# ------------------------------------------------------------------------------------------ helpers
def fp_to_float(x):
    """z3 FP numeral (Float64 or Float32) -> Python float (exact)."""
    bv = z3.simplify(z3.fpToIEEEBV(x))
    n = bv.as_long()
    if bv.size() == 64:
        return struct.unpack("<d", struct.pack("<Q", n))[0]
    if bv.size() == 32:
        return struct.unpack("<f", struct.pack("<I", n))[0]
    raise Unsupported("fp sort")


def eval_fp(kernel, term, values):
    """Evaluate an FP-mode term at concrete Python floats (dict input-name -> float, plus z3 var ->
    float for randoms).  Returns a Python float."""
    sort = kernel.mode.sort
    subs = []
    for name, val in values.items():
        var = kernel.inputs[name] if isinstance(name, str) else name
        subs.append((var, z3.FPVal(val, sort)))
    r = z3.simplify(z3.substitute(term, *subs))
    if not isinstance(r, z3.FPNumRef):
        raise Unsupported("encoding did not evaluate to a numeral: %s" % r)
    return fp_to_float(r)


def eval_real(kernel, term, values):
    """Evaluate a Real-mode term at exact rationals; floor witnesses are computed (not solved).
    Returns a Fraction."""
    def rv(fr):
        fr = Fraction(fr)
        return z3.RealVal(str(fr.numerator)) / z3.RealVal(str(fr.denominator))

    subs = []
    for name, val in values.items():
        var = kernel.inputs[name] if isinstance(name, str) else name
        subs.append((var, z3.IntVal(int(val)) if z3.is_int(var) else rv(val)))
    # witnesses in creation order (later ones may mention earlier ones)
    for k, x in kernel.witnesses:
        xv = z3.simplify(z3.substitute(x, *subs))
        if not z3.is_rational_value(xv):
            raise Unsupported("floor argument not a numeral: %s" % xv)
        fr = Fraction(xv.numerator_as_long(), xv.denominator_as_long())
        subs.append((k, z3.IntVal(math.floor(fr))))
    r = z3.simplify(z3.substitute(term, *subs))
    if z3.is_int_value(r):
        return Fraction(r.as_long())
    if not z3.is_rational_value(r):
        raise Unsupported("encoding did not evaluate to a numeral: %s" % r)
    return Fraction(r.numerator_as_long(), r.denominator_as_long())


def model_float(model, var):
    """value of an input in a model as a Python float / Fraction (None if absent)."""
    v = model.eval(var, model_completion=True)
    if isinstance(v, z3.FPNumRef):
        return fp_to_float(v)
    if z3.is_int_value(v):
        return Fraction(v.as_long())
    if z3.is_rational_value(v):
        return Fraction(v.numerator_as_long(), v.denominator_as_long())
    if z3.is_algebraic_value(v):
        a = v.approx(30)
        return Fraction(a.numerator_as_long(), a.denominator_as_long())
    return None
