#!/usr/bin/env python3
"""Run the registered check(s) against a seeded fault in a scratch worktree (never in /repo).

usage: tools/seeded.py <seeded-dir-name> [--tier quick] [--props C01,C06] [--jobs 16]
Reads /verif/seeded/<name>/patch.diff and meta.json (property), creates a scratch git worktree of
/repo HEAD under /tmp, applies the patch, runs `VERIF_REPO=<wt> ./check <prop>`, removes the worktree and
writes /verif/seeded/<name>/result.json {prop, tier, exit, violation_lines, wall_s}.
"""
import argparse, json, os, shutil, subprocess, sys, time

ap = argparse.ArgumentParser()
ap.add_argument("name")
ap.add_argument("--tier", default="quick")
ap.add_argument("--props", default=None)
ap.add_argument("--jobs", default="16")
a = ap.parse_args()
d = "/verif/seeded/" + a.name
meta = json.load(open(d + "/meta.json"))
props = a.props.split(",") if a.props else [meta["property"]]
wt = "/tmp/seedrun_%s_%d" % (a.name.replace("/", "_"), os.getpid())
subprocess.run(["git", "-C", "/repo", "worktree", "add", "--detach", wt, "HEAD"], check=True,
               capture_output=True)
try:
    # demo on the current (fixed) tree without the fault must pass, with it must fail
    demo0 = subprocess.run(["/venv/bin/python", d + "/demo.py"], cwd=wt, capture_output=True, timeout=300).returncode
    patch = d + "/patch_on_fixed.diff" if os.path.exists(d + "/patch_on_fixed.diff") else d + "/patch.diff"
    subprocess.run(["git", "-C", wt, "apply", patch], check=True)
    demo1 = subprocess.run(["/venv/bin/python", d + "/demo.py"], cwd=wt, capture_output=True, timeout=300).returncode
    print("demo exit without fault (current /repo HEAD):", demo0, " with fault:", demo1)
    so = "/repo/tornado/speedups.abi3.so"
    if os.path.exists(so):
        shutil.copy(so, wt + "/tornado/")
    results = []
    for prop in props:
        env = dict(os.environ, VERIF_REPO=wt, VERIF_EVIDENCE_DIR=wt + "/.verif_evidence",
                   VERIF_REPLAY_DIR=d + "/replays")
        t0 = time.time()
        p = subprocess.run(["/verif/check", prop, "--tier", a.tier, "--jobs", a.jobs], env=env,
                           capture_output=True, text=True)
        lines = [l for l in p.stdout.splitlines() if l.startswith(("VIOLATION", "  detail", "  input",
                                                                     "HARNESS-ERROR", "KNOWN-FINDING"))]
        results.append(dict(prop=prop, tier=a.tier, exit=p.returncode, lines=lines[:12],
                            wall_s=round(time.time() - t0, 1)))
        print(prop, "exit", p.returncode, *lines[:6], sep="\n  ")
    json.dump(dict(repo_head=subprocess.run(["git", "-C", "/repo", "rev-parse", "--short", "HEAD"], capture_output=True,
                                            text=True).stdout.strip(),
                   patch=os.path.basename(patch), demo_exit_without_fault=demo0, demo_exit_with_fault=demo1,
                   results=results, caught=any(r["exit"] == 1 for r in results)),
              open(d + "/result.json", "w"), indent=1)
finally:
    subprocess.run(["git", "-C", "/repo", "worktree", "remove", "--force", wt], capture_output=True)
    shutil.rmtree(wt, ignore_errors=True)
