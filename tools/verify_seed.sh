#!/bin/bash
# tools/verify_seed.sh <seedout dir> <ID> <tag>   -- lead's own confirmation of a seeded fault, in a scratch worktree
# checks: patch applies to HEAD; demo passes pristine; demo fails with patch; full existing suite passes with patch.
# on success copies patch.diff, demo.py, meta.json (+ verification) to /verif/seeded/<ID>-<tag>/
SRC=$1; ID=$2; TAG=$3
WT=/tmp/seedverify_${ID}_${TAG}_$$
OUT=/verif/seeded/${ID}-${TAG}
git -C /repo worktree add --detach $WT HEAD >/dev/null 2>&1 || { echo "worktree failed"; exit 2; }
cleanup(){ git -C /repo worktree remove --force $WT >/dev/null 2>&1; rm -rf $WT; }
trap cleanup EXIT
cd $WT
timeout 120 /venv/bin/python $SRC/$ID/demo.py >/tmp/sv_${ID}_${TAG}_pristine.log 2>&1; P=$?
git apply $SRC/$ID/patch.diff || { echo "$ID: patch does not apply"; exit 2; }
timeout 120 /venv/bin/python $SRC/$ID/demo.py >/tmp/sv_${ID}_${TAG}_patched.log 2>&1; Q=$?
/venv/bin/python -c "import tornado.web, tornado.websocket, tornado.httpserver, tornado.process" || { echo "$ID: import fails"; exit 2; }
timeout 2400 /venv/bin/python -m pytest -q -p no:cacheprovider --timeout=900 tornado/test > /tmp/sv_${ID}_${TAG}_suite.log 2>&1
S=$(tail -1 /tmp/sv_${ID}_${TAG}_suite.log)
# load-related flakes: re-run every failed test id on its own (up to 3 times); a test that passes alone is a flake
FAILED_IDS=$(grep -E "^(FAILED|ERROR) tornado/test" /tmp/sv_${ID}_${TAG}_suite.log | awk '{print $2}' | sort -u)
STILL=""
for t in $FAILED_IDS; do
  ok=0
  for k in 1 2 3; do
    if timeout 600 /venv/bin/python -m pytest -q -p no:cacheprovider --timeout=900 "$t" >/dev/null 2>&1; then ok=1; break; fi
  done
  [ $ok -eq 0 ] && STILL="$STILL $t"
done
S="$S | failed-in-full-run: $(echo $FAILED_IDS | tr '\n' ' ') | still-failing-when-rerun-alone:${STILL:- none}"
echo "$ID-$TAG pristine_demo_exit=$P patched_demo_exit=$Q suite: $S"
if [ $P -eq 0 ] && [ $Q -ne 0 ]; then
  mkdir -p $OUT
  cp $SRC/$ID/patch.diff $SRC/$ID/demo.py $OUT/
  python3 - "$SRC/$ID/meta.json" "$OUT/meta.json" "$P" "$Q" "$S" <<'PY'
import json,sys
m=json.load(open(sys.argv[1]))
m["lead_verification"]=dict(demo_exit_pristine=int(sys.argv[3]),demo_exit_with_patch=int(sys.argv[4]),suite_with_patch=sys.argv[5],
  commands=["git worktree add --detach <wt> HEAD","python demo.py (pristine)","git apply patch.diff","python demo.py (patched)","python -m pytest -q -p no:cacheprovider --timeout=900 tornado/test"])
json.dump(m,open(sys.argv[2],"w"),indent=1)
PY
fi
rm -f /tmp/sv_${ID}_${TAG}_*.log
