#!/usr/bin/env python3
"""Regenerates section 8 (build log) of DESIGN.md up to 8.6; tools/mkreport.py then appends 8.7 and 8.8."""
import json, glob
kf = json.load(open('/verif/known_findings.json'))
fixed = "\n".join("| %s | `%s` | %s |" % (l.split()[1].split('=')[1], l.split()[2], " ".join(l.split()[3:])) for l in kf['fixed'])
known = "\n".join("| %s | `%s` | %s | %s | %s |" % (f['property'], f['key'], f['harness'], f['what'][:300], f['why_not_fixed'][:300]) for f in kf['findings'])
# bounded-search list from evidence
bs = []
for f in sorted(glob.glob('/verif/evidence/C*.json')):
    e = json.load(open(f))
    for h in e['coverage'].get('harnesses', []):
        ss = h['shard_status']
        n = sum(1 for s in ss if s not in ('CONFIRMED', 'EMPTY'))
        if n:
            bs.append("%s `%s` %d/%d" % (e['property_id'], h['harness'], n, len([s for s in ss if s != 'EMPTY'])))
    for x in e['coverage'].get('extras', []):
        if x.get('status') != 'PROVED':
            bs.append("%s extra `%s` %s" % (e['property_id'], x.get('extra'), x.get('status')))
bounded = "; ".join(bs) if bs else "none"
text = open('/verif/tools/design8_template.md').read()
text = text.replace("@@FIXED@@", fixed).replace("@@KNOWN@@", known).replace("@@BOUNDED@@", bounded).replace("@@NFIX@@", str(len(kf['fixed'])))
s = open('/verif/DESIGN.md').read()
marker = "\n--------------------------------------------------------------------------------------------------\n\n## 8. Build log"
if marker in s:
    s = s[:s.index(marker)]
open('/verif/DESIGN.md', 'w').write(s.rstrip("\n") + "\n" + text)
print("section 8 regenerated; bounded:", bounded[:300])
