"""CrossHair worker: symbolically executes ONE harness shard and prints one JSON line.

usage: python -m vp.worker <prop> <harness> --tier T --shard i --nshards n [--reach tag]
                           [--exclude k1,k2] [--timeout s] [--seed n]
"""
import argparse
import base64
import collections
import importlib
import inspect
import json
import os
import pickle
import random
import sys
import time
import traceback
import typing


def _result(**kw):
    sys.stdout.write("@@RESULT " + json.dumps(kw) + "\n")
    sys.stdout.flush()


def main(argv=None):
    ap = argparse.ArgumentParser()
    ap.add_argument("prop")
    ap.add_argument("harness")
    ap.add_argument("--tier", default="quick")
    ap.add_argument("--shard", type=int, default=0)
    ap.add_argument("--nshards", type=int, default=1)
    ap.add_argument("--reach", default=None)
    ap.add_argument("--exclude", default="")
    ap.add_argument("--timeout", type=float, default=None)
    ap.add_argument("--seed", type=int, default=0)
    ap.add_argument("--verbose", action="store_true")
    a = ap.parse_args(argv)

    from vp import api

    api.setup_paths()
    random.seed(a.seed)
    t_wall = time.time()

    mod = importlib.import_module("harness." + a.prop)
    hs = api.harnesses_of(mod)
    if a.harness not in hs:
        _result(status="ERROR", message="no such harness %s in %s" % (a.harness, a.prop))
        return 3
    h = hs[a.harness]
    tp = h.tier_params(a.tier)
    api.P.configure(**tp)
    api.P.configure(
        tier=a.tier, shard=a.shard, nshards=a.nshards, reach=a.reach, seed=a.seed,
        exclude=frozenset(x for x in a.exclude.split(",") if x),
    )
    timeout = a.timeout if a.timeout is not None else (
        tp["reach_timeout"] if a.reach else tp["timeout"])

    # ---- solver accounting: every z3 check() issued by CrossHair is counted and timed
    import z3

    stats = {"checks": 0, "solver_s": 0.0, "unknown": 0}
    _orig_check = z3.Solver.check

    def counted_check(self, *args):
        t0 = time.perf_counter()
        r = _orig_check(self, *args)
        stats["solver_s"] += time.perf_counter() - t0
        stats["checks"] += 1
        if r == z3.unknown:
            stats["unknown"] += 1
        return r

    z3.Solver.check = counted_check

    import crosshair.core_and_libs  # noqa: F401  (registers library models)
    from crosshair.condition_parser import (
        POSTCONDITION, PRECONDITION, ConditionExpr, Conditions, condition_parser)
    from crosshair.core import analyze_calltree
    from crosshair.options import DEFAULT_OPTIONS, AnalysisKind
    from crosshair.statespace import VerificationStatus
    from crosshair.util import set_debug

    if a.verbose:
        set_debug(True)

    fn = h.fn
    sig = inspect.signature(fn)
    hints = typing.get_type_hints(fn)
    sig = sig.replace(parameters=[
        p.replace(annotation=hints.get(n, p.annotation)) for n, p in sig.parameters.items()])
    names = list(sig.parameters)
    fname = inspect.getsourcefile(fn) or "<harness>"
    line = fn.__code__.co_firstlineno

    def pre_eval(lcls):
        return h.pre(**{n: lcls[n] for n in names})

    captured = []

    def describe(args, retval, reprs):
        # args are deep-realized concrete values here
        d = dict(args.arguments)
        try:
            blob = base64.b64encode(pickle.dumps(d)).decode()
        except Exception as e:  # pragma: no cover
            blob = None
        captured.append({"repr": repr(d), "pickle": blob})
        return ("%s(%s)" % (fn.__name__, ", ".join("%s=%r" % kv for kv in d.items())),
                repr(retval))

    conditions = Conditions(
        fn, fn,
        [ConditionExpr(PRECONDITION, pre_eval, fname, line, "pre")],
        [ConditionExpr(POSTCONDITION, lambda lcls: True, fname, line, "asserts in body")],
        raises=frozenset(h.raises),
        sig=sig,
        mutable_args=None,
        fn_syntax_messages=[],
        counterexample_description_maker=describe,
    )
    options = DEFAULT_OPTIONS.overlay(
        per_condition_timeout=float(timeout),
        max_iterations=10 ** 9,
        max_uninteresting_iterations=10 ** 9,
        analysis_kind=[AnalysisKind.asserts],
        report_all=True,
    )
    if tp.get("per_path_timeout"):
        options = options.overlay(per_path_timeout=float(tp["per_path_timeout"]))
    options.stats = collections.Counter()
    options.deadline = time.process_time() + float(timeout)

    # Watchdog against non-termination INSIDE one path (CrossHair checks its budgets only at symbolic
    # operations, so a concrete infinite loop in the code under test would never return): a virtual-time
    # (CPU) interval timer raises HarnessHang inside the running harness once the shard is far beyond its
    # budget. It is an ordinary Exception, so CrossHair reports the path's inputs as a counterexample, and
    # the plain replay (which has its own CPU alarm) decides whether the hang reproduces.
    import signal
    from vp.api import HarnessHang

    def _hang(signum, frame):
        raise HarnessHang("no progress: one execution path did not terminate within the CPU budget")

    signal.signal(signal.SIGVTALRM, _hang)
    signal.setitimer(signal.ITIMER_VIRTUAL, float(timeout) * 1.5 + 60, 5.0)

    try:
        with condition_parser(options.analysis_kind):
            analysis = analyze_calltree(options, conditions)
    except BaseException as e:  # engine failure
        _result(status="ERROR", message="engine: %r" % (e,), tb=traceback.format_exc(),
                wall_s=time.time() - t_wall)
        return 3

    signal.setitimer(signal.ITIMER_VIRTUAL, 0)
    st = analysis.verification_status
    msgs = [dict(type=m.state.name, message=m.message, line=m.line,
                 tb=(m.traceback or "")[-1500:]) for m in analysis.messages]
    status = {VerificationStatus.CONFIRMED: "CONFIRMED",
              VerificationStatus.REFUTED: "REFUTED",
              VerificationStatus.UNKNOWN: "UNKNOWN"}[st]
    if any(m["type"] == "PRE_UNSAT" for m in msgs):
        status = "PRE_UNSAT"
    out = dict(
        status=status,
        paths=int(options.stats.get("num_paths", 0)),
        confirmed_paths=int(analysis.num_confirmed_paths),
        solver_checks=stats["checks"], solver_s=round(stats["solver_s"], 3),
        solver_unknown=stats["unknown"],
        messages=msgs,
        cpu_s=round(time.process_time(), 2),
        wall_s=round(time.time() - t_wall, 2),
        params={k: v for k, v in api.P.asdict().items() if k != "exclude"},
    )
    if status == "REFUTED" and captured:
        out["counterexample"] = captured[-1]
    _result(**out)
    return 0


if __name__ == "__main__":
    sys.exit(main())
