"""FakeStream: the IOStream *interface* over an in-memory byte string (ENVIRONMENT STUB).

It implements exactly the read contracts that property C11 establishes for the real
BaseIOStream (results are a function of the byte stream and the request, not of the arrival
pattern; partial reads return 1..n bytes), so protocol harnesses (HTTP/1.x, WebSocket) do
not re-explore TCP segmentation.  Segmentation that IS observable through the interface
(`read_bytes(partial=True)` sizes) is controlled by `seg` (max bytes per partial read; may
be symbolic) .

    s = FakeStream(env.loop, incoming=b"GET / HTTP/1.1\\r\\n\\r\\n", eof=True, seg=3)
    s.feed(b"more")      # later arrival
    s.peer_close()       # EOF / reset (exc optional)
    s.written            # list of bytes objects passed to write(), in order
"""
import re

from tornado.concurrent import Future
from tornado.iostream import StreamClosedError, UnsatisfiableReadError


class FakeStream:
    def __init__(self, io_loop, incoming=b"", eof=False, seg=None, max_buffer_size=104857600,
                 slow_writes=False):
        self.io_loop = io_loop
        self.buf = bytes(incoming)
        self.eof = eof                 # peer closes after `incoming` is consumed
        self.seg = seg
        self.max_buffer_size = max_buffer_size
        self.written = []
        self.error = None
        self.socket = None
        self._closed = False
        self._close_callback = None
        self._pending = None           # (kind, args, future)
        self._close_cb_runs = 0
        self.nodelay = None
        self.read_log = []             # results handed to the protocol code, in order
        self.write_after_close = 0
        # slow consumer: write() returns a PENDING future (bytes are recorded at once, as the real
        # IOStream buffers them) until flush_writes() is called - models a peer that is not reading
        self.slow_writes = slow_writes
        self._write_futs = []

    # ------------------------------------------------------------------ reads
    def _try(self, kind, args):
        """Returns (done, value_or_exc)."""
        buf = self.buf
        if kind == "regex" or kind == "until":
            pat, max_bytes = args
            if kind == "regex":
                m = re.compile(pat).search(buf)
                end = m.end() if m else None
            else:
                i = buf.find(pat)
                end = i + len(pat) if i >= 0 else None
            if end is not None:
                if max_bytes is not None and end > max_bytes:
                    return True, UnsatisfiableReadError("delimiter %r not found within %d bytes" % (pat, max_bytes))
                self.buf = buf[end:]
                return True, buf[:end]
            if max_bytes is not None and len(buf) >= max_bytes:
                return True, UnsatisfiableReadError("delimiter %r not found within %d bytes" % (pat, max_bytes))
            return False, None
        if kind == "bytes":
            n, partial = args
            if partial:
                if len(buf) > 0 or n == 0:
                    k = min(n, len(buf))
                    if self.seg is not None and k > self.seg:
                        k = self.seg
                    self.buf = buf[k:]
                    return True, buf[:k]
                return False, None
            if len(buf) >= n:
                self.buf = buf[n:]
                return True, buf[:n]
            return False, None
        if kind == "close":
            if self._closed or (self.eof):
                self.buf = b""
                return True, buf
            return False, None
        raise AssertionError(kind)

    def _start(self, kind, args):
        assert self._pending is None, "Already reading"
        fut = Future()
        if self._closed and not (kind == "close" or self.buf):
            raise StreamClosedError(real_error=self.error)
        done, val = self._try(kind, args)
        if done:
            if isinstance(val, Exception):
                self.close(exc=val)
                fut.set_exception(StreamClosedError(real_error=val)
                                  if not isinstance(val, UnsatisfiableReadError) else val)
                fut.exception()
            else:
                self.read_log.append(val)
                fut.set_result(val)
                if kind == "close" and not self._closed:
                    self.close()
            return fut
        if self.eof or self._closed:
            # no more data will ever arrive
            self.close()
            fut.set_exception(StreamClosedError(real_error=self.error))
            fut.exception()
            return fut
        self._pending = (kind, args, fut)
        return fut

    def read_until_regex(self, regex, max_bytes=None):
        return self._start("regex", (regex, max_bytes))

    def read_until(self, delimiter, max_bytes=None):
        return self._start("until", (delimiter, max_bytes))

    def read_bytes(self, num_bytes, partial=False):
        return self._start("bytes", (num_bytes, partial))

    def read_until_close(self):
        return self._start("close", ())

    def reading(self):
        return self._pending is not None

    def writing(self):
        return bool(self._write_futs)

    # ------------------------------------------------------------------ arrival of data / EOF
    def feed(self, data):
        assert not self.eof and not self._closed
        self.buf += data
        self._retry()

    def _retry(self):
        if self._pending is None:
            return
        kind, args, fut = self._pending
        done, val = self._try(kind, args)
        if done:
            self._pending = None
            if isinstance(val, Exception):
                self.close(exc=val)
                if not fut.done():
                    fut.set_exception(val)
                    fut.exception()
            else:
                self.read_log.append(val)
                if not fut.done():
                    fut.set_result(val)

    def peer_close(self, exc=None):
        """EOF (exc None) or connection error from the peer."""
        self.eof = True
        if self._pending is not None:
            kind, args, fut = self._pending
            if kind == "close":
                self._retry()
                if not self._closed:
                    self.close(exc=exc)
                return
        self.close(exc=exc)

    # ------------------------------------------------------------------ writes
    def write(self, data):
        if self._closed:
            self.write_after_close += 1
            raise StreamClosedError(real_error=self.error)
        if isinstance(data, memoryview):
            data = bytes(data)
        assert isinstance(data, (bytes, bytearray)), "write() needs bytes, got %r" % type(data)
        self.written.append(bytes(data))
        fut = Future()
        if self.slow_writes:
            self._write_futs.append(fut)
        else:
            fut.set_result(None)
        return fut

    def flush_writes(self):
        """The peer drained its socket: every pending write future resolves, in order."""
        futs, self._write_futs = self._write_futs, []
        for f in futs:
            if not f.done():
                f.set_result(None)

    def wire(self):
        return b"".join(self.written)

    # ------------------------------------------------------------------ close
    def set_close_callback(self, callback):
        self._close_callback = callback
        if self._closed and callback is not None:
            self._run_close_cb()

    def _run_close_cb(self):
        cb = self._close_callback
        if cb is not None:
            self._close_callback = None
            self._close_cb_runs += 1
            self.io_loop.add_callback(cb)

    def close(self, exc_info=False, exc=None):
        if self._closed:
            return
        if exc is not None:
            self.error = exc
        elif exc_info:
            import sys
            if isinstance(exc_info, BaseException):
                self.error = exc_info
            elif isinstance(exc_info, tuple):
                self.error = exc_info[1]
            else:
                self.error = sys.exc_info()[1]
        self._closed = True
        futs, self._write_futs = self._write_futs, []
        for f in futs:
            if not f.done():
                f.set_exception(StreamClosedError(real_error=self.error))
                f.exception()
        if self._pending is not None:
            kind, args, fut = self._pending
            self._pending = None
            if kind == "close":
                data, self.buf = self.buf, b""
                if not fut.done():
                    self.read_log.append(data)
                    fut.set_result(data)
            elif not fut.done():
                fut.set_exception(StreamClosedError(real_error=self.error))
                fut.exception()
        self._run_close_cb()

    def closed(self):
        return self._closed

    def set_nodelay(self, value):
        self.nodelay = value
