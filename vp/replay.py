"""Plain-interpreter replay of a harness call (CrossHair is NOT loaded here).

usage: python -m vp.replay <replay.json>
The file holds: prop, harness, params (the P dict used by the worker), args_pickle (b64).
Prints one line '@@REPLAY {json}' with outcome in
  ok          body returned normally (property held on this input)
  reached     the reach tag was hit (vacuity witness)
  violation   AssertionError / unexpected exception in the body  -> reproduces
  pre_false   the precondition is false for these arguments
"""
import base64
import importlib
import json
import os
import pickle
import sys
import traceback


def run(spec, profile=True):
    from vp import api

    api.setup_paths()
    assert "crosshair" not in sys.modules
    mod = importlib.import_module("harness." + spec["prop"])
    h = api.harnesses_of(mod)[spec["harness"]]
    params = dict(spec.get("params") or {})
    params["exclude"] = frozenset(spec.get("exclude") or ())
    api.P.configure(**h.tier_params(params.get("tier", "quick")))
    api.P.configure(**params)
    args = pickle.loads(base64.b64decode(spec["args_pickle"]))
    funcs = set()
    repo = api.REPO.rstrip("/") + "/tornado"

    def prof(frame, event, arg):
        if event == "call":
            co = frame.f_code
            if co.co_filename.startswith(repo):
                funcs.add(co.co_filename[len(repo) + 1:-3].replace("/", ".") + ":" +
                          getattr(co, "co_qualname", co.co_name))

    out = {"args": repr(args)}
    try:
        ok = h.pre(**args)
    except Exception as e:
        ok = False
        out["pre_exc"] = repr(e)
    if not ok:
        out["outcome"] = "pre_false"
        return out
    if profile:
        sys.setprofile(prof)
    import signal

    def _hang(signum, frame):
        raise api.HarnessHang("the harness did not terminate within 120 CPU-seconds on this concrete input")

    signal.signal(signal.SIGVTALRM, _hang)
    signal.setitimer(signal.ITIMER_VIRTUAL, 120.0, 5.0)
    try:
        h.fn(**args)
        out["outcome"] = "ok"
    except api.Reached as e:
        out["outcome"] = "reached"
        out["detail"] = str(e)
    except Exception as e:
        out["outcome"] = "violation"
        out["detail"] = "%s: %s" % (type(e).__name__, e)
        out["tb"] = traceback.format_exc()[-3000:]
    finally:
        signal.setitimer(signal.ITIMER_VIRTUAL, 0)
        sys.setprofile(None)
    out["functions"] = sorted(funcs)
    if h.classify is not None and out["outcome"] == "violation":
        try:
            out["finding_key"] = h.classify(**args)
        except Exception as e:
            out["finding_key"] = None
    return out


def main(argv=None):
    argv = argv if argv is not None else sys.argv[1:]
    spec = json.load(open(argv[0]))
    out = run(spec)
    sys.stdout.write("@@REPLAY " + json.dumps(out) + "\n")
    return 0


if __name__ == "__main__":
    sys.exit(main())
