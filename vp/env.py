"""Virtual environment for driving the real tornado code without a selector, sockets or
wall-clock time.  Everything here is an ENVIRONMENT STUB and therefore part of each claim
that uses it (harnesses list them under `stubs`).

VEnv      one callback queue + one timer list + one virtual clock (may hold symbolic values)
FakeAio   asyncio.AbstractEventLoop view of the VEnv (call_soon/call_later/call_at/time/
          create_future/create_task).  Installed as the current *and running* asyncio loop so
          tornado's Future() (= asyncio.Future) and asyncio.Task work.
VLoop     tornado.ioloop.IOLoop subclass: the REAL IOLoop.add_timeout / call_later / add_future /
          spawn_callback / _run_callback code runs; only call_at / remove_timeout / add_callback /
          time / handlers are provided by the stub (contract: timers never before their deadline,
          fired in (deadline, insertion) order; callbacks FIFO).
install() patches IOLoop.current and the asyncio current/running loop; uninstall() restores.
"""
import asyncio
import collections
import contextvars
import inspect

from tornado import ioloop as _ioloop


class _Handle:
    __slots__ = ("cb", "args", "cancelled", "when", "seq", "context")

    def __init__(self, cb, args, when=None, seq=0, context=None):
        self.cb, self.args, self.cancelled, self.when, self.seq = cb, args, False, when, seq
        self.context = context

    def cancel(self):
        self.cancelled = True

    def cancelled_(self):
        return self.cancelled


async def _engine_guard(coro, venv):
    """asyncio.Task stores ANY BaseException raised by its coroutine.  The symbolic-execution engine steers
    with BaseException subclasses (path timeout, ignore-attempt, ...); swallowed by a Task they would surface
    later as a bogus "task raised PathTimeout" counterexample.  The guard remembers such an exception and
    VEnv._call re-raises it outside the Task, so the engine sees its own control flow.  Ordinary exceptions,
    CancelledError and GeneratorExit pass through untouched."""
    try:
        return await coro
    except BaseException as e:
        if not isinstance(e, (Exception, asyncio.CancelledError, GeneratorExit, KeyboardInterrupt, SystemExit)):
            venv.engine_exc = e
        raise


class VEnv:
    def __init__(self, start=1000):
        self.engine_exc = None
        self.now = start
        self.ready = collections.deque()
        self.timers = []
        self.seq = 0
        self.exc_contexts = []
        self.max_steps = 10000

    # -- scheduling primitives
    def soon(self, cb, args, context=None):
        h = _Handle(cb, args, context=context)
        self.ready.append(h)
        return h

    def at(self, when, cb, args, context=None):
        if type(when) is float and when.is_integer():
            when = int(when)   # keep the virtual clock integral (no IEEE-FP solver queries)
        self.seq += 1
        h = _Handle(cb, args, when=when, seq=self.seq, context=context)
        self.timers.append(h)
        return h

    def _call(self, h):
        try:
            if h.context is not None:
                h.context.run(h.cb, *h.args)
            else:
                h.cb(*h.args)
        except Exception as e:  # asyncio logs and continues; record for oracles
            self.exc_contexts.append({"message": "exception in callback", "exception": e})
        if self.engine_exc is not None:
            e, self.engine_exc = self.engine_exc, None
            raise e

    def run_ready(self):
        """Drain the callback queue (including callbacks scheduled while draining)."""
        n = 0
        while self.ready:
            h = self.ready.popleft()
            if not h.cancelled:
                self._call(h)
            n += 1
            if n > self.max_steps:
                raise RuntimeError("VEnv.run_ready: livelock")

    def _next_timer(self, limit):
        best = None
        for h in self.timers:
            if h.cancelled:
                continue
            if h.when <= limit:
                if best is None or (h.when, h.seq) < (best.when, best.seq):
                    best = h
        return best

    def advance(self, dt):
        """Advance the virtual clock by dt, firing due timers in (deadline, seq) order."""
        target = self.now + dt
        self.run_ready()
        while True:
            self.timers = [h for h in self.timers if not h.cancelled]
            h = self._next_timer(target)
            if h is None:
                break
            self.timers.remove(h)
            if h.when > self.now:
                self.now = h.when
            self._call(h)
            self.run_ready()
        self.now = target
        self.run_ready()

    def pending_timers(self):
        return [h for h in self.timers if not h.cancelled]


class FakeAio(asyncio.AbstractEventLoop):
    def __init__(self, venv):
        self.v = venv
        self._debug = False

    def time(self):
        return self.v.now

    def call_soon(self, callback, *args, context=None):
        return self.v.soon(callback, args, context)

    call_soon_threadsafe = call_soon

    def call_later(self, delay, callback, *args, context=None):
        return self.v.at(self.v.now + delay, callback, args, context)

    def call_at(self, when, callback, *args, context=None):
        return self.v.at(when, callback, args, context)

    def create_future(self):
        return asyncio.Future(loop=self)

    def create_task(self, coro, *, name=None, context=None):
        if inspect.iscoroutine(coro):
            coro = _engine_guard(coro, self.v)
        if context is not None:
            return asyncio.Task(coro, loop=self, name=name, context=context)
        return asyncio.Task(coro, loop=self, name=name)

    def get_debug(self):
        return False

    def set_debug(self, enabled):
        pass

    def is_running(self):
        return True

    def is_closed(self):
        return False

    def call_exception_handler(self, context):
        self.v.exc_contexts.append(context)

    def default_exception_handler(self, context):
        self.v.exc_contexts.append(context)

    def get_exception_handler(self):
        return None

    def add_reader(self, fd, cb, *a):
        self.v.__dict__.setdefault("readers", {})[fd] = (cb, a)

    def remove_reader(self, fd):
        return self.v.__dict__.setdefault("readers", {}).pop(fd, None) is not None

    def add_writer(self, fd, cb, *a):
        self.v.__dict__.setdefault("writers", {})[fd] = (cb, a)

    def remove_writer(self, fd):
        return self.v.__dict__.setdefault("writers", {}).pop(fd, None) is not None

    def run_in_executor(self, executor, func, *args):
        f = self.create_future()
        try:
            f.set_result(func(*args))
        except Exception as e:
            f.set_exception(e)
        return f

    def get_task_factory(self):
        return None


class VLoop(_ioloop.IOLoop):
    """tornado IOLoop over the virtual environment (see module docstring)."""

    def initialize(self, venv=None, aio=None, **kw):  # type: ignore[override]
        self.v = venv
        self.asyncio_loop = aio
        self.handlers = {}
        self.handler_log = []

    def time(self):
        return self.v.now

    def call_at(self, when, callback, *args, **kwargs):
        import functools
        return self.v.at(when, self._run_callback, (functools.partial(callback, *args, **kwargs),))

    def remove_timeout(self, timeout):
        timeout.cancel()

    def add_callback(self, callback, *args, **kwargs):
        import functools
        self.v.soon(self._run_callback, (functools.partial(callback, *args, **kwargs),),
                    contextvars.copy_context())

    add_callback_from_signal = add_callback

    def add_handler(self, fd, handler, events):
        self.handlers[fd] = (handler, events)
        self.handler_log.append(("add", fd, events))

    def update_handler(self, fd, events):
        h = self.handlers[fd][0]
        self.handlers[fd] = (h, events)
        self.handler_log.append(("update", fd, events))

    def remove_handler(self, fd):
        self.handlers.pop(fd, None)
        self.handler_log.append(("remove", fd))

    def close_fd(self, fd):
        try:
            fd.close()
        except Exception:
            pass

    def start(self):
        raise RuntimeError("VLoop.start not supported")

    def stop(self):
        pass

    def close(self, all_fds=False):
        pass

    def _make_current(self):
        pass


class Installed:
    def __init__(self, start=1000):
        self.v = VEnv(start)
        self.aio = FakeAio(self.v)
        self.loop = VLoop(venv=self.v, aio=self.aio)
        self._saved = None

    def __enter__(self):
        self._saved = (_ioloop.IOLoop.current, )
        loop = self.loop
        _ioloop.IOLoop.current = staticmethod(lambda instance=True: loop)
        asyncio._set_running_loop(self.aio)
        try:
            asyncio.set_event_loop(self.aio)
        except Exception:
            pass
        return self

    def __exit__(self, *exc):
        _ioloop.IOLoop.current = self._saved[0]
        asyncio._set_running_loop(None)
        try:
            asyncio.set_event_loop(None)
        except Exception:
            pass
        return False

    # conveniences
    def run_ready(self):
        self.v.run_ready()

    def advance(self, dt):
        self.v.advance(dt)

    def spawn(self, coro):
        """Start a native coroutine / awaitable as a real asyncio.Task on the fake loop."""
        t = asyncio.ensure_future(coro, loop=self.aio)
        self.v.run_ready()
        return t


def install(start=1000):
    return Installed(start)


def outcome(fut):
    """('pending',) | ('result', v) | ('exc', type_name) | ('cancelled',)"""
    if not fut.done():
        return ("pending",)
    if fut.cancelled():
        return ("cancelled",)
    e = fut.exception()
    if e is not None:
        return ("exc", type(e).__name__)
    return ("result", fut.result())
