"""Runs one non-CrossHair obligation set (Engine B/C/D: direct z3 queries generated from the
current /repo source) in its own process and prints one '@@RESULT {json}' line.

A harness module registers them as   EXTRAS = {"name": dict(fn=callable, wall=seconds)}
fn(tier, seed) returns a dict with: status in PROVED (every obligation unsat/discharged),
BOUNDED (searched, nothing found, not all discharged), VIOLATION (with `violations`: list of
dict(detail, input, finding_key?) - already replayed on the real code), ERROR;
obligations, discharged, queries, solver_s, samples, trusted_base, assumptions.
"""
import argparse
import importlib
import json
import sys
import time
import traceback


def main(argv=None):
    ap = argparse.ArgumentParser()
    ap.add_argument("prop")
    ap.add_argument("name")
    ap.add_argument("--tier", default="quick")
    ap.add_argument("--seed", type=int, default=0)
    a = ap.parse_args(argv)
    from vp import api
    api.setup_paths()
    api.P.configure(tier=a.tier, seed=a.seed)
    t0 = time.time()
    try:
        mod = importlib.import_module("harness." + a.prop)
        fn = mod.EXTRAS[a.name]["fn"]
        r = fn(a.tier, a.seed)
        r.setdefault("status", "ERROR")
    except BaseException as e:
        r = dict(status="ERROR", message=repr(e), stderr=traceback.format_exc()[-3000:])
    r["wall_s"] = round(time.time() - t0, 2)
    sys.stdout.write("@@RESULT " + json.dumps(r, default=str) + "\n")
    return 0


if __name__ == "__main__":
    sys.exit(main())
