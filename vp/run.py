"""Orchestrator:  ./check Cxx [--tier quick|thorough] [--replay file] [--only harness] [--jobs n]

Exit 0  nothing violated in what was explored (evidence says confirmed vs searched)
Exit 1  a REPLAYED violation that known_findings.json does not list; prints
        VIOLATION property=<id> replay=<path>
Exit 3  harness / engine error or vacuity (never a VIOLATION line)
"""
import argparse
import base64
import concurrent.futures as cf
import hashlib
import importlib
import json
import os
import subprocess
import sys
import time

VERIF = "/verif"
PY = VERIF + "/.venv/bin/python"
# seeded-fault / mutant self-tests divert their outputs so the registered evidence is never
# overwritten by a run against a scratch copy (VERIF_REPO != /repo)
EVID = os.environ.get("VERIF_EVIDENCE_DIR", VERIF + "/evidence")
REPL = os.environ.get("VERIF_REPLAY_DIR", VERIF + "/replays")


def _env():
    e = dict(os.environ)
    e["PYTHONPATH"] = VERIF
    e["PYTHONHASHSEED"] = "0"
    e.setdefault("TORNADO_VERIF", "1")
    e["PYTHONDONTWRITEBYTECODE"] = "1"
    return e


def _run_json(cmd, tag, wall):
    t0 = time.time()
    try:
        p = subprocess.run(cmd, capture_output=True, text=True, timeout=wall, env=_env(),
                           cwd=VERIF)
        out, err, rc = p.stdout, p.stderr, p.returncode
    except subprocess.TimeoutExpired as e:
        out = e.stdout.decode() if isinstance(e.stdout, bytes) else (e.stdout or "")
        err = e.stderr.decode() if isinstance(e.stderr, bytes) else (e.stderr or "")
        rc = -9
    for ln in out.splitlines():
        if ln.startswith(tag + " "):
            try:
                return json.loads(ln[len(tag) + 1:])
            except Exception:
                pass
    return {"status": "ERROR", "outcome": "error", "rc": rc,
            "message": "no result line (rc=%s, %.0fs)" % (rc, time.time() - t0),
            "stderr": err[-3000:], "stdout": out[-1500:]}


def load_known():
    path = os.path.join(VERIF, "known_findings.json")
    if not os.path.exists(path):
        return {"findings": [], "fixed": []}
    return json.load(open(path))


class Runner:
    def __init__(self, prop, tier, seed, jobs, only=None, verbose=False):
        self.prop, self.tier, self.seed, self.jobs, self.only = prop, tier, seed, jobs, only
        self.verbose = verbose
        self.t0 = time.time()
        sys.path.insert(0, VERIF)
        from vp import api
        api.setup_paths()
        self.api = api
        self.mod = importlib.import_module("harness." + prop)
        self.hs = api.harnesses_of(self.mod)
        if only:
            self.hs = {k: v for k, v in self.hs.items() if k in only}
        self.extras = dict(getattr(self.mod, "EXTRAS", {}))
        if only:
            self.extras = {k: v for k, v in self.extras.items() if k in only}
        self.known = [f for f in load_known()["findings"] if f["property"] == prop]
        self.violations = []
        self.known_printed = []
        self.errors = []
        self.log = []
        os.makedirs(REPL, exist_ok=True)
        os.makedirs(EVID, exist_ok=True)

    # ------------------------------------------------------------------ jobs
    def worker_cmd(self, h, shard, nshards, reach=None, exclude=()):
        cmd = [PY, "-m", "vp.worker", self.prop, h.name, "--tier", self.tier,
               "--shard", str(shard), "--nshards", str(nshards), "--seed", str(self.seed)]
        if reach:
            cmd += ["--reach", reach]
        if exclude:
            cmd += ["--exclude", ",".join(sorted(exclude))]
        return cmd

    def budget_scale(self):
        """Global CPU cap per tier: if the declared worst case (sum of shards x per-shard CPU budget) of this
        property exceeds the cap, every per-shard budget is scaled down proportionally (the scaled value is
        what the evidence reports). Confirmed shards stop early, so typical cost is far below the cap."""
        if getattr(self, "_scale", None) is None:
            cap = float(os.environ.get("VERIF_CPU_CAP_" + self.tier.upper(),
                                       "0" if self.tier == "quick" else "9600"))
            total = sum(h.nshards.get(self.tier, 1) * h.tier_params(self.tier)["timeout"]
                        for h in self.hs.values())
            self._scale = min(1.0, cap / total) if cap > 0 and total > 0 else 1.0
        return self._scale

    def run_worker(self, h, shard, nshards, reach=None, exclude=()):
        tp = h.tier_params(self.tier)
        budget = tp["reach_timeout"] if reach else max(20.0, tp["timeout"] * self.budget_scale())
        cmd = self.worker_cmd(h, shard, nshards, reach, exclude) + ["--timeout", "%.0f" % budget]
        r = _run_json(cmd, "@@RESULT", budget * 12.0 + 600)
        r.update(harness=h.name, shard=shard, nshards=nshards, reach=reach,
                 exclude=sorted(exclude))
        return r

    def write_replay(self, h, r, exclude=(), tag=""):
        ce = r["counterexample"]
        spec = dict(prop=self.prop, harness=h.name, params=r.get("params", {}),
                    exclude=sorted(exclude), args_pickle=ce["pickle"], args_repr=ce["repr"],
                    message=(r.get("messages") or [{}])[0].get("message", ""))
        sha = hashlib.sha1((h.name + ce["repr"] + tag + str(r.get("shard"))).encode()).hexdigest()[:10]
        path = "%s/%s-%s-%s.json" % (REPL, self.prop, h.name, sha)
        json.dump(spec, open(path, "w"), indent=1)
        return path

    def replay(self, path):
        return _run_json([PY, "-m", "vp.replay", path], "@@REPLAY", 300)

    # ------------------------------------------------------------------ per-harness logic
    def do_reach(self, h, tag):
        r = self.run_worker(h, 0, 1, reach=tag)
        res = dict(harness=h.name, tag=tag, status=r.get("status"), paths=r.get("paths", 0),
                   solver_checks=r.get("solver_checks", 0), solver_s=r.get("solver_s", 0.0),
                   wall_s=r.get("wall_s"))
        msg = (r.get("messages") or [{}])[0].get("message", "")
        if r.get("status") == "REFUTED" and "counterexample" in r:
            path = self.write_replay(h, r, tag="reach-" + tag)
            rp = self.replay(path)
            res.update(replay=rp.get("outcome"), witness=r["counterexample"]["repr"],
                       functions=rp.get("functions", []), detail=rp.get("detail"))
            if rp.get("outcome") == "reached":
                res["ok"] = True
                try:
                    os.remove(path)
                except OSError:
                    pass
                return res
            if rp.get("outcome") == "violation" and "REACHED" not in msg:
                # the twin ran into a real violation before the reach point
                res["ok"] = True
                res["note"] = "twin hit a violation first; main run decides"
                return res
        res["ok"] = False
        res["message"] = msg or r.get("message")
        res["stderr"] = r.get("stderr", "")[-800:]
        return res

    def do_shard(self, h, shard, nshards):
        """Run one shard; replay counterexamples; loop past known findings."""
        exclude = set(self.preexcluded.get(h.name, ()))
        agg = dict(harness=h.name, shard=shard, nshards=nshards, paths=0, confirmed_paths=0,
                   solver_checks=0, solver_s=0.0, cpu_s=0.0, status=None, notes=[])
        for _round in range(6):
            r = self.run_worker(h, shard, nshards, exclude=exclude)
            for k in ("paths", "confirmed_paths", "solver_checks"):
                agg[k] += int(r.get(k, 0) or 0)
            agg["solver_s"] += float(r.get("solver_s", 0) or 0)
            agg["cpu_s"] += float(r.get("cpu_s", 0) or 0)
            st = r.get("status")
            if st in ("CONFIRMED", "UNKNOWN"):
                agg["status"] = st
                return agg
            if st == "PRE_UNSAT":
                # an empty shard is fine when other shards are inhabited; decided by caller
                agg["status"] = "EMPTY"
                return agg
            if st == "REFUTED" and "counterexample" in r and r["counterexample"].get("pickle"):
                path = self.write_replay(h, r, exclude)
                rp = self.replay(path)
                oc = rp.get("outcome")
                if oc == "violation":
                    key = rp.get("finding_key")
                    kf = [f for f in self.known if f.get("key") == key and key]
                    if kf and key not in exclude:
                        self.note_known(kf[0])
                        exclude.add(key)
                        agg["notes"].append("known finding %s re-found; excluded, searching on" % key)
                        continue
                    agg["status"] = "VIOLATION"
                    agg["violation"] = dict(replay=path, detail=rp.get("detail"),
                                            args=r["counterexample"]["repr"], finding_key=key)
                    return agg
                agg["status"] = "ARTEFACT"
                agg["notes"].append("counterexample did not reproduce in a plain interpreter "
                                    "(outcome=%s): %s :: %s" % (
                                        oc, r["counterexample"]["repr"][:300],
                                        (r.get("messages") or [{}])[0].get("message", "")[:300]))
                return agg
            agg["status"] = "ERROR"
            agg["notes"].append(json.dumps(r)[:2500])
            return agg
        agg["status"] = "ERROR"
        agg["notes"].append("too many known-finding rounds")
        return agg

    def note_known(self, f):
        if f["key"] not in self.known_printed:
            self.known_printed.append(f["key"])
            print("KNOWN-FINDING: property=%s %s" % (self.prop, f["what"]), flush=True)

    def check_known_witnesses(self):
        """Replay each recorded known finding's stored witness; still failing -> KNOWN-FINDING
        line and its shape is excluded from the search so other violations are still found."""
        self.preexcluded = {}
        for f in self.known:
            if f.get("status", "known") != "known":
                continue
            h = self.hs.get(f.get("harness"))
            if h is None:
                if f.get("extra"):
                    continue
                continue
            spec = dict(prop=self.prop, harness=h.name,
                        params=dict(f.get("params") or {}, tier=self.tier),
                        args_pickle=f["args_pickle"])
            path = "%s/%s-known-%s.json" % (REPL, self.prop, f["key"])
            json.dump(spec, open(path, "w"))
            rp = self.replay(path)
            if rp.get("outcome") == "violation":
                self.note_known(f)
                self.preexcluded.setdefault(h.name, set()).add(f["key"])
            else:
                self.log.append("known finding %s no longer reproduces (outcome=%s); not excluded"
                                % (f["key"], rp.get("outcome")))

    # ------------------------------------------------------------------ extras
    def do_extra(self, name):
        r = _run_json([PY, "-m", "vp.extra", self.prop, name, "--tier", self.tier,
                       "--seed", str(self.seed)], "@@RESULT",
                      float(self.extras[name].get("wall", 900)) * (1 if self.tier == "quick" else 6))
        r["extra"] = name
        return r

    # ------------------------------------------------------------------ main
    def run(self):
        self.check_known_witnesses()
        futs = {}
        results = {"reach": [], "shards": [], "extras": []}
        with cf.ThreadPoolExecutor(max_workers=self.jobs) as ex:
            for h in self.hs.values():
                for tag in h.reach:
                    futs[ex.submit(self.do_reach, h, tag)] = "reach"
            for h in self.hs.values():
                n = h.nshards.get(self.tier, 1)
                for s in range(n):
                    futs[ex.submit(self.do_shard, h, s, n)] = "shards"
            for name in self.extras:
                futs[ex.submit(self.do_extra, name)] = "extras"
            for f in cf.as_completed(futs):
                kind = futs[f]
                try:
                    r = f.result()
                except Exception as e:
                    r = {"status": "ERROR", "ok": False, "notes": [repr(e)]}
                results[kind].append(r)
                if self.verbose:
                    print("..", kind, json.dumps(r)[:400], file=sys.stderr, flush=True)
        return self.finish(results)

    def finish(self, results):
        prop = self.prop
        rc = 0
        # reach twins
        for r in results["reach"]:
            if not r.get("ok"):
                self.errors.append("vacuity: reach twin %s/%s not witnessed (%s) %s" % (
                    r.get("harness"), r.get("tag"), r.get("status"), r.get("message")))
        # shards
        per_h = {}
        for r in results["shards"]:
            per_h.setdefault(r["harness"], []).append(r)
        for hname, rs in per_h.items():
            if all(r["status"] == "EMPTY" for r in rs):
                self.errors.append("vacuity: precondition of %s unsatisfiable in every shard" % hname)
            for r in rs:
                if r["status"] == "VIOLATION":
                    self.violations.append(r["violation"])
                elif r["status"] == "ERROR":
                    self.errors.append("worker error in %s shard %s: %s" % (
                        hname, r["shard"], "; ".join(r["notes"])[:1500]))
        # extras
        for r in results["extras"]:
            st = r.get("status")
            if st == "VIOLATION":
                for v in r.get("violations", []):
                    key = v.get("finding_key")
                    kf = [f for f in self.known if f.get("key") == key and key]
                    if kf:
                        self.note_known(kf[0])
                        continue
                    path = "%s/%s-%s-%s.json" % (
                        REPL, prop, r["extra"],
                        hashlib.sha1(json.dumps(v, sort_keys=True).encode()).hexdigest()[:10])
                    json.dump(dict(prop=prop, extra=r["extra"], violation=v), open(path, "w"),
                              indent=1)
                    self.violations.append(dict(replay=path, detail=v.get("detail"),
                                                args=v.get("input")))
            elif st not in ("PROVED", "OK", "BOUNDED"):
                self.errors.append("extra %s: %s %s" % (r.get("extra"), st,
                                                        (r.get("message") or r.get("stderr") or "")[:1500]))
        self.write_evidence(results)
        for v in self.violations:
            print("VIOLATION property=%s replay=%s" % (prop, v["replay"]), flush=True)
            print("  detail: %s\n  input: %s" % (v.get("detail"), str(v.get("args"))[:600]), flush=True)
        for e in self.errors:
            print("HARNESS-ERROR property=%s %s" % (prop, e), flush=True)
        for l in self.log:
            print("note: " + l)
        if self.violations:
            return 1
        if self.errors:
            return 3
        return 0

    def write_evidence(self, results):
        shards, reach, extras = results["shards"], results["reach"], results["extras"]
        states = sum(r.get("paths", 0) for r in shards) + sum(r.get("paths", 0) or 0 for r in reach)
        trans = sum(r.get("solver_checks", 0) for r in shards) + \
            sum(r.get("solver_checks", 0) or 0 for r in reach)
        solver_s = sum(r.get("solver_s", 0.0) for r in shards) + \
            sum(r.get("solver_s", 0.0) or 0 for r in reach) + \
            sum(float(r.get("solver_s", 0) or 0) for r in extras)
        witnesses = [r for r in reach if r.get("ok") and r.get("replay") == "reached"]
        funcs = sorted({f for r in reach for f in r.get("functions", [])})
        samples = [dict(kind="reach-witness (solver-generated input, replayed on the real code)",
                        harness=r["harness"], tag=r["tag"], input=r.get("witness"))
                   for r in witnesses][:12]
        for r in extras:
            for s in (r.get("samples") or [])[:4]:
                samples.append(dict(kind="obligation", extra=r.get("extra"), case=s))
        harness_tbl = []
        exhaustive = bool(shards or extras)
        for hname, h in self.hs.items():
            rs = [r for r in shards if r["harness"] == hname]
            sts = [r["status"] for r in rs]
            conf = all(s in ("CONFIRMED", "EMPTY") for s in sts) and "CONFIRMED" in sts
            exhaustive = exhaustive and conf
            tp = h.tier_params(self.tier)
            if self.budget_scale() < 1.0:
                tp = dict(tp, timeout=round(max(20.0, tp["timeout"] * self.budget_scale())),
                          timeout_note="per-shard CPU budget scaled by %.2f to keep the property's worst case "
                                       "under the %s-tier CPU cap" % (self.budget_scale(), self.tier))
            harness_tbl.append(dict(
                harness=hname, doc=h.doc, units=h.units, stubs=h.stubs, outside=h.outside,
                bounds={k: v for k, v in tp.items()},
                shards=len(rs), shard_status=sts,
                verdict=("confirmed over all paths within the bounds" if conf else
                         "bounded search, not exhausted: no counterexample in the explored paths"
                         if all(s in ("CONFIRMED", "EMPTY", "UNKNOWN") for s in sts) else
                         "see notes"),
                paths=sum(r.get("paths", 0) for r in rs),
                confirmed_paths=sum(r.get("confirmed_paths", 0) for r in rs),
                solver_checks=sum(r.get("solver_checks", 0) for r in rs),
                solver_s=round(sum(r.get("solver_s", 0.0) for r in rs), 2),
                cpu_s=round(sum(r.get("cpu_s", 0.0) for r in rs), 1),
                notes=[n for r in rs for n in r.get("notes", [])][:6],
            ))
        obligations = sum(int(r.get("obligations", 0) or 0) for r in extras)
        discharged = sum(int(r.get("discharged", 0) or 0) for r in extras)
        for r in extras:
            if r.get("status") not in ("PROVED",):
                exhaustive = exhaustive and r.get("status") == "PROVED"
        level = getattr(self.mod, "LEVEL", "model_checking")
        cov = dict(
            states=max(states, 0), transitions=max(trans, 0),
            traces_validated_against_impl=len(witnesses),
            samples=samples or [dict(kind="none", note="no reach witnesses registered")],
            exhaustive=bool(exhaustive),
            explanation=("states = distinct symbolic execution paths of the real tornado code explored "
                         "by CrossHair (each path = one solver-decided class of inputs); transitions = "
                         "z3 check() calls deciding branch feasibility; traces_validated_against_impl = "
                         "solver-generated reach witnesses replayed in a plain interpreter."),
            harnesses=harness_tbl,
            functions_encoded=funcs,
            solver_queries=trans + sum(int(r.get("queries", 0) or 0) for r in extras),
            solver_s=round(solver_s, 2),
            extras=[{k: v for k, v in r.items() if k not in ("stderr", "stdout")} for r in extras],
            known_findings_reported=self.known_printed,
            errors=self.errors,
        )
        if extras:
            cov.update(obligations=obligations, discharged=discharged,
                       checker_cmd="./check %s --tier %s" % (self.prop, self.tier),
                       trusted_base=sorted({t for r in extras for t in r.get("trusted_base", [])} |
                                           {"z3 (wheel) via CrossHair 0.0.110", "CPython 3.12"}))
        if level == "proof" and not extras:
            level = "model_checking"
        if cov["states"] < 1 or cov["transitions"] < 1:
            # proof-only modules: keep schema-valid generic keys as well
            cov["evaluations"] = max(obligations, 1)
            cov["distinct_nontrivial"] = max(discharged, 2)
            cov["states"] = max(cov["states"], 1)
            cov["transitions"] = max(cov["transitions"], 1)
        assumptions = sorted({s for h in self.hs.values() for s in h.stubs} |
                             {"outside: " + s for h in self.hs.values() for s in h.outside} |
                             {a for r in extras for a in r.get("assumptions", [])} |
                             set(getattr(self.mod, "ASSUMPTIONS", [])))
        ev = dict(property_id=self.prop, tier=self.tier, seed=int(self.seed), level=level,
                  coverage=cov, assumptions=assumptions,
                  wall_s=round(time.time() - self.t0, 2), violations=len(self.violations))
        json.dump(ev, open("%s/%s.json" % (EVID, self.prop), "w"), indent=1,
                  default=str)


def main(argv=None):
    ap = argparse.ArgumentParser()
    ap.add_argument("prop")
    ap.add_argument("--tier", default=os.environ.get("VERIF_TIER", "quick"))
    ap.add_argument("--replay", default=None)
    ap.add_argument("--only", default=None)
    ap.add_argument("--jobs", type=int, default=int(os.environ.get("VERIF_JOBS", "16")))
    ap.add_argument("-v", "--verbose", action="store_true")
    a = ap.parse_args(argv)
    seed = int(os.environ.get("VERIF_SEED", "0") or 0)
    if a.replay:
        r = _run_json([PY, "-m", "vp.replay", a.replay], "@@REPLAY", 600)
        print(json.dumps(r, indent=1))
        if r.get("outcome") == "violation":
            print("VIOLATION property=%s replay=%s" % (a.prop, a.replay))
            return 1
        return 0
    run = Runner(a.prop, a.tier, seed, a.jobs, only=a.only.split(",") if a.only else None,
                 verbose=a.verbose)
    return run.run()


if __name__ == "__main__":
    sys.exit(main())
