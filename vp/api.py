"""Harness API.

A *harness* is an ordinary Python function with annotated arguments (the symbolic
variables), a precondition function (the stated bounds, nothing else) and a body that
drives the REAL tornado code and `assert`s the property against a reference oracle.
CrossHair executes it symbolically, one path per solver-decided branch combination.

    def pre_x(a: int, s: str) -> bool:
        return 0 <= a <= P.N and len(s) <= P.L and in_shard(a)

    @harness(pre=pre_x, quick=dict(N=3, L=4, timeout=60), thorough=dict(N=5, L=6, timeout=900),
             nshards=dict(quick=1, thorough=4), reach=["accepted"])
    def h_x(a: int, s: str):
        ...
        reached("accepted")        # vacuity witness point (twin run must get here)
        assert real(a, s) == model(a, s), "explanation"

`P` holds the per-run parameters (tier bounds, shard number, reach tag, excluded known
findings). It is configured identically in the CrossHair worker and in the plain-interpreter
replay, so a counterexample is replayed under the same bounds.
"""
import os
import sys

REPO = os.environ.get("VERIF_REPO", "/repo")


class _Params:
    def __init__(self):
        self.__dict__["_d"] = dict(
            tier="quick", shard=0, nshards=1, reach=None, exclude=frozenset(), seed=0
        )

    def configure(self, **kw):
        self._d.update(kw)

    def __getattr__(self, k):
        try:
            return self.__dict__["_d"][k]
        except KeyError:
            raise AttributeError(k)

    def __setattr__(self, k, v):
        self._d[k] = v

    def asdict(self):
        return dict(self._d)


P = _Params()


class HarnessHang(Exception):
    """Raised by the CPU watchdog when a single concrete execution of a harness does not terminate."""


class Reached(AssertionError):
    """Raised at a reach point when the run is the reachability twin for that tag."""


def reached(tag: str) -> None:
    if P.reach is not None and P.reach == tag:
        raise Reached("REACHED " + tag)


def in_shard(key) -> bool:
    """Partition by construction: exactly one shard accepts any value of `key` (an int)."""
    return key % P.nshards == P.shard


class Harness:
    def __init__(self, fn, pre, quick, thorough, nshards, reach, doc, units, stubs, outside,
                 classify, raises):
        self.fn = fn
        self.name = fn.__name__
        self.pre = pre
        self.params = {"quick": dict(quick or {}), "thorough": dict(thorough or quick or {})}
        if isinstance(nshards, int):
            nshards = {"quick": nshards, "thorough": nshards}
        self.nshards = nshards or {"quick": 1, "thorough": 1}
        self.reach = list(reach or [])
        self.doc = doc or (fn.__doc__ or "").strip()
        self.units = list(units or [])
        self.stubs = list(stubs or [])
        self.outside = list(outside or [])
        self.classify = classify
        self.raises = tuple(raises or ())

    def tier_params(self, tier):
        d = dict(timeout=60, reach_timeout=40, per_path_timeout=None)
        d.update(self.params[tier])
        return d


_REGISTRY = {}


def harness(pre, quick=None, thorough=None, nshards=None, reach=None, doc=None, units=None,
            stubs=None, outside=None, classify=None, raises=None):
    """Register a harness.

    pre      : callable with the same signature returning bool - the bounds.
    quick/thorough : dict of parameters copied into P (plus `timeout` = CPU seconds budget per
               shard, `reach_timeout`, optional `per_path_timeout`).
    nshards  : int or {tier: int}; the pre must call in_shard(key) when > 1.
    reach    : list of tags; for each, a twin run must raise Reached(tag) (vacuity guard).
    units    : names of the real tornado functions driven (documentation; the measured list of
               executed functions is added from replays).
    stubs    : environment stubs / assumptions that are part of the claim.
    outside  : what is outside the claim.
    classify : optional fn(**args) -> str|None naming a known-finding shape for a counterexample.
    """

    def deco(fn):
        h = Harness(fn, pre, quick, thorough, nshards, reach, doc, units, stubs, outside,
                    classify, raises)
        _REGISTRY.setdefault(fn.__module__, {})[fn.__name__] = h
        fn.harness = h
        return fn

    return deco


def harnesses_of(module):
    return dict(_REGISTRY.get(module.__name__, {}))


def setup_paths():
    for p in ("/verif", REPO):
        if p in sys.path:
            sys.path.remove(p)
    sys.path.insert(0, "/verif")
    sys.path.insert(0, REPO)
