"""Regenerates /verif/MANIFEST.json from the harness modules present + not_applicable.json."""
import importlib
import json
import os
import sys

sys.path.insert(0, "/verif")
from vp import api  # noqa: E402

api.setup_paths()
props = [json.loads(l) for l in open("/verif/properties.jsonl")]
na_file = "/verif/not_applicable.json"
na = json.load(open(na_file)) if os.path.exists(na_file) else {}
tok_file = "/verif/thorough_ok.json"
thorough_ok = set(json.load(open(tok_file))) if os.path.exists(tok_file) else set()
checks, not_app = [], []
for p in props:
    pid = p["id"]
    path = "/verif/harness/%s.py" % pid
    if pid in na or not os.path.exists(path):
        not_app.append(dict(property_id=pid, reason=na.get(
            pid, "no check built yet for this property (see DESIGN.md section 4 for the plan)")))
        continue
    mod = importlib.import_module("harness." + pid)
    hs = api.harnesses_of(mod)
    level = getattr(mod, "LEVEL", "model_checking")
    text = getattr(mod, "LEVEL_TEXT", None) or (
        "Bounded exhaustive symbolic execution (CrossHair + z3) of the real tornado functions against a "
        "sequential reference oracle: every input/history inside the stated bounds is decided per path by "
        "the solver; counterexamples are replayed in a plain interpreter before being reported.")
    note = getattr(mod, "LEVEL_NOTE", None) or (
        "Trusted: CrossHair 0.0.110 path exploration and its z3 models of builtins, z3 5.1, the environment "
        "stubs listed in the evidence file (assumptions), the reference oracle in harness/%s.py. Bounds per "
        "harness are in evidence.coverage.harnesses[].bounds; outside them nothing is claimed." % pid)
    tech = getattr(mod, "TECHNIQUE", None) or "symbolic execution of the real Python code (CrossHair/z3), bounded"
    entry = dict(
        property_id=pid,
        quick_cmd="./check %s --tier quick" % pid,
        evidence_file="/verif/evidence/%s.json" % pid,
        replay_cmd_template="./check %s --replay {path}" % pid,
        engine="chx" if hs else "smt",
        level_claimed=dict(category=level, text=text, design_ref="DESIGN.md section 4 (%s)" % pid),
        level_note=note,
        technique=tech,
    )
    if pid in thorough_ok:
        # registered only after the thorough command ran end-to-end with exit 0 on the unchanged tree
        entry["thorough_cmd"] = "./check %s --tier thorough" % pid
    checks.append(entry)
man = dict(
    version=1,
    setup_cmd="./setup.sh",
    hooks=dict(
        guard="TORNADO_VERIF",
        enable="no source hooks: checks import /repo's working tree directly (sys.path[0]=/repo) and stub the "
               "environment from outside; TORNADO_VERIF=1 is exported by ./check but nothing in /repo reads it",
        baseline_off_cmd="cd /repo && /venv/bin/python -m pytest -ra -q -p no:cacheprovider --timeout=900 "
                         "--continue-on-collection-errors",
        source_commits=[],
        add_only=True,
    ),
    engines=[
        dict(name="chx", path="/verif/vp/worker.py", serves_properties=[c["property_id"] for c in checks if c["engine"] == "chx"],
             kind_free_text="CrossHair 0.0.110 symbolic execution (z3) of harness functions that drive the real tornado code"),
        dict(name="smt", path="/verif/vp/extra.py", serves_properties=[c["property_id"] for c in checks],
             kind_free_text="direct z3 obligations generated from the live source (regex->z3 regular languages, "
                            "Python-AST->SMT kernels, LLVM-IR interpreter for speedups.c)"),
    ],
    checks=checks,
    not_applicable=not_app,
    notes="Exit 0 = held on everything explored; 1 = replayed VIOLATION; 3 = harness/engine error. "
          "known_findings.json lists recorded and fixed genuine defects.",
)
json.dump(man, open("/verif/MANIFEST.json", "w"), indent=1)
print("checks:", len(checks), "not_applicable:", len(not_app))
