#!/bin/bash
# Build the overlay venv used by every check (offline, idempotent).
set -e
cd "$(dirname "$0")"
V=/verif/.venv
if [ ! -x $V/bin/python ] || ! $V/bin/python -c "import crosshair, z3" 2>/dev/null; then
  rm -rf $V
  /venv/bin/python -m venv $V
  printf '/venv/lib/python3.12/site-packages\n' > $V/lib/python3.12/site-packages/base.pth
  PIP_NO_INDEX=1 $V/bin/pip install -q --no-index --find-links /opt/veriftools/wheels crosshair-tool z3-solver
fi
$V/bin/python -c "import crosshair, z3; print('verif venv ok: crosshair', crosshair.__version__, 'z3', z3.get_version_string())"
