"""C22 - linkify output is escaped text plus safe links only.

Real code driven: escape.linkify (make_link, _URL_RE.sub, xhtml_escape).
Text = pooled fragments chosen by symbolic indices plus free symbolic code points at a symbolic position;
options (shorten, require_protocol, permitted_protocols) from a pool by symbolic index.
Oracle (statement): a strict tokenizer for the inserted <a href="..."[ title="..."]>label</a> tags;
with the tags removed the output is xhtml_escape(text) (labels replaced by their URL; when shortening a
label is the URL or a prefix of it + '...' that does not end inside a character entity); every href has a
permitted scheme or is http:// + a www. link; no quote / angle bracket inside an href.
"""
from typing import List, Tuple

from vp.api import P, harness, in_shard, reached

from tornado import escape

from harness._text_tmpl import ref_escape

TECHNIQUE = "CrossHair symbolic execution of the real linkify on pooled fragments + free code points"

FRAG = ["http://", "a.b", "www.", "&", " ", "javascript://", '"', "<", "(", ")", ".", ";",
        "x" * 31, "/", "https://", "ftp://", "?q=1&r=2", "'", "&amp;", ">", "://", "-", "\n",
        "y" * 9 + "/" + "z" * 12 + ".h?k" + "&" * 3, "javascript:"]
PROTOS = [["http", "https"], ["http"], ["ftp", "javascript"], []]


def _unesc(t):
    return (t.replace("&lt;", "<").replace("&gt;", ">").replace("&quot;", '"').replace("&#x27;", "'")
            .replace("&amp;", "&"))


def _check(text, out, shorten, require_protocol, permitted, allow_split=False):
    esc = ref_escape(text)
    rest = []           # output with tags removed and labels replaced by their URL
    i = 0
    nlinks = 0
    while True:
        j = out.find("<", i)
        if j < 0:
            rest.append(out[i:])
            break
        rest.append(out[i:j])
        assert out.startswith('<a href="', j), "a '<' that is not an inserted anchor in %r" % (out,)
        h0 = j + len('<a href="')
        h1 = out.find('"', h0)
        assert h1 >= 0, "unterminated href in %r" % (out,)
        href = out[h0:h1]
        for ch in "<>'":
            assert ch not in href, "raw %r inside href %r" % (ch, href)
        k = h1 + 1
        titled = out.startswith(' title="', k)
        if titled:
            t1 = out.find('"', k + 8)
            assert t1 >= 0 and out[k + 8:t1] == href, "title differs from href in %r" % (out,)
            k = t1 + 1
        assert out.startswith(">", k), "unexpected text inside the anchor tag in %r" % (out,)
        k += 1
        e = out.find("</a>", k)
        assert e >= 0, "anchor not closed in %r" % (out,)
        label = out[k:e]
        assert "<" not in label and ">" not in label
        i = e + 4
        nlinks += 1
        # --- the href: permitted scheme, or a www. link given http://
        scheme, colon, _r = href.partition(":")
        pos = sum(len(x) for x in rest)
        if esc.startswith(href, pos):
            url = href
            assert colon and scheme in permitted, "href %r uses a protocol outside %r" % (href, permitted)
        else:
            assert href.startswith("http://www."), "href %r: neither permitted protocol nor www. link" % href
            url = href[len("http://"):]
            assert not require_protocol, "protocol-less link %r made despite require_protocol" % href
            assert esc.startswith(url, pos), "link text %r is not the input at that position" % url
        # --- the label
        if label != url:
            assert shorten, "label %r differs from its URL %r without shortening" % (label, url)
            assert titled
            assert label.endswith("...") and url.startswith(label[:-3]) and len(label) < len(url), \
                "label %r is not a proper prefix of %r + '...'" % (label, url)
            pre = label[:-3]
            # character by character on the entity-unescaped text: label minus '...' is a prefix of the URL
            upre, uurl = _unesc(pre), _unesc(url)
            assert len(upre) <= len(uurl), "label %r longer than its URL %r" % (label, url)
            for q in range(len(upre)):
                assert upre[q] == uurl[q], "label %r is not a prefix of its URL %r (differs at %d)" % (label, url, q)
            amp = pre.rfind("&")
            if not allow_split:      # allow_split only when the recorded known finding is excluded
                assert amp < 0 or ";" in pre[amp:], "label %r ends inside a character entity" % (label,)
        else:
            assert not titled
        rest.append(url)
    got = "".join(rest)
    assert got == esc, "output without its anchors %r != escaped input %r" % (got, esc)
    return nlinks


def pre_link(idx: List[int], free: str, pos: int, opt: int) -> bool:
    if not (len(idx) <= P.N and len(free) <= P.F and 0 <= pos <= len(idx) and 0 <= opt < P.NO):
        return False
    for i in idx:
        if not 0 <= i < P.NF:
            return False
    for c in free:
        if 0xD800 <= ord(c) <= 0xDFFF:
            return False
    if len(free) == 0 and pos != 0:
        return False
    return in_shard((idx[0] if len(idx) > 0 else 0) + len(free))


def _run(idx, free, pos, opt):
    parts = [FRAG[i] for i in idx]
    text = "".join(parts[:pos]) + free + "".join(parts[pos:])
    low = opt % 4
    shorten = low == 1 or low == 3
    reqp = low >= 2
    permitted = PROTOS[opt // 4]
    out = escape.linkify(text, shorten=shorten, require_protocol=reqp, permitted_protocols=permitted)
    n = _check(text, out, shorten, reqp, permitted)
    return text, out, n


def pre_link0(idx: List[int], opt: int) -> bool:
    if not (len(idx) <= P.N and 0 <= opt < P.NO):
        return False
    for i in idx:
        if not 0 <= i < P.NF:
            return False
    return in_shard(idx[0] if len(idx) > 0 else 0)


@harness(pre=pre_link0, quick=dict(N=3, NF=7, NO=2, timeout=150), thorough=dict(N=4, NF=len(FRAG), NO=4, timeout=1400),
         nshards=dict(quick=7, thorough=24), reach=["link_made", "www_link", "bad_protocol_not_linked"],
         units=["escape.linkify", "escape.linkify.make_link", "escape._URL_RE", "escape.xhtml_escape"],
         stubs=["text = concatenation of <= N fragments from %r (first NF in quick) chosen by symbolic index; "
                "options: shorten, require_protocol bits and permitted_protocols from %r" % (FRAG, PROTOS)],
         outside=["extra_params", "texts outside the fragment language (see h_link_free)"])
def h_link(idx: List[int], opt: int):
    """pooled fragments, all option combinations."""
    text, out, n = _run(idx, "", 0, opt)
    if n > 0 and "http://" in text:
        reached("link_made")
    if n > 0 and text[:4] == "www.":
        reached("www_link")
    if n == 0 and "javascript://a.b" in text:
        reached("bad_protocol_not_linked")


@harness(pre=pre_link0, quick=dict(N=2, NF=7, NO=16, timeout=150), thorough=dict(N=3, NF=16, NO=16, timeout=1400),
         nshards=dict(quick=7, thorough=16), reach=["javascript_permitted_linked", "www_despite_empty_protocols"],
         units=["escape.linkify", "escape.linkify.make_link", "escape._URL_RE"],
         stubs=["as h_link with fewer fragments and ALL 16 option combinations (shorten x require_protocol x "
                "permitted_protocols from %r)" % (PROTOS,)],
         outside=["extra_params"])
def h_link_opts(idx: List[int], opt: int):
    """all option combinations: hrefs use a permitted protocol or are www. links (unless require_protocol)."""
    text, out, n = _run(idx, "", 0, opt)
    if n > 0 and opt // 4 == 2 and text[:13] == "javascript://":
        reached("javascript_permitted_linked")
    if n > 0 and opt // 4 == 3:
        reached("www_despite_empty_protocols")


@harness(pre=pre_link, quick=dict(N=1, NF=2, F=1, NO=1, timeout=200, reach_timeout=150), thorough=dict(N=2, NF=8, F=2, NO=16, timeout=1400),
         nshards=dict(quick=3, thorough=16), reach=["free_in_link"],
         units=["escape.linkify", "escape.linkify.make_link", "escape._URL_RE", "escape.xhtml_escape"],
         stubs=["text = <= N pooled fragments (first NF of the pool) with <= F FREE symbolic code points "
                "(any non-surrogate) inserted at a symbolic fragment boundary"],
         outside=["extra_params", "more than F free code points (regex engine on symbolic text is expensive)"])
def h_link_free(idx: List[int], free: str, pos: int, opt: int):
    """free symbolic code points between pooled fragments."""
    text, out, n = _run(idx, free, pos, opt)
    if n > 0 and len(free) == 1:
        reached("free_in_link")


# ---- entities near the clip point.  The URL is built from symbolic LENGTHS (host, first path segment, tail)
# with one special character ('&' -> '&amp;', '"' -> '&quot;') at a symbolic position, so the special lands
# on every offset around both clipping rules (the 8-character path cut and the 30-character cut).
def classify_clip(proto: int, host: int, path: int, special: int, tail: int):
    return "shorten_splits_entity"


SCHEMES = ["http://", "www.", "https://", "http:/", "http:///", "https:/", "ftp://", "HTTP://"]
SPECIALS = ["&", '"', "q"]
CLIP_PERMITTED = ["http", "https", "ftp", "HTTP"]


def pre_clip(proto: int, host: int, path: int, special: int, tail: int) -> bool:
    if not (0 <= proto < len(SCHEMES) and 0 <= special < len(SPECIALS) and P.H0 <= host <= P.H1
            and -1 <= path <= 8 and P.T0 <= tail <= P.T1):
        return False
    return in_shard(proto * 3 + special)


@harness(pre=pre_clip, quick=dict(H0=8, H1=22, T0=29, T1=29, timeout=150),
         thorough=dict(H0=0, H1=40, T0=0, T1=40, timeout=1400),
         nshards=dict(quick=24, thorough=24), classify=classify_clip,
         reach=["clipped_before_entity", "single_slash_scheme_shortened", "uppercase_scheme_shortened"],
         units=["escape.linkify", "escape.linkify.make_link"],
         stubs=["shorten=True, permitted_protocols=%r; text = SCHEME + 'h' * host + ('/' + 'p' * path if path >= 0) "
                "+ SPECIAL + 't' * tail with SCHEME in %r (one, two and three slashes, upper case, ftp, www.), "
                "SPECIAL in %r; host (H0..H1), path (-1..8) and tail (T0..T1) are symbolic lengths (realised by "
                "the string multiplication: every value forked); quick places the special on every offset "
                "around both clipping rules" % (CLIP_PERMITTED, SCHEMES, SPECIALS)],
         outside=["more than one special character", "extra_params"])
def h_clip(proto: int, host: int, path: int, special: int, tail: int):
    """shortened labels are character-by-character prefixes of their URL + '...' for every scheme
    separator the URL regex accepts, and no character entity is split wherever it falls."""
    text = (SCHEMES[proto] + "h" * host + ("/" + "p" * path if path >= 0 else "")
            + SPECIALS[special] + "t" * tail)
    out = escape.linkify(text, shorten=True, permitted_protocols=CLIP_PERMITTED)
    # with the known finding "shorten_splits_entity" recorded (P.exclude) everything but the split is checked
    n = _check(text, out, True, False, CLIP_PERMITTED,
               allow_split=bool(P.exclude) and "shorten_splits_entity" in P.exclude)
    if "...</a>" in out:
        if special < 2 and "&" not in out.split(">")[1]:
            reached("clipped_before_entity")
        if proto == 3 or proto == 5:
            reached("single_slash_scheme_shortened")
        if proto == 7:
            reached("uppercase_scheme_shortened")


SHORT = ["http://", "www.", "x" * 31, "/", "y" * 9, ".h?k", "&", "a.b", "z" * 12, "https://", "?", "&amp;",
         "http:/", "ftp://", "HTTP://", "https:/"]


def pre_short(idx: List[int], rp: bool) -> bool:
    if len(idx) > P.N:
        return False
    for i in idx:
        if not 0 <= i < P.NF:
            return False
    return in_shard(idx[1] if len(idx) > 1 else 0)


@harness(pre=pre_short, quick=dict(N=4, NF=7, timeout=120), thorough=dict(N=5, NF=len(SHORT), timeout=1400),
         nshards=dict(quick=4, thorough=12), reach=["shortened"],
         units=["escape.linkify", "escape.linkify.make_link"],
         stubs=["shorten=True, permitted_protocols=%r; <= N fragments from %r (first NF in quick)" % (CLIP_PERMITTED, SHORT)],
         outside=["extra_params"])
def h_shorten(idx: List[int], rp: bool):
    """shortening heuristics: labels are URL prefixes + '...', entities never split."""
    text = "".join([SHORT[i] for i in idx])
    out = escape.linkify(text, shorten=True, require_protocol=rp, permitted_protocols=CLIP_PERMITTED)
    n = _check(text, out, True, rp, CLIP_PERMITTED)
    if "...</a>" in out:
        reached("shortened")


# Engine B extra (group 1 of _URL_RE, \\b dropped, contains no quote / angle bracket / whitespace) was
# written against engines/rxsmt.py (to_z3 + excludes_chars) and measured on an idle machine: all 13 z3
# queries came back "unknown" at the 60 s per-query timeout (17 min in total), so it is NOT registered.
EXTRAS = {}
