"""C05 - Every started request ends with exactly one finish or close notification.

h_crash drives the real HTTPServer.handle_stream -> HTTP1ServerConnection._server_request_loop ->
HTTP1Connection._read_message / _on_connection_close / close / finish, plus
HTTPServer.close_all_connections, with a SYMBOLIC crash point: how many body bytes arrive before the peer
stalls/disconnects (or the disconnect precedes the end of the header block), when the disconnect lands
relative to the response phase (at end of data / after the request was read / after the asynchronous
response turn / never), the handler kind (responds synchronously in finish, asynchronously one turn
later, never, or early from headers_received), an optional body timeout, and an optional shutdown.
"""
from vp.api import P, harness, in_shard, reached
from vp.env import install, outcome

from tornado.httpserver import HTTPServer

from harness._httpin import (FMT, HDR_STREAM, HdrStream, LogTrap, RecConn, body_of, count,
                             respond_ok)

TECHNIQUE = "symbolic execution of the real Python code (CrossHair/z3), bounded"
ASSUMPTIONS = [FMT, HDR_STREAM]

REQS = [
    (b"GET /a HTTP/1.1\r\nHost: h\r\n\r\n", b"", b""),
    (b"POST /b HTTP/1.1\r\nHost: h\r\nContent-Length: 5\r\n\r\n", b"abcde", b"abcde"),
    (b"POST /c HTTP/1.1\r\nHost: h\r\nTransfer-Encoding: chunked\r\n\r\n",
     b"3\r\nabc\r\n2\r\nde\r\n0\r\n\r\n", b"abcde"),
]


def pre_crash(kind: int, hdr_ok: bool, cut: int, resp: int, disc: int, tmo: bool, shutdown: bool) -> bool:
    if not (0 <= kind <= 2 and 0 <= resp <= 3 and 0 <= disc <= 3 and 0 <= cut <= 20):
        return False
    if cut > len(REQS[kind][1]):
        return False
    if not hdr_ok and cut != 0:
        return False
    return in_shard(kind * 4 + resp)


@harness(
    pre=pre_crash,
    quick=dict(timeout=150, reach_timeout=60),
    thorough=dict(timeout=600, reach_timeout=120),
    nshards=dict(quick=12, thorough=12),
    reach=["close_mid_body", "finish_then_disconnect", "timeout_mid_body", "early_response",
           "shutdown_while_waiting"],
    units=["http1connection.HTTP1Connection._read_message", "http1connection.HTTP1Connection._on_connection_close",
           "http1connection.HTTP1Connection.close", "http1connection.HTTP1Connection.finish",
           "http1connection.HTTP1Connection._finish_request",
           "http1connection.HTTP1ServerConnection._server_request_loop", "http1connection.HTTP1ServerConnection.close",
           "httpserver.HTTPServer.handle_stream", "httpserver.HTTPServer.close_all_connections",
           "httpserver.HTTPServer.on_close"],
    stubs=[FMT, HDR_STREAM, "virtual loop and clock (vp/env.py); body_timeout = 5 virtual seconds",
           "three pooled concrete requests (no body / Content-Length 5 / chunked 3+2); the number of body bytes that "
           "arrive (cut) is the solver variable; a disconnect before the end of the header block is the single case "
           "hdr_ok=False (the header read is one read_until_regex: C11)",
           "application = recording HTTPServerConnectionDelegate behind a real HTTPServer object; params.chunk_size=2"],
    outside=["web.RequestHandler.on_finish/on_connection_close layer (web._HandlerDelegate)", "TLS", "websocket detach",
             "header_timeout"],
)
def h_crash(kind: int, hdr_ok: bool, cut: int, resp: int, disc: int, tmo: bool, shutdown: bool):
    """After headers_received a message delegate gets exactly one of finish / on_connection_close once the
    message is complete or the connection is gone - never both, never twice; delivered chunks are a prefix of
    the body (all of it on finish); close_all_connections() completes."""
    hdr, body, data = REQS[kind]
    complete = hdr_ok and cut == len(body)
    pending = []

    def on_headers(rec, start_line, headers):
        if resp == 3:
            respond_ok(rec)
        return None

    def on_finish(rec):
        if resp == 0:
            respond_ok(rec)
        elif resp == 1:
            pending.append(rec)

    with install() as env, LogTrap() as trap:
        stream = HdrStream(env.loop, [(hdr, body[:cut])] if hdr_ok else [], eof=(disc == 0), seg=None)
        rc = RecConn(on_headers=on_headers, on_finish=on_finish)
        server = HTTPServer(rc, chunk_size=2, body_timeout=(5 if tmo else None))
        server.handle_stream(stream, ("127.0.0.1", 1234))
        env.run_ready()
        if disc == 1:
            stream.peer_close()
            env.run_ready()
        for rec in pending:
            respond_ok(rec)          # the asynchronous handler produces its response one turn later
        env.run_ready()
        if disc == 2:
            stream.peer_close()
            env.run_ready()
        if tmo:
            env.advance(6)
        if shutdown:
            t = env.spawn(server.close_all_connections())
            env.run_ready()
            assert outcome(t) == ("result", None), "close_all_connections did not complete: %r" % (outcome(t),)
            assert stream.closed() and len(server._connections) == 0
        # ---------------------------------------------------------------- oracle
        assert not trap.uncaught(), "uncaught error logged: %r" % (trap.uncaught(),)
        assert not env.v.exc_contexts, "exception escaped a callback: %r" % (env.v.exc_contexts,)
        started = [ev for ev in rc.events_by_req if ev]
        if not hdr_ok:
            assert started == [], "delegate notified although no header block ever arrived: %r" % (started,)
            return
        assert len(started) >= 1 and started[0][0][0] == "H"
        for ev in started:
            assert ev[0][0] == "H"
            nf, nc = count(ev, "F"), count(ev, "C")
            assert nf + nc <= 1, "delegate told finish/close more than once: %r" % ([e[0] for e in ev],)
            kinds = [e[0] for e in ev]
            assert kinds[-1] in ("F", "C") or nf + nc == 0, "events after the final notification: %r" % (kinds,)
        ev = started[0]
        got = body_of(ev)
        nf, nc = count(ev, "F"), count(ev, "C")
        assert data[:len(got)] == got, "delivered chunks %r are not a prefix of the body %r" % (got, data)
        if nf:
            assert got == data, "finish() with only part of the body delivered: %r" % (got,)
        if complete:
            assert nf + nc == 1, "complete request never finished/closed: %r" % ([e[0] for e in ev],)
            if resp != 3:
                assert nf == 1, "complete request must be reported as finished"
                if stream.closed() and resp == 2:
                    reached("finish_then_disconnect")
            else:
                reached("early_response")
        elif stream.closed():
            assert nf == 0 and nc == 1, \
                "connection gone inside the message: exactly one on_connection_close expected, got %r" % ([e[0] for e in ev],)
            if resp != 3:
                if disc <= 2 and cut > 0:
                    reached("close_mid_body")
                if disc == 3 and tmo:
                    reached("timeout_mid_body")
        else:
            assert nf == 0 and nc == 0, "incomplete message on an open connection already finalised"
        if shutdown and complete and resp == 2 and disc == 3:
            reached("shutdown_while_waiting")
