"""Pure-Python integer stand-ins used by harness/C46.py (agent misc1).

Why: `datetime.datetime/timedelta` are C types (CrossHair cannot carry symbolic values through them),
`int / float` yields a symbolic IEEE/real float (CrossHair caps such paths at UNKNOWN), and `str % dict`
realises its operands.  Each stand-in below is exact integer arithmetic, so the real
`Locale.format_date` body runs unchanged on solver variables.

* ShimModule.datetime / .timedelta / .timezone : proleptic Gregorian UTC calendar on integer microseconds
  (Hinnant's civil-from-days).  Validated against the real `datetime` in EXTRAS["stub_validation"].
* SInt   : the value of `timedelta.seconds`; an int wrapper whose `/ float` gives an exact rational `SRat`.
* shim_round : `round()` for SRat = round-half-even on exact rationals.  Agrees with CPython's
  round(int / float) for the divisors 60.0 and 3600.0 and every int in 0..86399 (checked exhaustively in
  EXTRAS["stub_validation"]; the quotient is either exactly k+1/2, which is representable, or at least
  1/3600 away from a tie, far more than one ulp).
* FmtStr : `%`-formatting with a mapping, for the `%(name)d` / `%(name)s` / `%(name)02d`-free templates that
  format_date uses, implemented by concatenation with `str(int)` so the result stays symbolic.
"""

US = 1000000
DAY_US = 86400 * US


# ------------------------------------------------------------------------------------ numbers
class SRat:
    """Exact rational num/den with den a positive concrete int."""

    def __init__(self, num, den):
        self.num = num
        self.den = den


class SInt:
    """Wrapper of an int (possibly symbolic). Only what format_date uses on `.seconds`."""

    def __init__(self, v):
        self.v = v

    def _o(self, o):
        return o.v if isinstance(o, SInt) else o

    def __lt__(self, o):
        return self.v < self._o(o)

    def __le__(self, o):
        return self.v <= self._o(o)

    def __gt__(self, o):
        return self.v > self._o(o)

    def __ge__(self, o):
        return self.v >= self._o(o)

    def __eq__(self, o):
        return self.v == self._o(o)

    def __ne__(self, o):
        return self.v != self._o(o)

    def __hash__(self):
        return hash(self.v)

    def __int__(self):
        return self.v

    __index__ = __int__

    def __add__(self, o):
        return SInt(self.v + self._o(o))

    def __sub__(self, o):
        return SInt(self.v - self._o(o))

    def __mul__(self, o):
        return SInt(self.v * self._o(o))

    def __floordiv__(self, o):
        return SInt(self.v // self._o(o))

    def __mod__(self, o):
        return SInt(self.v % self._o(o))

    def __truediv__(self, o):
        if type(o) is float:
            n, d = o.as_integer_ratio()          # concrete float -> exact ratio
            if n < 0:
                n, d = -n, -d
            return SRat(self.v * d, n)
        if type(o) is int:
            return SRat(self.v if o > 0 else -self.v, abs(o))
        return NotImplemented

    def __str__(self):
        return str(self.v)

    def __repr__(self):
        return "SInt(%r)" % (self.v,)


def shim_round(x, ndigits=None):
    """tornado.locale.round stand-in: exact round-half-even for SRat / SInt, builtin otherwise."""
    if isinstance(x, SInt):
        return x.v
    if isinstance(x, SRat):
        assert ndigits is None
        n, d = x.num, x.den
        q = n // d
        r2 = 2 * (n - q * d)
        if r2 < d:
            return q
        if r2 > d:
            return q + 1
        return q if q % 2 == 0 else q + 1
    return round(x) if ndigits is None else round(x, ndigits)


def shim_str(v="", *a, **k):
    """tornado.locale.str stand-in: ints are rendered digit by digit (each digit one code point that is
    an integer expression of v), everything else goes to the builtin."""
    if a or k or type(v) is bool or not isinstance(v, int):
        return str(v, *a, **k)
    neg = v < 0
    m = -v if neg else v
    n = 1
    p = 10
    while m >= p:
        p = p * 10
        n += 1
    out = "-" if neg else ""
    for i in range(n - 1, -1, -1):
        out = out + chr(48 + (m // 10 ** i) % 10)
    return out


# ------------------------------------------------------------------------------------ % formatting
class FmtStr(str):
    """A template whose `% mapping` substitutes %(name)d / %(name)s by concatenation."""

    def __mod__(self, mapping):
        t = str(self)
        out = ""
        i = 0
        while True:
            j = t.find("%", i)
            if j < 0:
                return out + t[i:]
            out = out + t[i:j]
            if t[j + 1] == "%":
                out = out + "%"
                i = j + 2
                continue
            assert t[j + 1] == "(", "unsupported template %r" % (t,)
            k = t.index(")", j)
            name = t[j + 2:k]
            conv = t[k + 1]
            assert conv in "ds", "unsupported conversion in %r" % (t,)
            v = mapping[name]
            if conv == "d":
                if isinstance(v, SInt):
                    v = v.v
                assert isinstance(v, int), "%%d needs an int, got %r" % (v,)
                out = out + str(v)
            else:
                out = out + (v if isinstance(v, str) else str(v))
            i = k + 2


# ------------------------------------------------------------------------------------ calendar
def civil_from_days(z):
    """days since 1970-01-01 -> (year, month, day); exact for z >= -719468."""
    z = z + 719468
    era = z // 146097
    doe = z - era * 146097
    yoe = (doe - doe // 1460 + doe // 36524 - doe // 146096) // 365
    doy = doe - (365 * yoe + yoe // 4 - yoe // 100)
    mp = (5 * doy + 2) // 153
    d = doy - (153 * mp + 2) // 5 + 1
    if mp < 10:
        m = mp + 3
    else:
        m = mp - 9
    y = yoe + era * 400
    if m <= 2:
        y = y + 1
    return y, m, d


class tzinfo:
    """Base class for zone objects (as datetime.tzinfo): subclasses implement utcoffset(dt) -> timedelta."""

    def utcoffset(self, dt):
        raise NotImplementedError


class timezone(tzinfo):
    """Fixed-offset zone, as datetime.timezone(timedelta)."""

    utc = None           # set below

    def __init__(self, offset):
        self._offset = offset

    def utcoffset(self, dt):
        return self._offset

    def __repr__(self):
        return "shim.timezone(%r us)" % (self._offset._us,)


class timedelta:
    def __init__(self, days=0, seconds=0, microseconds=0, milliseconds=0, minutes=0, hours=0,
                 weeks=0, _us=None):
        if _us is not None:
            self._us = _us
        else:
            self._us = (((weeks * 7 + days) * 24 + hours) * 60 + minutes) * 60 * US \
                + seconds * US + milliseconds * 1000 + microseconds

    @property
    def days(self):
        return self._us // DAY_US

    @property
    def seconds(self):
        return SInt((self._us // US) % 86400)

    @property
    def microseconds(self):
        return self._us % US

    def __lt__(self, o):
        return self._us < o._us

    def __le__(self, o):
        return self._us <= o._us

    def __gt__(self, o):
        return self._us > o._us

    def __ge__(self, o):
        return self._us >= o._us

    def __eq__(self, o):
        return isinstance(o, timedelta) and self._us == o._us

    def __ne__(self, o):
        return not self.__eq__(o)

    def __hash__(self):
        return hash(self._us)

    def __neg__(self):
        return timedelta(_us=-self._us)

    def __add__(self, o):
        if isinstance(o, timedelta):
            return timedelta(_us=self._us + o._us)
        return NotImplemented

    def __sub__(self, o):
        if isinstance(o, timedelta):
            return timedelta(_us=self._us - o._us)
        return NotImplemented


timezone.utc = timezone(timedelta(0))


class datetime:
    """Naive or aware date-time.  `_us` = microseconds since 1970-01-01T00:00:00 of the UTC instant (aware)
    or of the wall clock (naive); the calendar fields are those of the wall clock in the object's own
    zone, `_us + utcoffset`, exactly as for datetime.datetime.  Comparison and subtraction of two aware
    values use the instants; mixing naive and aware raises TypeError as the C type does."""

    _now_us = 0          # set by the harness
    # True: .hour/.minute give the placeholder 0 (they only feed the concrete template
    # "%d:%02d %s" % (...) of the absolute format, which would realise them: 1440-way fork)
    _placeholder_tod = False

    def __init__(self, _us, tzinfo=None):
        self._us = _us
        self.tzinfo = tzinfo

    @classmethod
    def now(cls, tz=None):
        return cls(cls._now_us, tz)

    @classmethod
    def fromtimestamp(cls, ts, tz=None):
        assert tz is not None, "shim supports only fromtimestamp(ts, timezone.utc)"
        return cls(ts * US, tz)

    def _off(self):
        if self.tzinfo is None:
            return 0
        return self.tzinfo.utcoffset(self)._us

    def _wall(self):
        return self._us + self._off()

    def utcoffset(self):
        return None if self.tzinfo is None else self.tzinfo.utcoffset(self)

    def replace(self, tzinfo=None):
        # keeps the wall-clock fields, attaches the new zone (the instant changes accordingly)
        new = datetime(0, tzinfo)
        new._us = self._wall() - new._off()
        return new

    def astimezone(self, tz):
        assert self.tzinfo is not None, "shim: astimezone of a naive value is not modelled"
        return datetime(self._us, tz)

    def _cmp_ok(self, o):
        if (self.tzinfo is None) != (o.tzinfo is None):
            raise TypeError("can't compare offset-naive and offset-aware datetimes")

    def __lt__(self, o):
        self._cmp_ok(o)
        return self._us < o._us

    def __le__(self, o):
        self._cmp_ok(o)
        return self._us <= o._us

    def __gt__(self, o):
        self._cmp_ok(o)
        return self._us > o._us

    def __ge__(self, o):
        self._cmp_ok(o)
        return self._us >= o._us

    def __eq__(self, o):
        if not isinstance(o, datetime) or (self.tzinfo is None) != (o.tzinfo is None):
            return False
        return self._us == o._us

    def __ne__(self, o):
        return not self.__eq__(o)

    def __hash__(self):
        return hash(self._us)

    def __sub__(self, o):
        if isinstance(o, datetime):
            if (self.tzinfo is None) != (o.tzinfo is None):
                raise TypeError("can't subtract offset-naive and offset-aware datetimes")
            return timedelta(_us=self._us - o._us)
        if isinstance(o, timedelta):
            return datetime(self._us - o._us, self.tzinfo)
        return NotImplemented

    def __add__(self, o):
        if isinstance(o, timedelta):
            return datetime(self._us + o._us, self.tzinfo)
        return NotImplemented

    def _ymd(self):
        return civil_from_days(self._wall() // DAY_US)

    @property
    def year(self):
        return self._ymd()[0]

    @property
    def month(self):
        return self._ymd()[1]

    @property
    def day(self):
        return self._ymd()[2]

    @property
    def hour(self):
        if datetime._placeholder_tod:
            return 0
        return (self._wall() // (3600 * US)) % 24

    @property
    def minute(self):
        if datetime._placeholder_tod:
            return 0
        return (self._wall() // (60 * US)) % 60

    @property
    def second(self):
        return (self._wall() // US) % 60

    @property
    def microsecond(self):
        return self._wall() % US

    def weekday(self):
        return (self._wall() // DAY_US + 3) % 7


class ShimModule:
    """Stands in for the `datetime` module inside tornado.locale."""
    datetime = datetime
    timedelta = timedelta
    timezone = timezone
    tzinfo = tzinfo


class Names:
    """Stand-in for Locale._months / ._weekdays: any index gives one placeholder (names are not
    part of the claim; avoids a 12x7 fork on a symbolic index)."""

    def __init__(self, what):
        self.what = what

    def __getitem__(self, i):
        return self.what


def validate_against_real_datetime():
    """Plain-Python validation of the stand-ins against the C implementations (concrete sweep)."""
    import datetime as real
    n = 0
    epoch = real.datetime(1970, 1, 1, tzinfo=real.timezone.utc)
    # calendar fields: every day in 1968..2032 at three times of day, plus microsecond edges
    for dayno in range(-800, 23000):
        for us_in_day in (0, 43200 * US + 123456, DAY_US - 1):
            us = dayno * DAY_US + us_in_day
            r = epoch + real.timedelta(microseconds=us)
            s = datetime(us, timezone.utc)
            assert (s.year, s.month, s.day, s.hour, s.minute, s.second, s.microsecond, s.weekday()) == \
                (r.year, r.month, r.day, r.hour, r.minute, r.second, r.microsecond, r.weekday()), us
            n += 1
    # aware values in non-UTC zones: fields, replace(tzinfo=), comparison, subtraction
    for off_min in (-300, 330, 0, 765, -720):
        rz = real.timezone(real.timedelta(minutes=off_min))
        sz = timezone(timedelta(minutes=off_min))
        for dayno in range(18250, 18400, 7):
            for us_in_day in (0, 3 * 3600 * US + 5, 20 * 3600 * US + 59 * 60 * US + 999999):
                us = dayno * DAY_US + us_in_day
                r = (epoch + real.timedelta(microseconds=us)).astimezone(rz)
                z = datetime(us, sz)
                assert (z.year, z.month, z.day, z.hour, z.minute, z.second, z.microsecond, z.weekday()) == \
                    (r.year, r.month, r.day, r.hour, r.minute, r.second, r.microsecond, r.weekday()), (us, off_min)
                r2 = r.replace(tzinfo=real.timezone.utc)
                z2 = z.replace(tzinfo=timezone.utc)
                assert z2._us == (r2 - epoch) // real.timedelta(microseconds=1) and z2.hour == r2.hour
                r3 = r - real.timedelta(minutes=480)
                z3 = z - timedelta(minutes=480)
                assert (z3.day, z3.hour, z3.minute) == (r3.day, r3.hour, r3.minute) and z3.tzinfo is sz
                u = datetime(us + 7, timezone.utc)
                ru = epoch + real.timedelta(microseconds=us + 7)
                assert (u > z) == (ru > r) and (u - z)._us == (ru - r) // real.timedelta(microseconds=1)
                n += 4
    try:
        datetime(0, None) > datetime(0, timezone.utc)
        raise AssertionError("naive/aware comparison must raise")
    except TypeError:
        pass
    # timedelta normalisation for negative and positive differences
    for us in list(range(-3 * DAY_US, 3 * DAY_US, 7919 * 1000003 // 10)) + [-1, 0, 1, -DAY_US, DAY_US,
                                                                            -DAY_US - 1, DAY_US + 10 * US]:
        r = real.timedelta(microseconds=us)
        s = timedelta(_us=us)
        assert (s.days, int(s.seconds), s.microseconds) == (r.days, r.seconds, r.microseconds), us
        n += 1
    assert timedelta(minutes=-480)._us == real.timedelta(minutes=-480) // real.timedelta(microseconds=1)
    assert timedelta(hours=24)._us == DAY_US
    # rounding lemma: exact for every value format_date can pass
    for s in range(0, 86400):
        assert shim_round(SInt(s) / 60.0) == round(s / 60.0), s
        assert shim_round(SInt(s) / (60.0 * 60)) == round(s / (60.0 * 60)), s
        n += 2
    for v in list(range(-1200, 1200)) + [10 ** k + d for k in range(1, 15) for d in (-1, 0, 1)] + \
            [-(10 ** k) - d for k in range(1, 15) for d in (-1, 0, 1)] + [123456789, -987654321012]:
        assert shim_str(v) == str(v), v
        n += 1
    assert shim_str("x") == "x" and shim_str(b"a", "ascii") == "a" and shim_str(1.5) == "1.5"
    # % templates
    for tpl, m in [("%(seconds)d seconds ago", {"seconds": 7}), ("1 hour ago", {"hours": 1}),
                   ("%(month_name)s %(day)s, %(year)s at %(time)s",
                    {"month_name": "May", "day": "3", "year": "2020", "time": "1:02 pm", "weekday": "x"}),
                   ("%(weekday)s at %(time)s", {"weekday": "Monday", "time": "3:04 am"}),
                   ("%(time)s", {"time": "12:00 am"}), ("100%% %(a)s", {"a": "b"})]:
        assert FmtStr(tpl) % m == tpl % m, tpl
        n += 1
    return n
