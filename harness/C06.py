"""C06 - HTTP header maps behave as a case-insensitive multimap.

Real code driven: tornado.httputil.HTTPHeaders (add, __setitem__, __delitem__, __getitem__, get,
__contains__, get_list, get_all, __iter__, __len__, copy, parse_line incl. continuation lines,
parse, __str__) and _normalize_header.
Oracle (written from the statement): insertion-ordered dict of lists keyed by the lower-cased field
name; h[name] == ",".join(values); every name reported present can be deleted; copies are
independent; HTTPHeaders.parse(str(h)) equals h whenever all stored values are valid field values.
Engine B extras: field_name == RFC 9110 token, field_value == RFC 9110 field-value (no CR/LF/NUL, no
leading/trailing SP/HTAB), for strings of every length.
"""
from typing import List, Tuple

from vp.api import P, harness, in_shard, reached

from tornado import httputil
from tornado.httputil import HTTPHeaders, HTTPInputError

# pool: spellings of one field name differing only in case, and two other names
NAMES = ["a-b", "A-B", "c", "a-B", "C", "A-b"]
NK = 7    # op kinds
NPS = 8   # pre-states (all built through the real public API)
# Value pool, chosen by symbolic index.  CrossHair cannot keep rejected values symbolic: tornado formats
# them with "%r" into the exception text, which realises the string (one path per concrete value, never
# exhausted).  The pool holds a representative of every character class of the field-value grammar
# (Engine B proves for ALL strings that the validator == the RFC grammar, i.e. that the classes are right).
_ALPH = ["x", ",", " ", "\t", "\n", "\r", "\0", "\x7f", "\x80", "\xff", "\u0100", ":", "\x1f", "\x0b"]
VALUES = ["", "x", "x y", " ", "\n", "\x80", "\u0100", "\0", " x", "x\t", "x\ty", "a,b", "\r\n", "x\r\n",
          "\t", "\r", "\x7f", "\xff", ":", ",", "\x1f", "\x0b", " \n"] + \
    [a + b for a in _ALPH for b in _ALPH] + ["x" + a + "y" for a in _ALPH]


def valid_value(v: str) -> bool:
    """RFC 9110 field-value: *(field-content) with no leading/trailing SP/HTAB; octets as latin-1."""
    for ch in v:
        o = ord(ch)
        if not (o == 9 or 32 <= o <= 126 or 128 <= o <= 255):
            return False
    if v and (v[0] in " \t" or v[-1] in " \t"):
        return False
    return True


class Model:
    def __init__(self):
        self.d = {}        # lower-cased name -> list of values, insertion ordered
        self.last = None   # key of the last added field line (for continuation lines)
        self.all_valid = True

    def copy(self):
        m = Model()
        m.d = {k: list(v) for k, v in self.d.items()}
        m.last = self.last
        m.all_valid = self.all_valid
        return m

    def add(self, name, v):
        """returns False when the multimap must reject the value"""
        if not valid_value(v):
            return False
        k = name.lower()
        self.d.setdefault(k, []).append(v)
        self.last = k
        return True

    def set(self, name, v):
        self.d[name.lower()] = [v]
        if not valid_value(v):
            self.all_valid = False


def strip_ws(v: str) -> str:
    i, j = 0, len(v)
    while i < j and v[i] in " \t":
        i += 1
    while j > i and v[j - 1] in " \t":
        j -= 1
    return v[i:j]


def chop_eol(line: str) -> str:
    if line.endswith("\r\n"):
        return line[:-2]
    if line.endswith("\n"):
        return line[:-1]
    return line


def build_prestate(ps: int):
    h, m = HTTPHeaders(), Model()
    if ps == 6:
        h["c"] = "r"
        m.set("c", "r")
        h.add("C", "s")
        m.add("C", "s")
        return h, m
    if ps >= 1:
        h.add("a-b", "p")
        m.add("a-b", "p")
    if ps == 7:                    # delete and re-insert: the name moves behind "c"
        h.add("c", "r")
        m.add("c", "r")
        del h["A-b"]
        del m.d["a-b"]
        h.add("A-B", "t")
        m.add("A-B", "t")
    if ps in (2, 3):
        h.add("A-B", "q")          # second value under another spelling: combined cache dropped
        m.add("A-B", "q")
    if ps == 3:
        assert h["a-B"] == "p,q"   # combined cache repopulated
    if ps == 4:
        h.add("c", "r")
        m.add("c", "r")
    if ps == 5:
        h.parse_line(" q")         # continuation line
        m.d["a-b"][-1] += " q"
        m.last = "a-b"
    return h, m


def observe(h, m, pool):
    """non-mutating reads of the real map against the model; returns an error text or None
    (no `assert` here: CrossHair would treat this helper as a contract and copy its arguments)"""
    if len(h) != len(m.d):
        return "len() differs from the number of distinct names"
    if [k.lower() for k in h] != list(m.d):
        return "iteration order is not first-insertion order"
    want_all = [(k, v) for k, vs in m.d.items() for v in vs]
    if [(k.lower(), v) for k, v in h.get_all()] != want_all:
        return "get_all() differs from the model"
    for name in pool:
        k = name.lower()
        if (name in h) != (k in m.d):
            return "membership of %r differs" % name
        if list(h.get_list(name)) != m.d.get(k, []):
            return "get_list(%r) differs" % name
    return None


def observe_joined(h, m, pool):
    for name in pool:
        k = name.lower()
        if k in m.d:
            if h[name] != ",".join(m.d[k]) or h.get(name) != ",".join(m.d[k]):
                return "h[%r] is not the comma-joined value list" % name
        else:
            try:
                h[name]
                return "h[%r] must raise KeyError for an absent name" % name
            except KeyError:
                pass
            if h.get(name) is not None:
                return "get(%r) must be None for an absent name" % name
    return None


def pre_ops(ps: int, fin: bool, ops: List[Tuple[int, int, int]]) -> bool:
    if not (0 <= ps < NPS and len(ops) <= P.N):
        return False
    if ps not in P.PS:
        return False
    for k, n, vi in ops:
        if not (0 <= k < NK and 0 <= n < P.NAMES and 0 <= vi < P.NV):
            return False
        if k in (2, 3) and vi != 0:
            return False                   # delete / read carry no value
    k0 = ops[0][0] if len(ops) > 0 else 0
    k1 = ops[1][0] if len(ops) > 1 else 0
    return in_shard(ps + NPS * k0 if P.SK == 0 else k0 + NK * k1)


@harness(
    pre=pre_ops,
    quick=dict(N=1, NV=16, NAMES=3, PS=tuple(range(NPS)), SK=0, timeout=200, reach_timeout=90),
    thorough=dict(N=1, NV=len(VALUES), NAMES=3, PS=tuple(range(NPS)), SK=0, timeout=1200, reach_timeout=120),
    nshards=dict(quick=8, thorough=56),
    reach=["deleted_multi", "continuation", "rejected_value", "roundtrip", "copy_independent"],
    units=["httputil.HTTPHeaders.add", "httputil.HTTPHeaders.__setitem__", "httputil.HTTPHeaders.__delitem__",
           "httputil.HTTPHeaders.__getitem__", "httputil.HTTPHeaders.__contains__",
           "httputil.HTTPHeaders.get_list", "httputil.HTTPHeaders.get_all", "httputil.HTTPHeaders.__iter__",
           "httputil.HTTPHeaders.__len__", "httputil.HTTPHeaders.copy", "httputil.HTTPHeaders.parse_line",
           "httputil.HTTPHeaders.parse", "httputil.HTTPHeaders.__str__", "httputil._normalize_header"],
    stubs=["field names come from a concrete pool (chosen by symbolic index) so the lru_cache'd "
           "_normalize_header sees concrete keys",
           "values / line tails are chosen by symbolic index from a pool holding a representative of every "
           "character class of the field-value grammar (\"%r\" formatting of rejected values realises "
           "symbolic strings); extra x_grammar proves the validator == RFC grammar for all strings",
           "pre-states 0..5 are built through the public API (add / parse_line continuation / "
           "__getitem__) before the symbolic operations"],
    outside=["histories longer than N symbolic operations after the pre-state", "values outside the pool (quick: 16 values; thorough: all 1-2 "
             "character strings over 14 class representatives + 3-character sandwiches)", "names outside the pool", "continuation line after the last added name was "
             "deleted or on a copy (no defined multimap meaning)", "bytes values",
             "parse_line arguments with an LF that is not the final character"],
)
def h_ops(ps: int, fin: bool, ops: List[Tuple[int, int, int]]):
    pool = NAMES[:P.NAMES]
    h, m = build_prestate(ps)
    copies = []
    for k, n, vi in ops:
        v = VALUES[vi]
        name = pool[n]
        key = name.lower()
        if k == 0:                                   # add
            try:
                h.add(name, v)
                raised = None
            except HTTPInputError as e:
                raised = e
            if m.add(name, v):
                assert raised is None, "add() rejected a valid field value"
            else:
                reached("rejected_value")
                assert raised is not None, "add() accepted an invalid field value"
        elif k == 1:                                 # set
            h[name] = v
            m.set(name, v)
        elif k == 2:                                 # delete
            present = name in h
            assert present == (key in m.d), "membership differs before delete"
            try:
                del h[name]
                raised = None
            except KeyError as e:
                raised = e
            if present:
                if len(m.d[key]) > 1:
                    reached("deleted_multi")
                assert raised is None, "a name reported present could not be deleted (KeyError)"
                del m.d[key]
            else:
                assert raised is not None, "deleting an absent name must raise KeyError"
        elif k == 3:                                 # read one name (fills the combined cache)
            if key in m.d:
                assert h[name] == ",".join(m.d[key]), "h[name] is not the comma-joined value list"
            else:
                assert h.get(name) is None
        elif k == 4:                                 # parse_line: "Name:<ows>value<ows>[CR]LF"
            line = name + ":" + v
            if "\n" in chop_eol(line):
                continue                             # not a single line
            body = strip_ws(chop_eol(line)[len(name) + 1:])
            try:
                h.parse_line(line)
                raised = None
            except HTTPInputError as e:
                raised = e
            if m.add(name, body):
                assert raised is None, "parse_line rejected a valid header line"
            else:
                reached("rejected_value")
                assert raised is not None, "parse_line accepted an invalid field value"
        elif k == 5:                                 # continuation line
            if m.last is None or m.last not in m.d:
                continue
            line = " " + v
            rest = chop_eol(line)
            if "\n" in rest:
                continue
            try:
                h.parse_line(line)
                raised = None
            except HTTPInputError as e:
                raised = e
            if rest == "":
                assert raised is None          # an empty line is ignored
            else:
                part = strip_ws(rest)
                if valid_value(part):
                    assert raised is None, "valid continuation rejected"
                    # obs-fold = one SP; the field value never keeps leading/trailing whitespace
                    m.d[m.last][-1] = strip_ws(m.d[m.last][-1] + " " + part)
                    reached("continuation")
                else:
                    assert raised is not None, "invalid continuation accepted"
        else:                                        # copy, then mutate the copy
            c = h.copy()
            mc = m.copy()
            try:
                c.add(name, v)
                ok = True
            except HTTPInputError:
                ok = False
            assert ok == mc.add(name, v)
            copies.append((c, mc))
    # ---- end of history
    err = observe(h, m, pool)
    assert err is None, err
    for c, mc in copies:
        reached("copy_independent")
        err = observe(c, mc, pool)                   # later mutations of h did not leak into the copy
        assert err is None, "copy: %s" % err
    if m.all_valid:
        reached("roundtrip")
        back = HTTPHeaders.parse(str(h))
        assert [(k2.lower(), v2) for k2, v2 in back.get_all()] == \
            [(k2.lower(), v2) for k2, v2 in h.get_all()], "parse(str(h)) != h"
    if fin:
        err = observe_joined(h, m, pool)
        assert err is None, err
    else:
        for name in pool:                            # every name reported present can be deleted
            if name in h:
                try:
                    del h[name]
                    raised = None
                except KeyError as e:
                    raised = e
                assert raised is None, "a name reported present could not be deleted (KeyError)"
                assert name not in h
        assert len(h) == 0


def _clone(fn, name):
    import types
    g = types.FunctionType(fn.__code__, fn.__globals__, name, fn.__defaults__, fn.__closure__)
    g.__annotations__ = dict(fn.__annotations__)
    g.__module__ = fn.__module__
    g.__qualname__ = name
    g.__doc__ = "same body as h_ops: two symbolic operations over a narrower value pool"
    return g


_H = h_ops.harness
h_ops2 = harness(
    pre=pre_ops,
    quick=dict(N=2, NV=2, NAMES=2, PS=(0, 3), SK=1, timeout=150, reach_timeout=90),
    thorough=dict(N=2, NV=6, NAMES=3, PS=tuple(range(NPS)), SK=1, timeout=900, reach_timeout=120),
    nshards=dict(quick=7, thorough=49),
    reach=["copy_independent", "deleted_multi"],
    units=_H.units, stubs=_H.stubs, outside=_H.outside,
)(_clone(h_ops, "h_ops2"))


# ------------------------------------------------------------------------------ Engine B extras
def x_grammar(tier, seed):
    from engines import rxsmt as rx
    import z3
    A = httputil._ABNF
    obl, viol, samples, q, secs = 0, [], [], 0, 0.0
    dis = 0
    S = rx.harvest(300)
    vals = []
    for pat, mode in [(A.field_name, "fullmatch"), (A.field_value, "fullmatch")]:
        vals.append(rx.validate(pat, S, mode=mode))
    if not all(v["ok"] for v in vals):
        return dict(status="ERROR", message="translator validation failed: %r" % vals)
    # independent RFC 9110 grammars
    tchar = rx.chars("!#$%&'*+-.^_`|~" + "0123456789" +
                     "abcdefghijklmnopqrstuvwxyz" + "ABCDEFGHIJKLMNOPQRSTUVWXYZ")
    token = z3.Plus(tchar)
    vchar = rx.chars([(0x21, 0x7E), (0x80, 0xFF)])
    inner = rx.chars([(0x21, 0x7E), (0x80, 0xFF), (0x20, 0x20), (0x09, 0x09)])
    fvalue = z3.Option(z3.Union(vchar, z3.Concat(vchar, z3.Star(inner), vchar)))
    R_name = rx.to_z3(A.field_name)
    R_val = rx.to_z3(A.field_value)
    ws = rx.chars(" \t")
    checks = [
        ("field_name == RFC 9110 token", lambda: rx.equivalent(R_name, token),
         lambda w: (A.field_name.fullmatch(w) is not None) != _is_token(w)),
        ("field_value == RFC 9110 field-value", lambda: rx.equivalent(R_val, fvalue),
         lambda w: (A.field_value.fullmatch(w) is not None) != valid_value(w)),
        ("field_value excludes CR LF NUL", lambda: rx.excludes_chars(R_val, "\r\n\0"),
         lambda w: A.field_value.fullmatch(w) is not None and any(c in w for c in "\r\n\0")),
        ("field_value has no leading/trailing SP/HTAB",
         lambda: rx.witness(z3.Intersect(R_val, z3.Union(z3.Concat(ws, rx.anystr()), z3.Concat(rx.anystr(), ws)))),
         lambda w: A.field_value.fullmatch(w) is not None and w[:1] + w[-1:] != (w[:1] + w[-1:]).strip(" \t")),
        ("field_name excludes CR LF NUL SP ':'", lambda: rx.excludes_chars(R_name, "\r\n\0 :"),
         lambda w: A.field_name.fullmatch(w) is not None and any(c in w for c in "\r\n\0 :")),
    ]
    status = "PROVED"
    for title, run, confirm in checks:
        obl += 1
        verdict, w, t = run()
        q += 1
        secs += t
        samples.append(dict(obligation=title, verdict=verdict, witness=w, solver_s=t))
        if verdict == "unsat":
            dis += 1
        elif verdict == "sat" and confirm(w):
            status = "VIOLATION"
            viol.append(dict(detail="%s fails on the real regex" % title, input=repr(w),
                             finding_key="C06-grammar-" + title.split()[0]))
        else:
            status = "BOUNDED" if status == "PROVED" else status
    return dict(status=status, obligations=obl, discharged=dis, queries=q, solver_s=round(secs, 2),
                samples=samples + [dict(validate=v) for v in vals], violations=viol,
                trusted_base=["z3 %s seq/re theory" % z3.get_version_string(), "engines/rxsmt.py translator "
                              "(validated on this run against re.fullmatch on %d strings)"
                              % sum(v["checked"] for v in vals), "re._parser.parse (CPython)"],
                assumptions=["code points above 0x2FFFF are outside z3's character sort",
                             "reference grammars for token / field-value written from RFC 9110 5.1, 5.5"])


def _is_token(w):
    return len(w) > 0 and all(c in "!#$%&'*+-.^_`|~0123456789abcdefghijklmnopqrstuvwxyzABCDEFGHIJKLMNOPQRSTUVWXYZ"
                              for c in w)


EXTRAS = {"x_grammar": dict(fn=x_grammar, wall=300)}
TECHNIQUE = "CrossHair symbolic execution of the real HTTPHeaders against a dict-of-lists model + z3 regex obligations"
