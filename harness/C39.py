"""C39 - PeriodicCallback stays on its grid, skips missed periods, never overlaps.

Part 1 (EXTRAS, Engine C = engines/pyk.py): `PeriodicCallback._update_next` is translated from its
CURRENT source (inspect.getsource + ast) into z3 terms and the arithmetic clauses of the statement are
discharged as `unsat` obligations - over the reals (all p > 0, any n, t) and in IEEE arithmetic
(see harness/_native_c39.py for the exact list, formats and tolerances).
Part 2 (CrossHair): the run loop start/_run/_schedule_next/stop on the virtual loop.
"""
from typing import List, Tuple

from vp.api import P, harness, in_shard, reached
from vp.env import install

from tornado import ioloop

LEVEL = "model_checking"
TECHNIQUE = ("CrossHair symbolic execution of PeriodicCallback.start/_run/_schedule_next/stop on a virtual "
             "loop + direct z3 obligations (Real/Int and IEEE floating point) generated from the live source "
             "of PeriodicCallback._update_next by a Python-AST->z3 translator (engines/pyk.py)")


class _Log:
    """stand-in for tornado.ioloop.app_log (records instead of formatting tracebacks)."""

    def __init__(self):
        self.errors = []

    def error(self, msg, *args, **kw):
        self.errors.append(msg)

    warning = info = debug = exception = error


ADV = (1, 3, 0, 2)      # clock advance (seconds) per step code; quick uses the first 2
PERIODS_MS = (1000, 2000)


def pre_run(kind: int, per: int, steps: List[Tuple[int, int]]) -> bool:
    if not (0 <= kind <= 3 and 0 <= per <= 1 and len(steps) <= P.N):
        return False
    for adv, act in steps:
        if not (0 <= adv < P.A and 0 <= act <= 2):
            return False
    return in_shard(kind + 4 * per + 8 * (steps[0][0] if len(steps) > 0 else 0))


@harness(
    pre=pre_run,
    quick=dict(N=3, A=2, timeout=200, reach_timeout=60),
    thorough=dict(N=4, A=4, timeout=1200, reach_timeout=90),
    nshards=dict(quick=16, thorough=32),
    reach=["skipped_periods", "overrun_no_overlap", "stop_while_in_flight", "raising_callback_continues"],
    units=["ioloop.PeriodicCallback.start", "ioloop.PeriodicCallback._run",
           "ioloop.PeriodicCallback._schedule_next", "ioloop.PeriodicCallback._update_next",
           "ioloop.PeriodicCallback.stop", "ioloop.IOLoop.add_timeout", "ioloop.IOLoop._run_callback",
           "ioloop.IOLoop.add_future", "gen.convert_yielded"],
    stubs=["VLoop/FakeAio virtual loop and integral virtual clock (vp/env.py): timers never fire early, "
           "(deadline, insertion) order; callbacks FIFO",
           "tornado.ioloop.app_log replaced by a recorder",
           "period is 1000 ms or 2000 ms (callback_time/1000.0 integral) and the clock advances by whole seconds "
           "chosen per step from {1,3} (thorough {0,1,2,3}); all arithmetic on a path is concrete - the "
           "arithmetic for arbitrary reals/floats is the subject of the z3 obligations (extras)",
           "callback kinds: 0 sync, 1 coroutine that finishes when the harness completes its future, "
           "2 sync raising, 3 coroutine raising after its future completes"],
    outside=["start() again after stop()", "jitter in the run loop (kernel obligations cover it)",
             "more than N steps", "clock going backwards in the run loop (kernel obligations cover it)"],
)
def h_run(kind: int, per: int, steps: List[Tuple[int, int]]):
    """never two invocations in flight; nothing runs after stop; scheduled deadlines strictly increase,
    lie on the grid, are not before 'now' and at most one period after it; no tick is lost."""
    log = _Log()
    saved = ioloop.app_log
    ioloop.app_log = log
    try:
        with install() as env:
            period = 1 if per == 0 else 2
            ms = PERIODS_MS[0] if per == 0 else PERIODS_MS[1]
            st = dict(in_flight=0, starts=[], stopped=False, fut=None, n=0)
            deadlines = []
            viol = []

            def sync_cb():
                # (recorded, not asserted here: _run swallows and logs exceptions of the callback)
                if st["in_flight"] != 0:
                    viol.append("invocation started while the previous one is still running")
                if st["stopped"]:
                    viol.append("callback invoked after stop()")
                st["starts"].append(env.v.now)
                st["n"] += 1
                if kind == 2:
                    raise ValueError("boom")

            async def coro_cb():
                # (recorded, not asserted here: _run swallows and logs exceptions of the callback)
                if st["in_flight"] != 0:
                    viol.append("invocation started while the previous one is still running")
                if st["stopped"]:
                    viol.append("callback invoked after stop()")
                st["starts"].append(env.v.now)
                st["n"] += 1
                st["in_flight"] += 1
                st["fut"] = env.aio.create_future()
                try:
                    await st["fut"]
                finally:
                    st["in_flight"] -= 1
                if kind == 3:
                    raise ValueError("boom")

            pc = ioloop.PeriodicCallback(sync_cb if kind in (0, 2) else coro_cb, ms)
            real_call_at = env.loop.call_at

            def rec_call_at(when, callback, *a, **kw):
                deadlines.append((when, env.v.now))
                return real_call_at(when, callback, *a, **kw)

            env.loop.call_at = rec_call_at
            t0 = env.v.now
            pc.start()
            assert pc.is_running()
            now = t0
            for adv, act in steps:
                ca = ADV[0] if adv == 0 else ADV[1] if adv == 1 else ADV[2] if adv == 2 else ADV[3]
                before = st["n"]
                env.advance(ca)
                now += ca
                if ca > period and st["n"] > before and not st["stopped"]:
                    reached("skipped_periods")
                if act == 1:
                    f = st["fut"]
                    if f is not None and not f.done():
                        if st["starts"] and now - st["starts"][-1] >= period and not st["stopped"]:
                            reached("overrun_no_overlap")
                        if st["stopped"]:
                            reached("stop_while_in_flight")
                        f.set_result(None)
                        env.run_ready()
                elif act == 2:
                    pc.stop()
                    st["stopped"] = True
                    assert not pc.is_running()
                    env.run_ready()
                # ---- invariants after every step
                assert not viol, viol[0] if viol else ""
                if not st["stopped"]:
                    live = env.v.pending_timers()
                    if st["in_flight"] == 0:
                        assert len(live) == 1, "exactly one pending timer while idle, got %d" % len(live)
                        assert live[0].when > now, "idle with an overdue timer (lost tick)"
                    else:
                        assert len(live) == 0, "a timer is armed while an invocation is in flight"
                else:
                    assert len(env.v.pending_timers()) == 0, "timer still armed after stop()"
            # ---- deadlines
            prev = None
            for when, at in deadlines:
                assert when >= at, "scheduled before the current time"
                assert when <= at + period, "scheduled more than one period ahead (bunching/skip error)"
                assert (when - t0) % period == 0, "deadline off the grid start + k*period"
                if prev is not None:
                    assert when > prev, "deadline not later than the previous one"
                prev = when
            # every invocation started at or after a scheduled deadline, each deadline used at most once
            used = [when for when, at in deadlines]
            for i, s in enumerate(st["starts"]):
                assert i < len(used) and s >= used[i], "invocation %d ran before its deadline" % i
            if kind in (2, 3) and len(log.errors) > 0 and st["n"] >= 2:
                reached("raising_callback_continues")
            if kind in (0, 1):
                assert not log.errors, "unexpected error log %r" % (log.errors,)
            assert not env.v.exc_contexts, "exception escaped to the event loop: %r" % (env.v.exc_contexts,)
    finally:
        ioloop.app_log = saved


def _busy_advance(env, dt):
    """The loop was BUSY for dt seconds: the clock jumps first, then ONE loop iteration moves every due timer
    handle to the ready queue in (deadline, insertion) order and runs the ready queue FIFO - exactly what
    asyncio's BaseEventLoop._run_once does.  Anything a handle schedules with call_soon (e.g. the first step of
    the Task that wraps `async def _run`) therefore runs AFTER the other handles that were due in the same
    iteration.  Cancelled handles in the ready queue are skipped (VEnv.run_ready), as in asyncio.  (VEnv.advance
    models the idle loop: one timer at a time, queue drained in between.)"""
    v = env.v
    v.run_ready()
    v.now = v.now + dt
    for _ in range(50):
        due = [h for h in v.timers if not h.cancelled and h.when <= v.now]
        if not due:
            break
        due.sort(key=lambda h: (h.when, h.seq))
        for h in due:
            v.timers.remove(h)
            v.ready.append(h)
        v.run_ready()
    v.timers = [h for h in v.timers if not h.cancelled]


PRE_STEPS = ((0, 0), (1, 0), (3, 0), (1, 1))     # (idle advance, complete?) before the stop timer is armed


def pre_race(kind: int, per: int, pre: int, off: int, adv: int, busy: bool, comp: bool) -> bool:
    if not (0 <= kind <= 3 and 0 <= per <= 1 and 0 <= pre <= 3 and 0 <= off <= 3 and 0 <= adv <= 2):
        return False
    return in_shard(kind + 4 * per + 8 * (1 if busy else 0))


@harness(
    pre=pre_race,
    quick=dict(timeout=150, reach_timeout=60),
    thorough=dict(timeout=600, reach_timeout=60),
    nshards=dict(quick=16, thorough=16),
    reach=["stop_between_handle_and_body", "stop_first_cancels_armed_timer", "stop_while_coroutine_in_flight"],
    units=["ioloop.PeriodicCallback.start", "ioloop.PeriodicCallback._run", "ioloop.PeriodicCallback._schedule_next",
           "ioloop.PeriodicCallback.stop", "ioloop.IOLoop.add_timeout", "ioloop.IOLoop._run_callback",
           "gen.convert_yielded (asyncio Task start of the `async def _run`)"],
    stubs=["VLoop/FakeAio virtual loop (vp/env.py) + harness-local _busy_advance: one asyncio-style loop iteration in "
           "which ALL due timer handles are queued in (deadline, insertion) order before any of them runs, so a Task "
           "step scheduled by one handle runs after the other due handles",
           "pc._run is wrapped on the instance to count handle firings and body starts; the real coroutine runs",
           "a second timer calling pc.stop() is armed (after the optional pre-step) at <last periodic deadline> + off, "
           "off in 0..3: same deadline (registered after the periodic handle), between grid points, or a later grid "
           "point (registered BEFORE the periodic handle for that point exists)",
           "tornado.ioloop.app_log replaced by a recorder; period 1000/2000 ms; whole-second advances"],
    outside=["start() again after stop()", "stop() from another thread"],
)
def h_stop_race(kind: int, per: int, pre: int, off: int, adv: int, busy: bool, comp: bool):
    """stop() from another timer that is due in the same loop iteration as the periodic handle (either order):
    no invocation may START after stop() returned, no timer stays armed, never two invocations in flight."""
    log = _Log()
    saved = ioloop.app_log
    ioloop.app_log = log
    try:
        with install() as env:
            period = 1 if per == 0 else 2
            ms = PERIODS_MS[0] if per == 0 else PERIODS_MS[1]
            st = dict(in_flight=0, stopped=False, fut=None, n=0, fired=0, body=0, n_at_stop=None, arming=False)
            armed = []
            viol = []

            def sync_cb():
                if st["in_flight"] != 0:
                    viol.append("invocation started while the previous one is still running")
                if st["stopped"]:
                    viol.append("callback invoked after stop() returned")
                st["n"] += 1
                if kind == 2:
                    raise ValueError("boom")

            async def coro_cb():
                if st["in_flight"] != 0:
                    viol.append("invocation started while the previous one is still running")
                if st["stopped"]:
                    viol.append("callback invoked after stop() returned")
                st["n"] += 1
                st["in_flight"] += 1
                st["fut"] = env.aio.create_future()
                try:
                    await st["fut"]
                finally:
                    st["in_flight"] -= 1
                if kind == 3:
                    raise ValueError("boom")

            pc = ioloop.PeriodicCallback(sync_cb if kind in (0, 2) else coro_cb, ms)
            real_run = pc._run

            async def body():
                st["body"] += 1
                await real_run()

            def counted_run():
                st["fired"] += 1
                return body()

            pc._run = counted_run
            real_call_at = env.loop.call_at

            def rec_call_at(when, callback, *a, **kw):
                if not st["arming"]:
                    armed.append(when)
                return real_call_at(when, callback, *a, **kw)

            env.loop.call_at = rec_call_at
            pc.start()

            def complete():
                f = st["fut"]
                if f is not None and not f.done():
                    if st["stopped"]:
                        reached("stop_while_coroutine_in_flight")
                    f.set_result(None)
                    env.run_ready()

            p_adv, p_comp = PRE_STEPS[0] if pre == 0 else PRE_STEPS[1] if pre == 1 else PRE_STEPS[2] if pre == 2 \
                else PRE_STEPS[3]
            if p_adv:
                env.advance(p_adv)
            if p_comp:
                complete()
            assert not viol, viol[0] if viol else ""
            co = 0 if off == 0 else 1 if off == 1 else 2 if off == 2 else 3
            stop_at = armed[-1] + co

            hit = []        # reach tags seen inside the callback (raised outside: _run_callback swallows exceptions)

            def stopper():
                if st["fired"] > st["body"]:
                    hit.append("stop_between_handle_and_body")
                if len(armed) > st["fired"] and armed[-1] == stop_at and st["in_flight"] == 0:
                    hit.append("stop_first_cancels_armed_timer")
                pc.stop()
                st["stopped"] = True
                st["n_at_stop"] = st["n"]

            st["arming"] = True
            env.loop.add_timeout(stop_at, stopper)
            st["arming"] = False
            ca = 1 if adv == 0 else 2 if adv == 1 else 3
            if busy:
                _busy_advance(env, ca)
            else:
                env.advance(ca)
            assert not viol, viol[0] if viol else ""
            for tag in hit:
                reached(tag)
            if comp:
                complete()
            env.advance(3)
            complete()
            env.advance(3)
            assert not viol, viol[0] if viol else ""
            assert st["in_flight"] == 0
            if st["stopped"]:
                assert st["n"] == st["n_at_stop"], "an invocation started after stop() returned"
                assert not pc.is_running()
                assert len(env.v.pending_timers()) == 0, "timer still armed after stop()"
            else:
                assert len(env.v.pending_timers()) == 2, "periodic timer and stop timer should both be pending"
            if kind in (0, 1):
                assert not log.errors, "unexpected error log %r" % (log.errors,)
            assert not env.v.exc_contexts, "exception escaped to the event loop: %r" % (env.v.exc_contexts,)
    finally:
        ioloop.app_log = saved


# ----------------------------------------------------------------------------------------------
# timedelta periods that are NOT a whole number of milliseconds ("any period of at least a microsecond")
U_POOL = (1, 999, 1000, 1001, 1500, 15625, 2000, 333333, 1000000, 1234567, 4999999, 5000000, 500, 62500, 7, 100001)
TD_POOL = (1500, 15625, 999, 2000)                 # microseconds
ADV_POOL = ((7, 10000), (2, 1000), (101, 10000))   # clock advances as exact rationals (num, den) seconds


def _pick(pool, i):
    """pool[i] by branching (keeps every value concrete on its path)"""
    for j in range(len(pool) - 1):
        if i == j:
            return pool[j]
    return pool[len(pool) - 1]


def pre_init(ui: int, as_float: bool) -> bool:
    return 0 <= ui < len(U_POOL)


@harness(
    pre=pre_init,
    quick=dict(timeout=60, reach_timeout=30),
    thorough=dict(timeout=60, reach_timeout=30),
    nshards=1,
    reach=["sub_millisecond", "non_integral_ms"],
    units=["ioloop.PeriodicCallback.__init__ (timedelta -> milliseconds conversion)", "ioloop.PeriodicCallback._update_next"],
    stubs=["the period u (microseconds) is chosen by the solver from a pool of 16 values (multiples and non-multiples of "
           "1000, below 1 ms, up to 5 s) - datetime.timedelta is a C type and needs a concrete argument; for ALL integer "
           "u >= 1 the conversion is proved by the extra init_conv on the source of __init__"],
    outside=["timedelta periods outside the pool in this harness (see extra init_conv)"],
)
def h_init(ui: int, as_float: bool):
    """callback_time (ms) keeps the exact period: callback_time == u/1000 (correctly rounded) and the period used by
    _update_next is u microseconds within one rounding; equal to what the float form PeriodicCallback(cb, u/1000) gets."""
    import datetime
    from fractions import Fraction
    u = _pick(U_POOL, ui)
    if as_float:
        pc = ioloop.PeriodicCallback(lambda: None, u / 1000)
    else:
        pc = ioloop.PeriodicCallback(lambda: None, datetime.timedelta(microseconds=u))
    ct = pc.callback_time
    assert ct > 0, "period of %d us became %r ms" % (u, ct)
    assert ct == u / 1000, "callback_time %r ms is not the period %d us" % (ct, u)
    err = abs(Fraction(ct) * 1000 - u)
    assert err * (1 << 52) <= u, "callback_time %r ms is not within one rounding of %d us" % (ct, u)
    if u < 1000:
        reached("sub_millisecond")
    if u % 1000:
        reached("non_integral_ms")
    # one scheduling step from a grid point lands on the next grid point (exact rational check)
    pc._next_timeout = 1000
    pc._update_next(1000)
    got = Fraction(pc._next_timeout) - 1000
    assert abs(got - Fraction(u, 1000000)) <= Fraction(1, 10 ** 9), \
        "first deadline %r is not start + period (%d us)" % (pc._next_timeout, u)


def pre_td(pi: int, steps: List[int]) -> bool:
    if not (0 <= pi < len(TD_POOL) and len(steps) <= P.N):
        return False
    for a in steps:
        if not 0 <= a < 2 * len(ADV_POOL):
            return False
    return in_shard(pi)


@harness(
    pre=pre_td,
    quick=dict(N=3, timeout=120, reach_timeout=40),
    thorough=dict(N=4, timeout=600, reach_timeout=60),
    nshards=4,
    reach=["td_skipped_periods", "td_many_runs"],
    units=["ioloop.PeriodicCallback.__init__", "ioloop.PeriodicCallback.start", "ioloop.PeriodicCallback._run",
           "ioloop.PeriodicCallback._schedule_next", "ioloop.PeriodicCallback._update_next", "ioloop.IOLoop.add_timeout"],
    stubs=["VLoop/FakeAio virtual loop (vp/env.py); the clock starts at 1000 s and advances by 0.7 ms, 2 ms or 10.1 ms per "
           "step (floats, concrete per path), either idle (timers fire one by one) or busy (clock jumps first: missed periods "
           "must be skipped)", "period = timedelta(microseconds=u), u from {1500, 15625, 999, 2000}",
           "grid / ordering checks in exact rational arithmetic (fractions) with tolerance 1e-9 s (ulp(1000 s) = 1.1e-13 s)"],
    outside=["other periods in the run loop (kernel obligations and h_init cover the arithmetic)"],
)
def h_run_td(pi: int, steps: List[int]):
    """run loop with a timedelta period that is not a whole number of ms: deadlines strictly increase, lie on
    start + k*period, are not before now and at most one period after it; every invocation at/after its deadline."""
    import datetime
    from fractions import Fraction
    log = _Log()
    saved = ioloop.app_log
    ioloop.app_log = log
    try:
        with install() as env:
            u = _pick(TD_POOL, pi)
            period = Fraction(u, 1000000)
            tol = Fraction(1, 10 ** 9)
            runs = []
            deadlines = []
            pc = ioloop.PeriodicCallback(lambda: runs.append(env.v.now), datetime.timedelta(microseconds=u))
            real_call_at = env.loop.call_at

            def rec_call_at(when, callback, *a, **kw):
                deadlines.append((when, env.v.now))
                return real_call_at(when, callback, *a, **kw)

            env.loop.call_at = rec_call_at
            t0 = Fraction(env.v.now)
            pc.start()
            for a in steps:
                busy = a >= len(ADV_POOL)
                num, den = _pick(ADV_POOL, a - len(ADV_POOL) if busy else a)
                before = len(runs)
                if busy:
                    _busy_advance(env, num / den)     # the loop was blocked: the clock jumps past several periods
                else:
                    env.advance(num / den)
                if busy and Fraction(num, den) > 2 * period and len(runs) == before + 1:
                    reached("td_skipped_periods")
            if len(runs) >= 5:
                reached("td_many_runs")
            prev = None
            for when, at in deadlines:
                w, n = Fraction(when), Fraction(at)
                k = round((w - t0) / period)
                assert k >= 1 and abs(w - (t0 + k * period)) <= tol, \
                    "deadline %r is off the grid start + k*%d us" % (when, u)
                assert w >= n - tol, "scheduled before the current time"
                assert w <= n + period + tol, "scheduled more than one period ahead"
                if prev is not None:
                    assert w > prev, "deadline not later than the previous one"
                prev = w
            for i, r in enumerate(runs):
                assert i < len(deadlines) and Fraction(r) >= Fraction(deadlines[i][0]), "invocation before its deadline"
            live = env.v.pending_timers()
            assert len(live) == 1 and live[0].when > env.v.now, "exactly one future timer must be armed"
            assert not log.errors and not env.v.exc_contexts
    finally:
        ioloop.app_log = saved


def _kernel_real(tier, seed):
    from harness import _native_c39
    return _native_c39.run_real(tier, seed)


def _init_conv(tier, seed):
    from harness import _native_c39
    return _native_c39.run_init(tier, seed)


def _kernel_fp_a(tier, seed):
    from harness import _native_c39
    return _native_c39.run_fp(tier, seed, "a")


def _kernel_fp_b(tier, seed):
    from harness import _native_c39
    return _native_c39.run_fp(tier, seed, "b")


def _kernel_fp_c(tier, seed):
    from harness import _native_c39
    return _native_c39.run_fp(tier, seed, "c")


EXTRAS = {
    "kernel_real": dict(fn=_kernel_real, wall=300),
    "init_conv": dict(fn=_init_conv, wall=300),
    "kernel_fp_a": dict(fn=_kernel_fp_a, wall=3000),
    "kernel_fp_b": dict(fn=_kernel_fp_b, wall=3000),
    "kernel_fp_c": dict(fn=_kernel_fp_c, wall=3000),
}
