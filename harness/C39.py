"""C39 - PeriodicCallback stays on its grid, skips missed periods, never overlaps.

Part 1 (EXTRAS, Engine C = engines/pyk.py): `PeriodicCallback._update_next` is translated from its
CURRENT source (inspect.getsource + ast) into z3 terms and the arithmetic clauses of the statement are
discharged as `unsat` obligations - over the reals (all p > 0, any n, t) and in IEEE arithmetic
(see harness/_native_c39.py for the exact list, formats and tolerances).
Part 2 (CrossHair): the run loop start/_run/_schedule_next/stop on the virtual loop.
"""
from typing import List, Tuple

from vp.api import P, harness, in_shard, reached
from vp.env import install

from tornado import ioloop

LEVEL = "model_checking"
TECHNIQUE = ("CrossHair symbolic execution of PeriodicCallback.start/_run/_schedule_next/stop on a virtual "
             "loop + direct z3 obligations (Real/Int and IEEE floating point) generated from the live source "
             "of PeriodicCallback._update_next by a Python-AST->z3 translator (engines/pyk.py)")


class _Log:
    """stand-in for tornado.ioloop.app_log (records instead of formatting tracebacks)."""

    def __init__(self):
        self.errors = []

    def error(self, msg, *args, **kw):
        self.errors.append(msg)

    warning = info = debug = exception = error


ADV = (1, 3, 0, 2)      # clock advance (seconds) per step code; quick uses the first 2
PERIODS_MS = (1000, 2000)


def pre_run(kind: int, per: int, steps: List[Tuple[int, int]]) -> bool:
    if not (0 <= kind <= 3 and 0 <= per <= 1 and len(steps) <= P.N):
        return False
    for adv, act in steps:
        if not (0 <= adv < P.A and 0 <= act <= 2):
            return False
    return in_shard(kind + 4 * per + 8 * (steps[0][0] if len(steps) > 0 else 0))


@harness(
    pre=pre_run,
    quick=dict(N=3, A=2, timeout=200, reach_timeout=60),
    thorough=dict(N=4, A=4, timeout=1200, reach_timeout=90),
    nshards=dict(quick=16, thorough=32),
    reach=["skipped_periods", "overrun_no_overlap", "stop_while_in_flight", "raising_callback_continues"],
    units=["ioloop.PeriodicCallback.start", "ioloop.PeriodicCallback._run",
           "ioloop.PeriodicCallback._schedule_next", "ioloop.PeriodicCallback._update_next",
           "ioloop.PeriodicCallback.stop", "ioloop.IOLoop.add_timeout", "ioloop.IOLoop._run_callback",
           "ioloop.IOLoop.add_future", "gen.convert_yielded"],
    stubs=["VLoop/FakeAio virtual loop and integral virtual clock (vp/env.py): timers never fire early, "
           "(deadline, insertion) order; callbacks FIFO",
           "tornado.ioloop.app_log replaced by a recorder",
           "period is 1000 ms or 2000 ms (callback_time/1000.0 integral) and the clock advances by whole seconds "
           "chosen per step from {1,3} (thorough {0,1,2,3}); all arithmetic on a path is concrete - the "
           "arithmetic for arbitrary reals/floats is the subject of the z3 obligations (extras)",
           "callback kinds: 0 sync, 1 coroutine that finishes when the harness completes its future, "
           "2 sync raising, 3 coroutine raising after its future completes"],
    outside=["start() again after stop()", "jitter in the run loop (kernel obligations cover it)",
             "more than N steps", "clock going backwards in the run loop (kernel obligations cover it)"],
)
def h_run(kind: int, per: int, steps: List[Tuple[int, int]]):
    """never two invocations in flight; nothing runs after stop; scheduled deadlines strictly increase,
    lie on the grid, are not before 'now' and at most one period after it; no tick is lost."""
    log = _Log()
    saved = ioloop.app_log
    ioloop.app_log = log
    try:
        with install() as env:
            period = 1 if per == 0 else 2
            ms = PERIODS_MS[0] if per == 0 else PERIODS_MS[1]
            st = dict(in_flight=0, starts=[], stopped=False, fut=None, n=0)
            deadlines = []
            viol = []

            def sync_cb():
                # (recorded, not asserted here: _run swallows and logs exceptions of the callback)
                if st["in_flight"] != 0:
                    viol.append("invocation started while the previous one is still running")
                if st["stopped"]:
                    viol.append("callback invoked after stop()")
                st["starts"].append(env.v.now)
                st["n"] += 1
                if kind == 2:
                    raise ValueError("boom")

            async def coro_cb():
                # (recorded, not asserted here: _run swallows and logs exceptions of the callback)
                if st["in_flight"] != 0:
                    viol.append("invocation started while the previous one is still running")
                if st["stopped"]:
                    viol.append("callback invoked after stop()")
                st["starts"].append(env.v.now)
                st["n"] += 1
                st["in_flight"] += 1
                st["fut"] = env.aio.create_future()
                try:
                    await st["fut"]
                finally:
                    st["in_flight"] -= 1
                if kind == 3:
                    raise ValueError("boom")

            pc = ioloop.PeriodicCallback(sync_cb if kind in (0, 2) else coro_cb, ms)
            real_call_at = env.loop.call_at

            def rec_call_at(when, callback, *a, **kw):
                deadlines.append((when, env.v.now))
                return real_call_at(when, callback, *a, **kw)

            env.loop.call_at = rec_call_at
            t0 = env.v.now
            pc.start()
            assert pc.is_running()
            now = t0
            for adv, act in steps:
                ca = ADV[0] if adv == 0 else ADV[1] if adv == 1 else ADV[2] if adv == 2 else ADV[3]
                before = st["n"]
                env.advance(ca)
                now += ca
                if ca > period and st["n"] > before and not st["stopped"]:
                    reached("skipped_periods")
                if act == 1:
                    f = st["fut"]
                    if f is not None and not f.done():
                        if st["starts"] and now - st["starts"][-1] >= period and not st["stopped"]:
                            reached("overrun_no_overlap")
                        if st["stopped"]:
                            reached("stop_while_in_flight")
                        f.set_result(None)
                        env.run_ready()
                elif act == 2:
                    pc.stop()
                    st["stopped"] = True
                    assert not pc.is_running()
                    env.run_ready()
                # ---- invariants after every step
                assert not viol, viol[0] if viol else ""
                if not st["stopped"]:
                    live = env.v.pending_timers()
                    if st["in_flight"] == 0:
                        assert len(live) == 1, "exactly one pending timer while idle, got %d" % len(live)
                        assert live[0].when > now, "idle with an overdue timer (lost tick)"
                    else:
                        assert len(live) == 0, "a timer is armed while an invocation is in flight"
                else:
                    assert len(env.v.pending_timers()) == 0, "timer still armed after stop()"
            # ---- deadlines
            prev = None
            for when, at in deadlines:
                assert when >= at, "scheduled before the current time"
                assert when <= at + period, "scheduled more than one period ahead (bunching/skip error)"
                assert (when - t0) % period == 0, "deadline off the grid start + k*period"
                if prev is not None:
                    assert when > prev, "deadline not later than the previous one"
                prev = when
            # every invocation started at or after a scheduled deadline, each deadline used at most once
            used = [when for when, at in deadlines]
            for i, s in enumerate(st["starts"]):
                assert i < len(used) and s >= used[i], "invocation %d ran before its deadline" % i
            if kind in (2, 3) and len(log.errors) > 0 and st["n"] >= 2:
                reached("raising_callback_continues")
            if kind in (0, 1):
                assert not log.errors, "unexpected error log %r" % (log.errors,)
            assert not env.v.exc_contexts, "exception escaped to the event loop: %r" % (env.v.exc_contexts,)
    finally:
        ioloop.app_log = saved


def _kernel_real(tier, seed):
    from harness import _native_c39
    return _native_c39.run_real(tier, seed)


def _kernel_fp_a(tier, seed):
    from harness import _native_c39
    return _native_c39.run_fp(tier, seed, "a")


def _kernel_fp_b(tier, seed):
    from harness import _native_c39
    return _native_c39.run_fp(tier, seed, "b")


def _kernel_fp_c(tier, seed):
    from harness import _native_c39
    return _native_c39.run_fp(tier, seed, "c")


EXTRAS = {
    "kernel_real": dict(fn=_kernel_real, wall=300),
    "kernel_fp_a": dict(fn=_kernel_fp_a, wall=3000),
    "kernel_fp_b": dict(fn=_kernel_fp_b, wall=3000),
    "kernel_fp_c": dict(fn=_kernel_fp_c, wall=3000),
}
