"""C44 - Command-line and config options parse to the values they denote.

Real code driven: tornado.options.OptionParser.define / parse_command_line / parse_config_file (value
handling) / __getattr__, _Option.parse / set / value / _parse_bool / _parse_string / _parse_timedelta /
_parse_datetime, on a fresh OptionParser per path.
Oracle (statement): the parsed value equals the value the text denotes, options that were not set keep
their defaults, unknown option names and values that do not denote a value of the option's type raise
(any Exception counts as "rejected with an error"; Tornado raises options.Error, ValueError or Exception
depending on the type) instead of being silently accepted.
"""
import datetime
import io

from vp.api import P, harness, in_shard, reached

import tornado.options as to

from harness._misc1_dt import shim_str

# spellings for booleans: true/1/t and false/0/f (any case) give their value, anything else - including the
# customary yes/no/on/off, which Tornado does not accept - must be rejected with an error
TRUE_WORDS = ("true", "1", "t")
FALSE_WORDS = ("false", "0", "f")
BOOL_POOL = ("true", "True", "TRUE", "tRuE", "1", "t", "T", "false", "False", "FALSE", "0", "f", "F",
             "yes", "Yes", "y", "on", "ON", "no", "No", "n", "off", "OFF",
             "banana", "2", "", "tru", "falsee", "-1", "none", "null", " true", "01")
NAMES = ("num", "txt", "flag", "nums", "other", "under-score", "help")


def _parser():
    p = to.OptionParser()
    p.__dict__["print_help"] = lambda file=None: None     # stub: no usage text on stderr
    p.define("num", default=7, type=int)
    p.define("txt", default="dflt", type=str)
    p.define("flag", default=None, type=bool)
    p.define("nums", type=int, multiple=True)
    p.define("other", default=99)                         # type inferred from the default: int
    p.define("under_score", default=5, type=int)
    return p


def _defaults_except(p, *names):
    want = dict(num=7, txt="dflt", flag=None, nums=[], other=99, under_score=5)
    for k, v in want.items():
        if k not in names:
            got = getattr(p, k)
            assert got == v and type(got) is type(v), \
                "option %s was not set but its value is %r, default %r" % (k, got, v)


def _bool_expect(text):
    """-> (must_be, None): must_be in (True, False, None = must raise)."""
    low = text.lower()
    if low in TRUE_WORDS:
        return True, None
    if low in FALSE_WORDS:
        return False, None
    return None, None


def _check_bool(text, raised, got):
    must, may = _bool_expect(text)
    if must is not None:
        reached("bool_canonical")
        assert raised is None and got is must, \
            "bool option given %r: expected %r, got %r (raised %r)" % (text, must, got, raised)
    else:
        reached("bool_garbage")
        assert raised is not None, \
            "bool option given %r, which is not a boolean spelling, was silently accepted as %r" % (text, got)


def classify_bool_text(text):
    must, may = _bool_expect(text)
    if must is None:
        return "parse_bool_accepts_any_spelling"
    return None


# ------------------------------------------------------------------------------------------------ CLI
ALPHA = ("a", "n", "_", "x", "\u00e9", ".", " ", "+")
BAD_INT_WORDS = ("abc", "1.5", "0x10", "1e3", "1 2", "--1", "1-", "", "one", "1,2")
UNKNOWN_WORDS = ("numm", "nu", "hel", "flagg", "unknown", "n_m", "Num", "x", "under", "other2")


def _digits(v):
    """decimal text of an int, one code point per digit (integer expressions of v); see _misc1_dt.shim_str"""
    return shim_str(v)


def _word(n, i, j):
    if n == 0:
        return ""
    if n == 1:
        return ALPHA[i % 8]
    return ALPHA[i % 8] + ALPHA[j % 8]


def pre_cli(kind: int, form: int, v: int, hi: int, s: str, second: int, v2: int) -> bool:
    if not (0 <= kind <= 5 and 0 <= form <= 3 and -P.S <= v <= P.V and 0 <= hi - v <= 3
            and len(s) <= P.L and 0 <= second <= 2 and 0 <= v2 <= P.V):
        return False
    if v < 0 and not (kind == 0 and form == 1):
        return False                      # signed text is realised by int(): small magnitudes only
                                          # (signed range bounds: see h_ranges)
    if kind == 0 and form == 1 and v > P.S:
        return False
    if kind != 2 and len(s) != 0:
        return False                      # s is used by the str option only
    if kind == 3:
        if second != 0 or form == 2:
            return False
        if form == 1 and not (0 <= v < len(BOOL_POOL)):
            return False
        if form == 0 and not (v < 8 and v2 < 8 and hi - v <= 2):
            return False
    if kind in (1, 5):
        # form 0/1: pooled word number v; form 2/3: word of hi-v (0..2) letters ALPHA[v % 8], ALPHA[v2 % 8]
        if form < 2 and not (0 <= v < 10):
            return False
        if form >= 2 and not (v < 8 and v2 < 8 and hi - v <= 2):
            return False
    # kind 4 (ranges/lists with fully symbolic non-negative bounds) is the expensive one: one shard per form
    key = kind * 3 + second if kind < 4 else 12 + form * 3 + second if kind == 4 else 24 + second
    return in_shard(key)


BOOLA = ("t", "f", "0", "1", "y", "n", "T", "x")


def _bool_text(form, v, hi, v2):
    if form == 1:
        return BOOL_POOL[v]
    n = hi - v
    return "" if n == 0 else BOOLA[v % 8] if n == 1 else BOOLA[v % 8] + BOOLA[v2 % 8]


def classify_cli(kind, form, v, hi, s, second, v2):
    if kind == 3 and form != 3:
        return classify_bool_text(_bool_text(form, v, hi, v2))
    return None


@harness(
    pre=pre_cli,
    quick=dict(V=10 ** 4, S=12, L=3, timeout=150, per_path_timeout=40),
    thorough=dict(V=10 ** 6, S=40, L=5, timeout=900, per_path_timeout=60),
    nshards=dict(quick=27, thorough=27),
    reach=["int_ok", "int_signed_ok", "int_rejected", "str_ok", "bool_canonical", "bool_garbage", "multi_range",

           "unknown_rejected", "two_options"],
    units=["options.OptionParser.define", "options.OptionParser.parse_command_line",
           "options.OptionParser.__getattr__", "options._Option.parse", "options._Option.value",
           "options._Option._parse_bool", "options._Option._parse_string"],
    stubs=["OptionParser.print_help replaced by a no-op on the instance (usage text on stderr is not part "
           "of the claim)",
           "the erroneous outcome 'rejected' is any Exception (Tornado raises Error / ValueError)",
           "measured CrossHair limits: int() realises signed text and dict lookup realises option names, so "
           "non-negative ints 0..V are fully symbolic (digit arithmetic), signed text (+n / -n) only |n| <= S, "
           "signed range bounds and list items: harness h_ranges, "
           "non-integer text and unknown names are pooled words or <= 2 letters from ALPHA by symbolic index; "
           "bool spellings are the 33 pooled words or <= 2 letters of 'tf01ynTx' by symbolic index (str.lower on a "
           "free symbolic string did not finish); the str option value (any <= L code points) is fully symbolic"],
    outside=["int text forms other than [+-]digits (underscores, surrounding blanks, non-ASCII digits)",
             "values beyond V, strings longer than L code points, more than 2 options",
             "the returned `remaining` list", "float/datetime/timedelta (see h_pooled_types)"],
    classify=classify_cli,
)
def h_cli(kind: int, form: int, v: int, hi: int, s: str, second: int, v2: int):
    """argv = [prog, <option under test>, (optionally --other=<v2> before or after)]"""
    if classify_cli(kind, form, v, hi, s, second, v2) in P.exclude:
        return
    p = _parser()
    expect_error = False
    check = None
    text = None
    if kind == 0:         # int: plain and signed text, all spellings of the option name
        if form == 1:
            txt = _digits(v) if v < 0 else "+" + _digits(v)
            arg, name = "--num=" + txt, "num"
            reached("int_signed_ok")
        elif form == 0:
            arg, name = "--num=" + _digits(v), "num"
        elif form == 2:
            arg, name = "--under_score=" + _digits(v), "under_score"
        else:
            arg, name = "-under-score=" + _digits(v), "under_score"
        check = (name, v)
    elif kind == 1:       # int option (single or multiple) given text that is not an integer
        w = BAD_INT_WORDS[v] if form < 2 else _word(hi - v, v, v2)
        if form % 2 == 1 and "," in w:
            return                        # a comma separates values of a multiple option
        arg = "--num=" + w if form % 2 == 0 else "--nums=" + w
        expect_error = True
    elif kind == 2:       # str
        arg = "--txt=" + s
        check = ("txt", s)
    elif kind == 3:       # bool
        if form == 3:
            arg = "--flag"
        else:
            text = _bool_text(form, v, hi, v2)
            arg = "--flag=" + text
    elif kind == 4:       # multiple ints with ranges
        if form == 0:
            arg, want = "--nums=" + _digits(v), [v]
        elif form == 1:
            arg, want = "--nums=" + _digits(v) + ":" + _digits(hi), list(range(v, hi + 1))
            reached("multi_range")

        elif form == 2:
            arg, want = "--nums=" + _digits(v) + "," + _digits(hi), [v, hi]
        else:
            arg = "--nums=" + _digits(v) + ":" + _digits(hi) + "," + _digits(v2)
            want = list(range(v, hi + 1)) + [v2]

        check = ("nums", want)
    else:                 # unknown option name
        w = UNKNOWN_WORDS[v] if form < 2 else _word(hi - v, v, v2)
        if w.replace("_", "-") in NAMES or (w == "" and form % 2 == 1):
            return
        arg = "--" + w + "=1" if form % 2 == 0 else "--" + w
        expect_error = True

    argv = ["prog", arg]
    if second == 1:
        argv = ["prog", arg, "--other=" + str(v2)]
    elif second == 2:
        argv = ["prog", "--other=" + str(v2), arg]
    raised = None
    try:
        p.parse_command_line(argv)
    except Exception as e:
        raised = e

    if kind == 3:
        got = p.flag
        if text is None:
            assert raised is None and got is True, "--flag must mean true, got %r %r" % (got, raised)
        else:
            _check_bool(text, raised, got)
        if raised is None:
            _defaults_except(p, "flag", "other")
    elif expect_error:
        if kind == 5:
            reached("unknown_rejected")
            assert isinstance(raised, to.Error), \
                "unknown option %r was not rejected (raised %r)" % (arg, raised)
            if second != 2:
                _defaults_except(p)                 # nothing was set before the error
        else:
            reached("int_rejected")
            assert raised is not None, "int option given %r was silently accepted: num=%r nums=%r" % (
                arg, p.num, p.nums)
    else:
        assert raised is None, "valid command line %r was rejected: %r" % (argv, raised)
        name, want = check
        got = getattr(p, name)
        assert got == want and type(got) is type(want), \
            "%s: %r parsed to %r, denotes %r" % (name, arg, got, want)
        if kind == 0:
            reached("int_ok")
        if kind == 2:
            reached("str_ok")
        _defaults_except(p, name, "other")
    if raised is None:
        if second != 0:
            reached("two_options")
            assert p.other == v2 and type(p.other) is int, "--other=%d parsed to %r" % (v2, p.other)
        else:
            assert p.other == 99


# ------------------------------------------------------------------------------------------------ signed ranges
def _conc(v, lo):
    """concrete copy of a small solver int (branching), so that its text is an ordinary str"""
    k = lo
    while k < v:
        k += 1
    return k


def pre_ranges(lo: int, hi: int, x: int, form: int, cfg: bool) -> bool:
    return (-P.R <= lo <= P.R and 0 <= hi - lo <= P.W and -P.R <= x <= P.R and 0 <= form <= 4
            and in_shard(lo + P.R))


@harness(
    pre=pre_ranges,
    quick=dict(R=3, W=3, timeout=100),
    thorough=dict(R=6, W=5, timeout=600),
    nshards=dict(quick=7, thorough=13),
    reach=["range_negative_to_zero", "range_both_negative", "range_zero_zero", "range_across_zero",
           "range_in_list", "range_cfg"],
    units=["options._Option.parse", "options.OptionParser.parse_command_line",
           "options.OptionParser.parse_config_file"],
    stubs=["lo in -R..R, hi in lo..lo+W, extra list item x in -R..R are solver ints made concrete per path by "
           "branching (int() realises signed text anyway); forms: 'lo:hi', 'lo:hi,x', 'x,lo:hi', 'lo:hi,x:x', "
           "'x,lo:hi,x'; command line or config-file string",
           "OptionParser.print_help no-op; config file reading/exec replaced as in h_cfg"],
    outside=["bounds beyond +-R, ranges wider than W+1 values (larger non-negative bounds: h_cli)"],
)
def h_ranges(lo: int, hi: int, x: int, form: int, cfg: bool):
    """multiple int option given ranges with signed bounds: the value is exactly range(lo, hi+1) in place."""
    clo, chi, cx = _conc(lo, -P.R), _conc(hi, -P.R), _conc(x, -P.R)
    r = "%d:%d" % (clo, chi)
    full = list(range(clo, chi + 1))
    assert len(full) == chi - clo + 1 and full[0] == clo and full[-1] == chi
    if form == 0:
        text, want = r, full
    elif form == 1:
        text, want = r + ",%d" % cx, full + [cx]
    elif form == 2:
        text, want = "%d," % cx + r, [cx] + full
    elif form == 3:
        text, want = r + ",%d:%d" % (cx, cx), full + [cx]
    else:
        text, want = "%d,%s,%d" % (cx, r, cx), [cx] + full + [cx]
    if form != 0:
        reached("range_in_list")
    if clo < 0 and chi == 0:
        reached("range_negative_to_zero")
    if chi < 0:
        reached("range_both_negative")
    if clo == 0 and chi == 0:
        reached("range_zero_zero")
    if clo < 0 < chi:
        reached("range_across_zero")
    p = _parser()
    if cfg:
        reached("range_cfg")
    raised = None
    try:
        if cfg:
            _run_config(p, {"nums": text})
        else:
            p.parse_command_line(["prog", "--nums=" + text])
    except Exception as e:
        raised = e
    assert raised is None, "--nums=%s was rejected: %r" % (text, raised)
    got = p.nums
    assert got == want and all(type(g) is int for g in got), \
        "nums given %r parsed to %r, denotes %r" % (text, got, want)
    _defaults_except(p, "nums")


# ------------------------------------------------------------------------------------------------ config
def _run_config(p, namespace):
    """parse_config_file with file reading and exec replaced: the executed file's globals are `namespace`."""
    saved = (to.__dict__.get("open"), to.exec_in)

    def fake_exec(code, glob, loc=None):
        glob.update(namespace)

    to.open = lambda path, mode="rb": io.BytesIO(b"")
    to.exec_in = fake_exec
    try:
        p.parse_config_file("/nonexistent/misc1.cfg")
    finally:
        to.exec_in = saved[1]
        if saved[0] is None:
            del to.open
        else:
            to.open = saved[0]


def pre_cfg(kind: int, form: int, v: int, hi: int, s: str, b: bool) -> bool:
    if not (0 <= kind <= 4 and 0 <= form <= 3 and -P.V <= v <= P.V and 0 <= hi - v <= 2 and len(s) <= P.L):
        return False
    if kind == 2 and form == 1 and not (0 <= v < len(BOOL_POOL)):
        return False
    uses_s = (kind == 1 and form in (0, 3)) or (kind == 3 and form == 3) or kind == 4
    if not uses_s and len(s) != 0:
        return False
    if kind == 2 and form == 2 and not (0 <= v < 64):
        return False                      # 1 or 2 letters of BOOLA: v % 8, v // 8 (two letters when b)
    if b and not ((kind == 1 and form == 2) or (kind == 2 and form in (0, 2))):
        return False
    if hi != v and kind != 3:
        return False
    if ((kind == 0 and form == 1) or (kind == 3 and form == 1)) and v < (-P.S if kind == 0 else 0):
        return False                      # text forms: int() realises signed text (see h_cli)
    if kind == 4 and form % 2 == 1 and not (0 <= v < 8 and len(s) == 0):
        return False                      # unknown name "x" + ALPHA[v]: dict lookup realises names
    return in_shard(kind * 4 + form)


def classify_cfg(kind, form, v, hi, s, b):
    if kind == 2 and form == 1:
        return classify_bool_text(BOOL_POOL[v])
    if kind == 2 and form == 2:
        return classify_bool_text(_cfg_bool_word(v, b))
    return None


def _cfg_bool_word(v, b):
    return BOOLA[v % 8] + BOOLA[(v // 8) % 8] if b else BOOLA[v % 8]


@harness(
    pre=pre_cfg,
    quick=dict(V=10 ** 4, S=12, L=3, timeout=60, per_path_timeout=30),
    thorough=dict(V=10 ** 6, S=40, L=5, timeout=600, per_path_timeout=60),
    nshards=dict(quick=20, thorough=20),
    reach=["cfg_typed_ok", "cfg_string_parsed", "cfg_wrong_type_rejected", "cfg_list_ok", "bool_garbage"],
    units=["options.OptionParser.parse_config_file", "options._Option.set", "options._Option.parse",
           "options._Option._parse_bool"],
    stubs=["config file reading and exec_in replaced (tornado.options.open / exec_in): the namespace the file "
           "would produce is supplied directly; only the value handling of parse_config_file is covered",
           "'rejected' is any Exception"],
    outside=["bool objects given to int options (bool is an int subclass in Python; accepted)", "None values "
             "(accepted by design)", "the Python syntax of config files", "callbacks"],
    classify=classify_cfg,
)
def h_cfg(kind: int, form: int, v: int, hi: int, s: str, b: bool):
    if classify_cfg(kind, form, v, hi, s, b) in P.exclude:
        return
    p = _parser()
    expect_error = False
    name = want = None
    text = None
    if kind == 0:                       # int option
        name = "num"
        if form == 0:
            ns, want = {"num": v}, v
        elif form == 1:
            ns, want = {"num": _digits(v)}, v                # strings are parsed as on the command line
            reached("cfg_string_parsed")
        elif form == 2:
            ns, expect_error = {"num": 1.5}, True
        else:
            ns, expect_error = {"num": [v]}, True
    elif kind == 1:                     # str option
        name = "txt"
        if form == 0:
            ns, want = {"txt": s}, s
        elif form == 1:
            ns, expect_error = {"txt": v}, True
        elif form == 2:
            ns, expect_error = {"txt": b}, True
        else:
            ns, expect_error = {"txt": [s]}, True
    elif kind == 2:                     # bool option
        name = "flag"
        if form == 0:
            ns, want = {"flag": b}, b
        elif form == 1:
            text = BOOL_POOL[v]
            ns = {"flag": text}
        elif form == 2:
            text = _cfg_bool_word(v, b)
            ns = {"flag": text}
        else:
            if v == 0 or v == 1:
                return                  # 0/1 ints for a bool: debatable, outside
            ns, expect_error = {"flag": v}, True
    elif kind == 3:                     # multiple int option
        name = "nums"
        if form == 0:
            ns, want = {"nums": [v, hi]}, [v, hi]
            reached("cfg_list_ok")
        elif form == 1:
            ns, want = {"nums": _digits(v) + ":" + _digits(hi) + "," + _digits(v)}, list(range(v, hi + 1)) + [v]
        elif form == 2:
            ns, expect_error = {"nums": v}, True             # neither list nor string
        else:
            ns, expect_error = {"nums": [v, s]}, True        # list with an item of the wrong type
    else:                               # names: underscore/dash normalisation, unknown names are ignored
        if form % 2 == 0:
            ns, name, want = {"under_score": v, "unrelated": s}, "under_score", v
        else:
            ns, name, want = {"__file__": "x", "x" + ALPHA[v]: v, "Num": 3, "nu": "m"}, None, None
    raised = None
    try:
        _run_config(p, ns)
    except Exception as e:
        raised = e
    if text is not None:
        _check_bool(text, raised, p.flag)
    elif expect_error:
        reached("cfg_wrong_type_rejected")
        assert raised is not None, "config value %r for option %s (wrong type) was silently accepted as %r" % (
            ns, name, getattr(p, name))
    else:
        assert raised is None, "valid config %r rejected: %r" % (ns, raised)
        if name is not None:
            got = getattr(p, name)
            assert got == want and type(got) is type(want), "config %r: %s is %r, denotes %r" % (ns, name, got, want)
            reached("cfg_typed_ok")
    if raised is None:
        _defaults_except(p, *([name] if name else []))


# ------------------------------------------------------------------------------------------------ pooled C types
_TD = datetime.timedelta
_DT = datetime.datetime
UNITS = (("", "seconds"), ("s", "seconds"), ("sec", "seconds"), ("m", "minutes"), ("min", "minutes"),
         ("h", "hours"), ("d", "days"), ("w", "weeks"), ("ms", "milliseconds"), ("us", "microseconds"),
         ("seconds", "seconds"), ("hours", "hours"))
TD_POOL = (("1h 30m", _TD(hours=1, minutes=30)), ("1.5h", _TD(minutes=90)),
           ("45", _TD(seconds=45)), (" 45s ", _TD(seconds=45)), ("1e3ms", _TD(seconds=1)), ("-2m", _TD(minutes=-2)),
           ("2 days", _TD(days=2)), (".5s", _TD(milliseconds=500)), ("1H", None),
           ("banana", None), ("10x", None), ("1h,30m", None), ("h", None), ("--1s", None))
FLOAT_POOL = (("1.5", 1.5), ("-2", -2.0), ("1e3", 1000.0), ("+.25", 0.25), ("7", 7.0), ("abc", None), ("", None),
              ("1,5", None), ("1.5.2", None), ("0x10", None), ("1.5f", None))
DT_POOL = (("2013-04-28 05:16", _DT(2013, 4, 28, 5, 16)), ("2013-04-28 05:16:07", _DT(2013, 4, 28, 5, 16, 7)),
           ("2013-04-28T05:16", _DT(2013, 4, 28, 5, 16)), ("20130428 05:16", _DT(2013, 4, 28, 5, 16)),
           ("2013-04-28", _DT(2013, 4, 28)), ("20130428", _DT(2013, 4, 28)), ("05:16", _DT(1900, 1, 1, 5, 16)),
           ("Sun Apr 28 05:16:07 2013", _DT(2013, 4, 28, 5, 16, 7)),
           ("banana", None), ("2013-13-01", None), ("2013-04-31", None), ("25:00", None), ("", None),
           ("2013-04-28 05:16 pm", None))


def pre_pool(kind: int, i: int, k: int, u: int, cfg: bool) -> bool:
    if not (0 <= kind <= 3 and 0 <= k <= P.K and 0 <= u < len(UNITS)):
        return False
    n = len(TD_POOL) if kind == 0 else len(FLOAT_POOL) if kind == 1 else len(DT_POOL) if kind == 2 else 1
    return 0 <= i < n and in_shard(kind)


@harness(
    pre=pre_pool,
    quick=dict(K=12, timeout=100, per_path_timeout=30),
    thorough=dict(K=60, timeout=600, per_path_timeout=60),
    nshards=dict(quick=4, thorough=4),
    reach=["pool_value_ok", "pool_rejected", "timedelta_int_coefficient"],
    units=["options._Option._parse_timedelta", "options._Option._parse_datetime", "options._Option.parse",
           "options.OptionParser.parse_command_line", "options.OptionParser.parse_config_file"],
    stubs=["float(), datetime.strptime and datetime.timedelta are C code: spellings come from concrete pools "
           "selected by a symbolic index, plus `<k><unit>` with a symbolic small int k (realised by the C code); "
           "this harness is a bounded SEARCH over those spellings, not a claim about all float/date spellings"],
    outside=["every float/datetime/timedelta spelling not in the pools"],
)
def h_pooled_types(kind: int, i: int, k: int, u: int, cfg: bool):
    p = to.OptionParser()
    p.__dict__["print_help"] = lambda file=None: None
    p.define("td", type=datetime.timedelta, default=_TD(seconds=3))
    p.define("fl", type=float, default=0.5)
    p.define("dt", type=datetime.datetime, default=_DT(2000, 1, 1))
    if kind == 0:
        name, (text, want) = "td", TD_POOL[i]
    elif kind == 1:
        name, (text, want) = "fl", FLOAT_POOL[i]
    elif kind == 2:
        name, (text, want) = "dt", DT_POOL[i]
    else:
        abbrev, kw = UNITS[u]
        kc = 0
        while kc < k:          # concrete copy of k (branching): the regex, float() and timedelta are C code
            kc += 1
        name, text, want = "td", str(kc) + abbrev, _TD(**{kw: kc})
        reached("timedelta_int_coefficient")
    raised = None
    try:
        if cfg:
            _run_config(p, {name: text})
        else:
            p.parse_command_line(["prog", "--" + name + "=" + text])
    except Exception as e:
        raised = e
    got = getattr(p, name)
    if want is None:
        reached("pool_rejected")
        assert raised is not None, "%s option given %r was silently accepted as %r" % (name, text, got)
    else:
        reached("pool_value_ok")
        assert raised is None and got == want and type(got) is type(want), \
            "%s option given %r: got %r (raised %r), denotes %r" % (name, text, got, raised, want)
    for other, dflt in (("td", _TD(seconds=3)), ("fl", 0.5), ("dt", _DT(2000, 1, 1))):
        if other != name:
            assert getattr(p, other) == dflt


TECHNIQUE = ("CrossHair symbolic execution of the real OptionParser on a fresh instance per path; option kind, "
             "textual form, integer values, short strings and the unknown name are solver variables")
ASSUMPTIONS = ["see per-harness stubs"]
