"""C13 - Closing an IOStream settles every pending operation exactly once.

Real code driven: tornado.iostream.BaseIOStream.close / _signal_closed / _handle_events / _handle_read /
_read_to_buffer(_loop) / _try_inline_read / _start_read / _handle_write / write / set_close_callback /
_maybe_add_error_listener / _check_closed through FakeFdStream (harness/_iostream_rig.py).
A symbolic pre-state (buffered bytes, an optional pending read of any kind, 0-2 partly sent writes, optional
connect-pending, optional close callback) is closed by a symbolic cause at a symbolic point of the arrival
script: local close(), peer EOF, ECONNRESET, other OSError (EIO) on read, OSError on write, ERROR event,
or UnsatisfiableReadError (delimiter not within max_bytes).
Oracle (the statement): every future is completed exactly once; a read that the received bytes satisfy
completes with exactly those bytes, everything else fails with StreamClosedError whose real_error is the
injected error; the close callback runs exactly once and after all futures are settled; the fd is closed
exactly once and the handler removed; later writes of any payload (non-empty, b"", empty memoryview, empty
bytearray) fail with StreamClosedError carrying the close cause without touching the fd; later reads succeed only from bytes that were already buffered.
"""
from typing import List

from vp.api import P, harness, in_shard, reached
from vp.env import install

from tornado import iostream
from tornado.ioloop import IOLoop

from harness._iostream_rig import BA, FD, MV, FakeFdStream, Kernel, conc, fire, registered
from harness.C11 import (DATA, DELIMS, END, KEY_AFTER_FAILED, REGEXES, RB, RBP, RC, RI, RIP, RU, RX, _TRACK,
                         _classify, _issue, _satisfiable)

PAT = bytes(range(65, 91))
LOCAL, EOF, RESET, EIO, WERR, ERREV = range(6)


def pre_close(cause: int, rk: int, rn: int, rm: int, b0: int, cb: bool, rscript: List[int], tail: int,
              later: int) -> bool:
    if not (0 <= cause <= 5 and cause != WERR and 0 <= rk <= 6 and 0 <= b0 <= P.B0):
        return False
    if rk == -1 or rk == RC:
        if not (rn == 0 and rm == -1):
            return False
    elif rk <= RIP:
        if not (0 <= rn <= P.NB and rm == -1):
            return False
    else:
        if not (0 <= rn <= 2 and -1 <= rm <= P.MB):
            return False
    if len(rscript) > P.K or not (0 <= tail <= P.T and 1 <= later <= P.L):
        return False
    for a in rscript:
        if not 0 <= a <= 2:
            return False
    return in_shard((cause if cause < WERR else 4) + 5 * rk + 35 * b0)


_C_UNITS = ["iostream.BaseIOStream.close", "iostream.BaseIOStream._signal_closed",
            "iostream.BaseIOStream._handle_events", "iostream.BaseIOStream._handle_read",
            "iostream.BaseIOStream._read_to_buffer", "iostream.BaseIOStream._try_inline_read",
            "iostream.BaseIOStream._start_read", "iostream.BaseIOStream._handle_write",
            "iostream.BaseIOStream.write", "iostream.BaseIOStream.set_close_callback",
            "iostream.BaseIOStream._maybe_add_error_listener", "iostream.BaseIOStream._check_closed"]
_C_STUBS = ["FakeFdStream scripted kernel (harness/_iostream_rig.py); right after the scripted arrivals (last one = "
            "`tail` bytes) the peer ends with the symbolic cause (EOF / ECONNRESET / EIO); write_to_fd call #1 "
            "raises EPIPE for the write-error cause; ERROR event delivers get_fd_error()=ECONNREFUSED",
            "VLoop/FakeAio virtual loop (vp/env.py); readiness delivered by calling the registered handler",
            "connect-pending state set by FakeFdStream.fake_connect (mirrors IOStream.connect's state changes; "
            "BaseIOStream has no connect)",
            "stream content concrete (C11's 18-byte DATA), positions / sizes / parameters symbolic",
            "pre-state: 1 byte consumed, b0 bytes buffered, built through the real API",
            "tornado loggers disabled by the rig (log output is not part of the property; the logging machinery "
            "under the tracer multiplied paths)"]


@harness(
    pre=pre_close,
    quick=dict(B0=1, NB=2, MB=2, K=1, T=1, L=2, timeout=100, reach_timeout=60),
    thorough=dict(B0=1, NB=3, MB=3, K=2, T=1, L=2, timeout=1500, reach_timeout=120),
    nshards=dict(quick=70, thorough=70),
    classify=lambda **a: _classify(h_close_read, a),
    reach=["read_completed_at_close", "read_failed_real_error", "unsatisfiable", "callback_ran",
           "later_read_from_buffer", "inline_error_raised", "later_empty_write_refused",
           "unsat_inline_until", "unsat_inline_regex", "unsat_deferred_until", "unsat_deferred_regex"],
    units=_C_UNITS, stubs=_C_STUBS,
    outside=["more than one pending read (the API forbids it)", "SSL handshake futures",
             "an 'other' OSError met inline while *issuing* a read is re-raised to the caller by read_*() (the "
             "future it would have returned is failed with StreamClosedError first): accepted as settled",
             "close callbacks that raise", "cancelled futures"],
)
def h_close_read(cause: int, rk: int, rn: int, rm: int, b0: int, cb: bool, rscript: List[int], tail: int,
                 later: int):
    """A pending (or inline) read of any kind meets the close cause at a symbolic point of the arrivals."""
    _close_body(cause, rk, rn, rm, b0, 0, -1, cb, False, rscript, tail, later)


def pre_cw(cause: int, nw: int, wa: int, cb: bool, conn: bool, pend: int, defer: bool, tail: int) -> bool:
    if not (0 <= cause <= 5 and 0 <= nw <= 2 and -1 <= wa <= P.WA and 0 <= tail <= 1 and 0 <= pend <= 3):
        return False
    if defer and pend == 0:
        return False
    if conn and cause == WERR:
        return False
    return in_shard(cause + 6 * nw)


@harness(
    pre=pre_cw,
    quick=dict(K=1, WA=1, timeout=100, reach_timeout=60),
    thorough=dict(K=1, WA=2, timeout=1500, reach_timeout=120),
    nshards=dict(quick=18, thorough=18),
    reach=["write_failed", "connect_failed", "callback_ran", "read_failed_real_error",
           "unsat_inline_until", "unsat_inline_regex", "unsat_deferred_until", "unsat_deferred_regex",
           "write_failed_by_unsatisfiable", "later_empty_write_refused"],
    classify=lambda **a: _classify(h_close_write, a),
    units=_C_UNITS, stubs=_C_STUBS,
    outside=["more than 2 pending writes", "SSL handshake futures", "close callbacks that raise", "cancelled futures"],
)
def h_close_write(cause: int, nw: int, wa: int, cb: bool, conn: bool, pend: int, defer: bool, tail: int):
    """0-2 partly sent writes, optional connect-pending and an optional read - read_bytes(3), or
    read_until / read_until_regex with max_bytes=0 whose limit trips as soon as one unmatched byte is
    readable: inline inside the call (the byte is already readable) or deferred (it arrives with a later
    READ event) - meet the close cause."""
    rs = [0] if defer else []          # deferred: the first read_from_fd would-blocks, data comes by event
    if pend == 1:
        _close_body(cause, RB, 3, -1, 0, nw, wa, cb, conn, rs, tail, 1)
    elif pend == 2:
        _close_body(cause, RU, 0, 0, 0, nw, wa, cb, conn, rs, tail, 1)
    elif pend == 3:
        _close_body(cause, RX, 0, 0, 0, nw, wa, cb, conn, rs, tail, 1)
    else:
        _close_body(cause, -1, 0, -1, 0, nw, wa, cb, conn, rs, tail, 1)


def _close_body(cause, rk, rn, rm, b0, nw, wa, cb, conn, rscript, tail, later):
    with install() as env:
        cause = conc(cause, 0, 5)
        rk = conc(rk, -1, 6)
        rn = conc(rn, 0, 8)
        b0 = conc(b0, 0, 8)
        pos = 1
        kcause = cause if cause in (EOF, RESET, EIO) else 0
        k = Kernel(DATA, [pos + b0], len(DATA), kcause, wscript=[wa], wfail=(1 if cause == WERR else None))
        s = FakeFdStream(k, read_chunk_size=len(DATA))
        f0 = s.read_bytes(pos)
        env.run_ready()
        assert f0.done() and f0.result() == DATA[:pos] and s._read_buffer_size == b0
        # the rest of the arrival script; the peer's stream ends `tail` bytes after what has been delivered
        k.rscript = list(rscript) + [tail]
        k.ri = 0
        k.end_after_script = True          # the cause happens right after the scripted arrivals
        s.read_chunk_size = 2

        counts = {}                        # name -> number of done-callback invocations
        futs = {}
        cb_runs = []

        def track(name, f):
            futs[name] = f
            counts[name] = 0

            def done(_f, name=name):
                counts[name] += 1
            f.add_done_callback(done)

        def on_close():
            cb_runs.append(all(f.done() for f in futs.values()))

        if cb:
            s.set_close_callback(on_close)
        if conn:
            track("connect", s.fake_connect())
        # ---- pending writes (queued only while connecting)
        wends = []
        off = 0
        for i in range(nw):
            piece = PAT[off:off + 2]
            off += 2
            try:
                track("w%d" % i, s.write(piece if i == 0 else MV(piece)))
            except iostream.StreamClosedError as e:
                # the write error cause can close the stream inside write()
                assert cause == WERR and s.closed(), "write raised %r" % (e,)
                break
            wends.append(off)
        env.run_ready()
        # ---- the read (may complete inline, stay pending, or meet the end of the stream inline)
        holder = []
        inline_exc = None
        rpos = pos
        if rk >= 0 and not s.closed():
            try:
                track("read", _issue(s, rk, rn, rm, holder))
            except OSError as e:
                inline_exc = e
                assert not isinstance(e, iostream.StreamClosedError), "read on an open stream raised %r" % (e,)
                assert e is k.injected and cause == EIO, "read raised %r" % (e,)
                reached("inline_error_raised")
            env.run_ready()
        closed_inline = s.closed()         # the stream closed inside write() / the read call itself
        # ---- deliver events until the cause has happened
        guard = 0
        local_closed = False
        while not s.closed() and guard < P.K + 4:
            guard += 1
            if cause == LOCAL:
                if guard > len(rscript) or not registered(env, IOLoop.READ):
                    local_closed = True
                    s.close()
                else:
                    fire(env, IOLoop.READ)
            elif cause == ERREV:
                if env.loop.handlers.get(FD) is None:
                    local_closed = True
                    s.close()
                else:
                    k.fd_error = OSError(111, "connection refused (injected)")
                    k.injected = k.fd_error
                    fire(env, IOLoop.ERROR)
            elif cause == WERR:
                if registered(env, IOLoop.WRITE):
                    fire(env, IOLoop.WRITE)
                else:
                    local_closed = True
                    s.close()
            else:
                if registered(env, IOLoop.READ):
                    fire(env, IOLoop.READ | (IOLoop.WRITE if registered(env, IOLoop.WRITE) else 0))
                else:
                    local_closed = True
                    s.close()
            env.run_ready()
        env.run_ready()
        assert s.closed(), "stream did not close"
        D = k.rpos
        # ---- the real error every failure must carry.  The expectation comes from what the HARNESS did, never
        # from stream.error: if no external cause happened (no local close(), no EOF / error reported by the
        # kernel, no ERROR event) the only thing that can have closed the stream is the read's own max_bytes
        # limit, and then stream.error and every real_error must BE that UnsatisfiableReadError.
        external = local_closed or k.injected is not None or (kcause == EOF and k.end_seen > 0)
        if not external:
            assert rk in (RU, RX) and rm >= 0, "stream closed without any cause (error=%r)" % (s.error,)
            e = END[rk == RX][rn][rpos]
            assert e is None or e - rpos > rm, "refused although the delimiter is within max_bytes"
            assert isinstance(s.error, iostream.UnsatisfiableReadError), \
                "stream closed by the max_bytes limit of the read but stream.error is %r" % (s.error,)
            want_err = s.error
            reached("unsatisfiable")
            if closed_inline:
                reached("unsat_inline_until" if rk == RU else "unsat_inline_regex")
            else:
                reached("unsat_deferred_until" if rk == RU else "unsat_deferred_regex")
            if nw > 0 and len(k.sent) < 2 * nw:
                reached("write_failed_by_unsatisfiable")
        else:
            want_err = k.injected
        assert s.error is want_err, "stream.error is %r, injected %r" % (s.error, want_err)
        # ---- every future settled exactly once
        sent = len(k.sent)
        for name, f in futs.items():
            assert f.done(), "%s future still pending after close" % name
            assert counts[name] == 1, "%s future completed %d times" % (name, counts[name])
            exc = f.exception()
            if exc is not None:
                assert type(exc) is iostream.StreamClosedError, "%s failed with %r" % (name, exc)
                assert exc.real_error is want_err, \
                    "%s: StreamClosedError.real_error is %r, the close cause was %r" % (name, exc.real_error, want_err)
            if name == "read":
                if exc is None:
                    res = f.result()
                    if rk in (RI, RIP):
                        got = bytes(holder[0][:res])
                        assert type(res) is int and (res == rn if rk == RI else (res <= rn and (res > 0 or rn == 0)))
                    else:
                        got = res
                        assert type(got) is bytes
                        if rk == RB:
                            assert len(got) == rn
                        elif rk == RBP:
                            assert len(got) <= rn and (len(got) > 0 or rn == 0)
                        elif rk in (RU, RX):
                            assert END[rk == RX][rn][rpos] == rpos + len(got)
                            assert rm < 0 or len(got) <= rm
                    assert got == DATA[rpos:rpos + len(got)] and rpos + len(got) <= D, "read returned %r" % (got,)
                    rpos += len(got)
                    if len(got) > 0 and s.closed():
                        reached("read_completed_at_close")
                else:
                    if not isinstance(want_err, iostream.UnsatisfiableReadError):
                        assert not _satisfiable(rk, rn, rm, rpos, D, True), \
                            "read failed at close although the received bytes satisfy it"
                    if want_err is not None:
                        reached("read_failed_real_error")
            elif name == "connect":
                if exc is not None:
                    reached("connect_failed")
            else:
                i = int(name[1:])
                if exc is None:
                    assert sent >= wends[i], "write %d resolved with %d bytes sent (ends at %d)" % (i, sent, wends[i])
                else:
                    assert sent < wends[i] or conn, "write %d failed although all its bytes were sent" % i
                    reached("write_failed")
        # ---- close callback, fd, handler
        if cb:
            assert cb_runs == [True], "close callback runs (futures settled at that time): %r" % (cb_runs,)
            reached("callback_ran")
        assert k.fd_closed == 1, "close_fd called %d times" % k.fd_closed
        assert env.loop.handlers.get(FD) is None, "handler still registered after close"
        # ---- afterwards
        s.close()
        env.run_ready()
        assert k.fd_closed == 1 and (not cb or cb_runs == [True]), "second close() had effects"
        # later writes of every payload kind - non-empty bytes, b"", an empty memoryview, an empty bytearray -
        # must all be refused the same way (on every explored close scenario, not on a chosen one)
        wcalls = k.wcalls
        nfut = len(env.v.ready)
        for label, payload in (("bytes", b"zz"), ("empty bytes", b""), ("empty memoryview", MV(b"")),
                               ("empty bytearray", BA()), ("memoryview", MV(b"q"))):
            try:
                s.write(payload)
                outcome = "succeeded"
            except iostream.StreamClosedError as e:
                outcome = None
                assert e.real_error is want_err, \
                    "later write(%s): real_error %r, the close cause was %r" % (label, e.real_error, want_err)
            except Exception as e:
                outcome = "raised %r" % (e,)
            assert outcome is None, "write(%s) after close %s instead of raising StreamClosedError" % (label, outcome)
            assert len(k.sent) == sent and k.wcalls == wcalls, "write(%s) after close reached the fd" % label
            if len(payload) == 0:
                reached("later_empty_write_refused")
        env.run_ready()
        read_failed = "read" in futs and futs["read"].exception() is not None
        _TRACK["after_failed"] = read_failed
        if inline_exc is None and not (read_failed and KEY_AFTER_FAILED in P.exclude):
            calls = k.read_calls
            n2 = conc(later, 0, 3)
            avail = D - rpos
            try:
                f2 = s.read_bytes(n2, partial=False)
                env.run_ready()
                assert f2.done() and f2.exception() is None, "read after close left pending/failed: %r" % (f2,)
                r2 = f2.result()
                assert type(r2) is bytes and r2 == DATA[rpos:rpos + n2] and n2 <= avail, \
                    "read after close returned %r; buffered were %r" % (r2, DATA[rpos:D])
                if n2 > 0:
                    reached("later_read_from_buffer")
            except iostream.StreamClosedError as e:
                assert n2 > avail, "read_bytes(%d) refused after close with %d bytes buffered" % (n2, avail)
                assert e.real_error is want_err
            assert k.read_calls == calls, "read after close touched the fd"
        for name in counts:
            assert counts[name] == 1
        bad = [c for c in env.v.exc_contexts]
        assert not bad, "exception escaped a callback: %r" % (bad,)


TECHNIQUE = ("CrossHair symbolic execution of the real BaseIOStream close paths over a scripted kernel; the close "
             "cause, its point in the arrival script, the pending operations and their parameters are solver variables")
ASSUMPTIONS = [
    "transport contract as in C11/C12; injected errors: ECONNRESET / EIO on read, EPIPE on write, ECONNREFUSED via ERROR event",
]
