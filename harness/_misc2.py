"""Shared helpers of the misc2 batch (C31, C32, C30, C47): tiny reference functions and dummies.

Everything here is REFERENCE / ENVIRONMENT code (never a re-implementation that is used *instead of*
the tornado unit under test).
"""

HEX = "0123456789abcdefABCDEF"


def ref_unquote_to_bytes(s: str) -> bytes:
    """Reference percent-decoder (RFC 3986 2.1): %XX with two hex digits -> that byte, everything
    else is the UTF-8 encoding of the character.  Written independently of urllib."""
    out = []
    i = 0
    n = len(s)
    while i < n:
        c = s[i]
        if c == "%" and i + 2 < n and s[i + 1] in HEX and s[i + 2] in HEX:
            out.append(bytes([int(s[i + 1:i + 3], 16)]))
            i += 3
        else:
            out.append(c.encode("utf-8"))
            i += 1
    return b"".join(out)


class DummyContext:
    def __init__(self, remote_ip="10.0.0.9", protocol="http"):
        self.remote_ip = remote_ip
        self.protocol = protocol


class DummyConnection:
    """Recording stand-in for an HTTP1Connection (only what the units under test touch)."""

    def __init__(self, context=None):
        self.context = context if context is not None else DummyContext()
        self.writes = []          # ("headers", start_line, [(k, v)...], chunk) / ("write", chunk) / ("finish",)
        self.finished = False
        self.close_callback = None

    def set_close_callback(self, cb):
        self.close_callback = cb

    def write_headers(self, start_line, headers, chunk=None):
        self.writes.append(("headers", start_line, list(headers.get_all()), chunk))
        from tornado.concurrent import Future
        f = Future()
        f.set_result(None)
        return f

    def write(self, chunk):
        self.writes.append(("write", chunk))
        from tornado.concurrent import Future
        f = Future()
        f.set_result(None)
        return f

    def finish(self):
        self.writes.append(("finish",))
        self.finished = True


def fix_crosshair_groupdict():
    """CrossHair 0.0.110 models re.Match.groupdict() wrongly (returns the (start, end) spans instead of
    the matched strings and ignores `default`).  Install the obvious correction into the MODEL (no
    tornado code is touched).  No-op in the plain-interpreter replay (CrossHair not imported there)."""
    import sys
    relib = sys.modules.get("crosshair.libimpl.relib")
    if relib is None:
        try:
            import crosshair.libimpl.relib as relib  # type: ignore
        except Exception:
            return False

    def groupdict(self, default=None):
        ret = {}
        for name, idx in self.re.groupindex.items():
            g = self.group(idx)
            ret[name] = default if g is None else g
        return ret

    relib._Match.groupdict = groupdict
    return True


class FixedTime:
    """Stand-in for the `time` module inside tornado modules: time() is a constant (CrossHair models the
    real time.time() as a fresh symbolic float per call).  Everything else delegates to the real module."""

    def __init__(self, now=1600000000):
        self.now = now

    def time(self):
        return self.now

    def __getattr__(self, k):
        import time as _t
        return getattr(_t, k)


def fix_time(*modules):
    clock = FixedTime()
    for m in modules:
        m.time = clock
    return clock


# ---- reference numeric-IP recogniser (ASCII only).  Mirrors what a numeric-host lookup accepts:
# IPv4 in inet_aton notation (1-4 dot separated numbers, decimal / 0octal / 0xhex), IPv6 per RFC 4291
# (1-4 hex digit groups, one "::", optional trailing dotted quad).  Zone ids ("%eth0") are outside.

def _num(s: str, lo: int, hi: int):
    """value of the inet_aton number s[lo:hi] or None (index arithmetic only: no substrings are created,
    CrossHair's slice/split/count models produced non-replaying artefacts here)"""
    n = hi - lo
    if n <= 0 or n > 12:
        return None
    if s[lo] == "0" and n > 1:
        if s[lo + 1] == "x" or s[lo + 1] == "X":
            if n == 2:
                return None
            v = 0
            for i in range(lo + 2, hi):
                o = ord(s[i])
                if 48 <= o <= 57:
                    d = o - 48
                elif 97 <= o <= 102:
                    d = o - 87
                elif 65 <= o <= 70:
                    d = o - 55
                else:
                    return None
                v = v * 16 + d
            return v
        v = 0
        for i in range(lo + 1, hi):
            o = ord(s[i])
            if not 48 <= o <= 55:
                return None
            v = v * 8 + (o - 48)
        return v
    v = 0
    for i in range(lo, hi):
        o = ord(s[i])
        if not 48 <= o <= 57:
            return None
        v = v * 10 + (o - 48)
    return v


def _cuts(s: str, lo: int, hi: int, ch: str):
    """[(start, end)] of the pieces of s[lo:hi] separated by the character ch"""
    out = []
    start = lo
    for i in range(lo, hi):
        if s[i] == ch:
            out.append((start, i))
            start = i + 1
    out.append((start, hi))
    return out


def _is_v4_aton(s: str) -> bool:
    parts = _cuts(s, 0, len(s), ".")
    k = len(parts)
    if k > 4:
        return False
    last = None
    for j in range(k):
        v = _num(s, parts[j][0], parts[j][1])
        if v is None:
            return False
        if j < k - 1 and v > 255:
            return False
        last = v
    lim = 256 if k == 4 else 65536 if k == 3 else 16777216 if k == 2 else 4294967296
    return last < lim


def _is_v4_strict(s: str, lo: int, hi: int) -> bool:
    parts = _cuts(s, lo, hi, ".")
    if len(parts) != 4:
        return False
    for (a, b) in parts:
        if not (1 <= b - a <= 3):
            return False
        v = 0
        for i in range(a, b):
            o = ord(s[i])
            if not 48 <= o <= 57:
                return False
            v = v * 10 + (o - 48)
        if b - a > 1 and s[a] == "0":
            return False
        if v > 255:
            return False
    return True


def _is_v6(s: str) -> bool:
    lo, hi = 0, len(s)
    if hi < 2:
        return False
    if hi == 2 and s[0] == ":" and s[1] == ":":
        return True
    if s[0] == ":":
        if s[1] != ":":
            return False
        lo = 1
    if s[hi - 1] == ":":
        if hi - lo < 2 or s[hi - 2] != ":":
            return False
        hi = hi - 1
    parts = _cuts(s, lo, hi, ":")
    if len(parts) < 2:
        return False
    gaps = 0
    groups = 0
    for j in range(len(parts)):
        a, b = parts[j]
        if a == b:
            gaps += 1
            continue
        dotted = False
        for i in range(a, b):
            if s[i] == ".":
                dotted = True
        if dotted:
            if j != len(parts) - 1 or not _is_v4_strict(s, a, b):
                return False
            groups += 2
            continue
        if b - a > 4:
            return False
        for i in range(a, b):
            o = ord(s[i])
            if not (48 <= o <= 57 or 97 <= o <= 102 or 65 <= o <= 70):
                return False
        groups += 1
    if gaps > 1:
        return False
    if gaps == 1:
        return groups <= 7
    return groups == 8


def ref_is_numeric_ip(s: str) -> bool:
    if not s:
        return False
    for i in range(len(s)):
        if not 33 <= ord(s[i]) <= 126:
            return False
    return _is_v4_aton(s) or _is_v6(s)
