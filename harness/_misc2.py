"""Shared helpers of the misc2 batch (C31, C32, C30, C47): tiny reference functions and dummies.

Everything here is REFERENCE / ENVIRONMENT code (never a re-implementation that is used *instead of*
the tornado unit under test).
"""

HEX = "0123456789abcdefABCDEF"


def ref_unquote_to_bytes(s: str) -> bytes:
    """Reference percent-decoder (RFC 3986 2.1): %XX with two hex digits -> that byte, everything
    else is the UTF-8 encoding of the character.  Written independently of urllib."""
    out = []
    i = 0
    n = len(s)
    while i < n:
        c = s[i]
        if c == "%" and i + 2 < n and s[i + 1] in HEX and s[i + 2] in HEX:
            out.append(bytes([int(s[i + 1:i + 3], 16)]))
            i += 3
        else:
            out.append(c.encode("utf-8"))
            i += 1
    return b"".join(out)


class DummyContext:
    def __init__(self, remote_ip="10.0.0.9", protocol="http"):
        self.remote_ip = remote_ip
        self.protocol = protocol


class DummyConnection:
    """Recording stand-in for an HTTP1Connection (only what the units under test touch)."""

    def __init__(self, context=None):
        self.context = context if context is not None else DummyContext()
        self.writes = []          # ("headers", start_line, [(k, v)...], chunk) / ("write", chunk) / ("finish",)
        self.finished = False
        self.close_callback = None

    def set_close_callback(self, cb):
        self.close_callback = cb

    def write_headers(self, start_line, headers, chunk=None):
        self.writes.append(("headers", start_line, list(headers.get_all()), chunk))
        from tornado.concurrent import Future
        f = Future()
        f.set_result(None)
        return f

    def write(self, chunk):
        self.writes.append(("write", chunk))
        from tornado.concurrent import Future
        f = Future()
        f.set_result(None)
        return f

    def finish(self):
        self.writes.append(("finish",))
        self.finished = True


def fix_crosshair_groupdict():
    """CrossHair 0.0.110 models re.Match.groupdict() wrongly (returns the (start, end) spans instead of
    the matched strings and ignores `default`).  Install the obvious correction into the MODEL (no
    tornado code is touched).  No-op in the plain-interpreter replay (CrossHair not imported there)."""
    import sys
    relib = sys.modules.get("crosshair.libimpl.relib")
    if relib is None:
        try:
            import crosshair.libimpl.relib as relib  # type: ignore
        except Exception:
            return False

    def groupdict(self, default=None):
        ret = {}
        for name, idx in self.re.groupindex.items():
            g = self.group(idx)
            ret[name] = default if g is None else g
        return ret

    relib._Match.groupdict = groupdict
    return True


class FixedTime:
    """Stand-in for the `time` module inside tornado modules: time() is a constant (CrossHair models the
    real time.time() as a fresh symbolic float per call).  Everything else delegates to the real module."""

    def __init__(self, now=1600000000):
        self.now = now

    def time(self):
        return self.now

    def __getattr__(self, k):
        import time as _t
        return getattr(_t, k)


def fix_time(*modules):
    clock = FixedTime()
    for m in modules:
        m.time = clock
    return clock


# ---- reference numeric-IP recogniser (ASCII only).  Mirrors what a numeric-host lookup accepts:
# IPv4 in inet_aton notation (1-4 dot separated numbers, decimal / 0octal / 0xhex), IPv6 per RFC 4291
# (1-4 hex digit groups, one "::", optional trailing dotted quad).  Zone ids ("%eth0") are outside.

def _num(part: str):
    """value of one inet_aton number or None"""
    n = len(part)
    if n == 0 or n > 12:
        return None
    if part[0] == "0" and n > 1:
        if part[1] in "xX":
            if n == 2:
                return None
            v = 0
            for c in part[2:]:
                if c in "0123456789":
                    d = ord(c) - 48
                elif c in "abcdef":
                    d = ord(c) - 87
                elif c in "ABCDEF":
                    d = ord(c) - 55
                else:
                    return None
                v = v * 16 + d
            return v
        v = 0
        for c in part[1:]:
            if c not in "01234567":
                return None
            v = v * 8 + (ord(c) - 48)
        return v
    v = 0
    for c in part:
        if c not in "0123456789":
            return None
        v = v * 10 + (ord(c) - 48)
    return v


def _msplit(s: str, ch: str):
    """s.split(ch) for a single character, written with plain indexing (CrossHair's split/count models
    produced non-replaying artefacts here)"""
    parts = []
    start = 0
    for i in range(len(s)):
        if s[i] == ch:
            parts.append(s[start:i])
            start = i + 1
    parts.append(s[start:])
    return parts


def _is_v4_aton(s: str) -> bool:
    parts = _msplit(s, ".")
    k = len(parts)
    if k > 4:
        return False
    vals = []
    for p in parts:
        v = _num(p)
        if v is None:
            return False
        vals.append(v)
    for v in vals[:-1]:
        if v > 255:
            return False
    lim = 256 if k == 4 else 65536 if k == 3 else 16777216 if k == 2 else 4294967296
    return vals[-1] < lim


def _is_v4_strict(s: str) -> bool:
    parts = _msplit(s, ".")
    if len(parts) != 4:
        return False
    for p in parts:
        if not (1 <= len(p) <= 3):
            return False
        v = 0
        for c in p:
            if c not in "0123456789":
                return False
            v = v * 10 + (ord(c) - 48)
        if len(p) > 1 and p[0] == "0":
            return False
        if v > 255:
            return False
    return True


def _is_v6(s: str) -> bool:
    n = len(s)
    if n < 2:
        return False
    if s == "::":
        return True
    if s[0] == ":":
        if s[1] != ":":
            return False
        s = s[1:]
    n = len(s)
    if s[n - 1] == ":":
        if n < 2 or s[n - 2] != ":":
            return False
        s = s[:n - 1]
    parts = _msplit(s, ":")
    if len(parts) < 2:
        return False
    gaps = 0
    groups = 0
    last = len(parts) - 1
    for i in range(len(parts)):
        p = parts[i]
        if p == "":
            gaps += 1
            continue
        dotted = False
        for c in p:
            if c == ".":
                dotted = True
        if dotted:
            if i != last or not _is_v4_strict(p):
                return False
            groups += 2
            continue
        if len(p) > 4:
            return False
        for c in p:
            if c not in "0123456789abcdefABCDEF":
                return False
        groups += 1
    if gaps > 1:
        return False
    if gaps == 1:
        return groups <= 7
    return groups == 8


def ref_is_numeric_ip(s: str) -> bool:
    if not s:
        return False
    for c in s:
        if not (" " < c <= "~"):
            return False
    return _is_v4_aton(s) or _is_v6(s)
