"""Shared helpers of the misc2 batch (C31, C32, C30, C47): tiny reference functions and dummies.

Everything here is REFERENCE / ENVIRONMENT code (never a re-implementation that is used *instead of*
the tornado unit under test).
"""

HEX = "0123456789abcdefABCDEF"


def ref_unquote_to_bytes(s: str) -> bytes:
    """Reference percent-decoder (RFC 3986 2.1): %XX with two hex digits -> that byte, everything
    else is the UTF-8 encoding of the character.  Written independently of urllib."""
    out = []
    i = 0
    n = len(s)
    while i < n:
        c = s[i]
        if c == "%" and i + 2 < n and s[i + 1] in HEX and s[i + 2] in HEX:
            out.append(bytes([int(s[i + 1:i + 3], 16)]))
            i += 3
        else:
            out.append(c.encode("utf-8"))
            i += 1
    return b"".join(out)


class DummyContext:
    def __init__(self, remote_ip="10.0.0.9", protocol="http"):
        self.remote_ip = remote_ip
        self.protocol = protocol


class DummyConnection:
    """Recording stand-in for an HTTP1Connection (only what the units under test touch)."""

    def __init__(self, context=None):
        self.context = context if context is not None else DummyContext()
        self.writes = []          # ("headers", start_line, [(k, v)...], chunk) / ("write", chunk) / ("finish",)
        self.finished = False
        self.close_callback = None

    def set_close_callback(self, cb):
        self.close_callback = cb

    def write_headers(self, start_line, headers, chunk=None):
        self.writes.append(("headers", start_line, list(headers.get_all()), chunk))
        from tornado.concurrent import Future
        f = Future()
        f.set_result(None)
        return f

    def write(self, chunk):
        self.writes.append(("write", chunk))
        from tornado.concurrent import Future
        f = Future()
        f.set_result(None)
        return f

    def finish(self):
        self.writes.append(("finish",))
        self.finished = True


def fix_crosshair_groupdict():
    """CrossHair 0.0.110 models re.Match.groupdict() wrongly (returns the (start, end) spans instead of
    the matched strings and ignores `default`).  Install the obvious correction into the MODEL (no
    tornado code is touched).  No-op in the plain-interpreter replay (CrossHair not imported there)."""
    import sys
    relib = sys.modules.get("crosshair.libimpl.relib")
    if relib is None:
        try:
            import crosshair.libimpl.relib as relib  # type: ignore
        except Exception:
            return False

    def groupdict(self, default=None):
        ret = {}
        for name, idx in self.re.groupindex.items():
            g = self.group(idx)
            ret[name] = default if g is None else g
        return ret

    relib._Match.groupdict = groupdict
    return True
