"""C03 - Connection persistence follows the request's keep-alive semantics.

Real code driven: HTTP1Connection._can_keep_alive / write_headers / finish / _finish_request and
HTTP1ServerConnection._server_request_loop under a real tornado.web.Application + RequestHandler
(buffered / streamed responses; a stream_request_body handler that finishes in prepare() = before
the request body was read), over FakeStream on the virtual loop; a second pipelined request follows.
Oracle: the statement's truth table + the strict reference response reader.
"""
from vp.api import P, harness, in_shard, reached
from vp.env import install

from harness import _httpout_rig as rig
from harness._httpout_rig import CL, FIN, FL, W

from tornado import httputil
from tornado.http1connection import HTTP1Connection, HTTP1ConnectionParameters
from vp.fakestream import FakeStream

_M = ("GET", "HEAD", "POST")
# full-pipeline harness: concrete Connection request header values, by index
CONN_POOL = (None, "close", "keep-alive", "x, close", "CLOSE", "Keep-Alive", "upgrade", "keep-alive, x")
# unit harness: Connection value = pooled prefix + 2 solver-chosen characters
CONN_PREFIX = ("clo", "keep-ali", "x,clo", "KEEP-ALI", "")
PROGS = (
    [(W, 2), (FIN, 0)],                       # buffered: Content-Length computed by finish()
    [(W, 1), (FL, 0), (W, 1), (FIN, 0)],      # streamed: chunked for 1.1, undelimited for 1.0
    [(CL, 2), (W, 1), (FL, 0), (FIN, 1)],     # streamed with an explicit Content-Length
)


def options_of(value):
    """RFC 7230 connection options: comma separated, case-insensitive tokens."""
    if value is None:
        return []
    return [t.strip(" \t").lower() for t in value.split(",")]


def request_allows(ver, opts, delimited_request):
    """The statement: HTTP/1.1 without a 'close' option, or HTTP/1.0 with keep-alive and a
    delimited request body."""
    if ver == 1:
        return "close" not in opts
    return "keep-alive" in opts and delimited_request


def classify_conn(value):
    opts = options_of(value)
    if len(opts) > 1 and ("close" in opts or "keep-alive" in opts):
        return "connection_option_list"
    return None


# =========================================================================== unit: symbolic value
def pre_dec(ver: int, pfx: int, o1: int, o2: int, nka: bool, method: int, has_cl: bool) -> bool:
    if not (0 <= ver <= 1 and 0 <= pfx < P.X and 0 <= method <= 2):
        return False
    # the two free characters, as code points: visible ASCII (one conjunctive range each)
    if not (0x21 <= o1 <= 0x7e and 0x21 <= o2 <= 0x7e):
        return False
    if P.exclude and classify_conn(CONN_PREFIX[pfx] + chr(o1) + chr(o2)) in P.exclude:
        return False
    return in_shard(pfx + P.X * ver)


def classify_dec(ver, pfx, o1, o2, nka, method, has_cl):
    return classify_conn(CONN_PREFIX[pfx] + chr(o1) + chr(o2))


@harness(
    pre=pre_dec,
    quick=dict(X=3, timeout=240, reach_timeout=150),
    thorough=dict(X=5, timeout=900, reach_timeout=90),
    nshards=dict(quick=6, thorough=10),
    reach=["close_found", "keepalive_found", "close_told"],
    units=["http1connection.HTTP1Connection._can_keep_alive",
           "HTTP1Connection.write_headers (Connection: close / Keep-Alive emission)"],
    stubs=["FakeStream; the unit is called directly with a parsed RequestStartLine and an HTTPHeaders "
           "object whose Connection value is pooled prefix + 2 solver-chosen visible-ASCII characters"],
    outside=["non-ASCII / whitespace / control characters in the Connection value",
             "the rest of the pipeline (h_keepalive)"],
    classify=classify_dec,
)
def h_decision(ver: int, pfx: int, o1: int, o2: int, nka: bool, method: int, has_cl: bool):
    """The keep-alive decision and its announcement for a solver-chosen Connection value."""
    if P.reach == "ack_sent" and (ver != 0 or nka or pfx != 1):
        return      # reach-twin steering only (necessary condition for the tag)
    if P.reach == "keepalive_found" and pfx != 1:
        return      # reach-twin steering only
    if P.reach == "close_found" and pfx != 0:
        return      # reach-twin steering only
    value = CONN_PREFIX[pfx] + chr(o1) + chr(o2)
    meth = _M[method]
    with install() as env:
        st = FakeStream(env.loop, b"")
        conn = HTTP1Connection(st, False, HTTP1ConnectionParameters(no_keep_alive=nka))
        sl = httputil.RequestStartLine(meth, "/", "HTTP/1.1" if ver == 1 else "HTTP/1.0")
        hd = httputil.HTTPHeaders()
        hd["Host"] = "x"
        hd["Connection"] = value
        if has_cl:
            hd["Content-Length"] = "0"
        real_keep = conn._can_keep_alive(sl, hd)
        # what _read_message does with the decision
        conn._request_start_line = sl
        conn._request_headers = hd
        conn._disconnect_on_finish = not real_keep
        out = httputil.HTTPHeaders()
        out["Content-Length"] = "0"
        conn.write_headers(httputil.ResponseStartLine("", 200, "OK"), out)
        wire = st.wire()
    opts = options_of(value)
    allows = request_allows(ver, opts, has_cl or meth in ("GET", "HEAD"))
    want_keep = allows and not nka
    if "close" in opts:
        reached("close_found")
    if "keep-alive" in opts:
        reached("keepalive_found")
    assert real_keep == want_keep, \
        "Connection: %r on HTTP/1.%d no_keep_alive=%r: keep=%r, statement says %r" % (
            value, ver, nka, real_keep, want_keep)
    r = rig.read_response(wire, 0, meth, False)
    ch = (r.get(b"connection") or b"").lower()
    if not want_keep:
        if ver == 1:
            reached("close_told")
            assert ch == b"close", "HTTP/1.1 client not told 'Connection: close'"
        assert ch != b"keep-alive", "keep-alive acknowledged on a connection that will be closed"
    elif ch == b"keep-alive":
        reached("ack_sent")


# =========================================================================== full pipeline
def pre_ka(ver: int, conn: int, method: int, framing: int, nka: bool, early: bool,
           rmode: int, slow: bool = False) -> bool:
    if not (0 <= ver <= 1 and 0 <= conn < P.C and 0 <= method <= 2 and 0 <= framing <= 2
            and 0 <= rmode <= 2):
        return False
    if early and framing == 0:
        return False    # "finished before the body was read" needs a body (see `outside`)
    if classify_conn(CONN_POOL[conn]) in P.exclude:
        return False
    return in_shard(method + 3 * framing)


def request_bytes(ver, value, method, framing, early):
    path = "/e" if early else "/a"
    lines = [("%s %s HTTP/%s" % (_M[method], path, "1.1" if ver == 1 else "1.0")).encode(), b"Host: x"]
    if value is not None:
        lines.append(b"Connection: " + value.encode())
    body = b""
    if framing == 1:
        lines.append(b"Content-Length: 3")
        body = b"xyz"
    elif framing == 2:
        lines.append(b"Transfer-Encoding: chunked")
        body = b"3\r\nxyz\r\n0\r\n\r\n"
    return b"\r\n".join(lines) + b"\r\n\r\n" + body


EARLY_KEY = "early_finish_close_unannounced"


def _known_early(ver, conn, method, framing, nka, early, rmode, slow=False):
    """Shape of the recorded finding: the handler finishes before the request body was read on a
    request that otherwise allows keep-alive. HTTP1Connection decides to close only in finish(), after
    the response head has been written, so the close is not announced (1.1) / keep-alive is acknowledged
    (1.0)."""
    value = CONN_POOL[conn]
    opts = options_of(value)
    allows = request_allows(ver, opts, framing != 0 or _M[method] in ("GET", "HEAD"))
    self_delimiting = _M[method] == "HEAD" or rmode != 1 or ver == 1
    return bool(early and allows and (not nka) and self_delimiting)


def classify_ka(ver, conn, method, framing, nka, early, rmode, slow=False):
    if _known_early(ver, conn, method, framing, nka, early, rmode):
        return EARLY_KEY
    return classify_conn(CONN_POOL[conn])


@harness(
    pre=pre_ka,
    quick=dict(C=6, timeout=160, reach_timeout=60),
    thorough=dict(C=8, timeout=900, reach_timeout=90),
    nshards=dict(quick=9, thorough=9),
    reach=["kept_open_11", "kept_open_10", "closed_by_close_option", "closed_no_keep_alive",
           "closed_undelimited_response", "closed_early_finish", "closed_undelimited_request",
           "closed_early_finish_slow_consumer", "kept_open_slow_consumer"],
    units=["http1connection.HTTP1Connection._can_keep_alive", "HTTP1Connection.write_headers",
           "HTTP1Connection.finish", "HTTP1Connection._finish_request", "HTTP1Connection._read_message",
           "HTTP1ServerConnection._server_request_loop", "web.RequestHandler.flush/finish",
           "web._HandlerDelegate (buffered and stream_request_body)"],
    stubs=["FakeStream + virtual loop; logging disabled; fixed time.time()",
           "request bytes concrete, by symbolic index: version x Connection value (pool) x method x body "
           "framing {none, Content-Length, chunked}; solver-chosen Connection characters are in h_decision",
           "response shapes pooled: buffered / streamed / streamed with explicit Content-Length",
           "slow=True: slow consumer - FakeStream(slow_writes=True): every write stays pending while the "
           "already-buffered request body and pipelined 2nd request are processed, then the peer drains "
           "(flush_writes + run_ready until quiescent)"],
    outside=["client-side keep-alive", "a stream_request_body handler finishing early on a request "
             "WITHOUT a body (tornado closes; the statement is silent)", "idle timeouts",
             "request parse errors (C01)"],
    classify=classify_ka,
)
def h_keepalive(ver: int, conn: int, method: int, framing: int, nka: bool, early: bool, rmode: int,
                slow: bool = False):
    value = CONN_POOL[conn]
    meth = _M[method]
    reqb = request_bytes(ver, value, method, framing, early)
    prog = PROGS[rmode]
    with install() as env:
        app = rig.make_app(prog)
        st = rig.serve(env, app, reqb + rig.SECOND_REQ, no_keep_alive=nka, slow=slow)
        wire, closed = st.wire(), st.closed()
    # ---------------- oracle: the statement's truth table
    opts = options_of(value)
    allows = request_allows(ver, opts, framing != 0 or meth in ("GET", "HEAD"))
    self_delimiting = meth == "HEAD" or rmode != 1 or ver == 1
    body_read = not early
    keep = allows and (not nka) and self_delimiting and body_read

    resps, left = rig.read_all(wire, [meth, "GET"], closed)
    assert len(resps) >= 1, "no complete first response: %r closed=%r" % (wire, closed)
    r1 = resps[0]
    assert r1.code == 200, "unexpected status %d" % r1.code
    assert left != "extra", "stray bytes: %r" % wire
    answered2 = len(resps) == 2
    ch = (r1.get(b"connection") or b"").lower()
    if keep:
        reached("kept_open_11" if ver == 1 else "kept_open_10")
        if slow:
            reached("kept_open_slow_consumer")
        assert answered2 and rig.is_second_response(resps[1]), \
            "connection should stay open and answer the 2nd request: %r closed=%r" % (wire, closed)
        assert not closed, "closed although the request allowed keep-alive"
    else:
        if ver == 1 and "close" in opts:
            reached("closed_by_close_option")
        if nka and allows:
            reached("closed_no_keep_alive")
        if allows and not nka and not self_delimiting:
            reached("closed_undelimited_response")
        if allows and not nka and self_delimiting and not body_read:
            reached("closed_early_finish")
            if slow:
                reached("closed_early_finish_slow_consumer")
        if ver == 0 and "keep-alive" in opts and not allows:
            reached("closed_undelimited_request")
        assert not answered2 and left == "clean", \
            "2nd request answered on a connection that had to close: %r" % wire
        assert closed, "connection left open although it had to close: %r" % wire
        # recorded known finding (known_findings.json): with that key excluded only the two announcement
        # assertions are skipped for that shape; everything else is still checked on those inputs
        skip_announce = (EARLY_KEY in P.exclude and
                         _known_early(ver, conn, method, framing, nka, early, rmode))
        if ver == 1 and not skip_announce:
            assert ch == b"close", \
                "HTTP/1.1 client not told 'Connection: close' (got %r) before closing" % ch
        if not skip_announce:
            assert ch != b"keep-alive", "keep-alive acknowledged on a connection that is then closed"


TECHNIQUE = ("CrossHair symbolic execution of the real keep-alive decision path (version, Connection value with "
             "solver-chosen characters, method, body framing, no_keep_alive, early finish, response shape) with a "
             "pipelined second request; truth-table oracle from the statement")
ASSUMPTIONS = ["FakeStream/virtual loop environment", "Connection value injected after the real header parse"]
