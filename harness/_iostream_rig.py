"""FakeFdStream: the REAL tornado.iostream.BaseIOStream over a scripted kernel (ENVIRONMENT STUB).

Only the abstract fd layer of BaseIOStream is implemented here (fileno, close_fd, read_from_fd,
write_to_fd, get_fd_error); every buffer / future / state-machine line executed by the harnesses
is tornado's own.  The kernel script is what the harnesses make symbolic:

  rscript  list of ints, one item consumed per read_from_fd() call:
             a <= 0  -> would-block (returns None)
             a  > 0  -> up to `a` bytes are copied (capped by len(buf) and by the bytes left
                        before `eofpos`)
           script exhausted -> would-block for ever (peer silent)
  eofpos   the peer's stream ends after this many bytes; what happens there is `cause`:
             0 nothing (would-block for ever)   1 EOF (returns 0)
             2 OSError(ECONNRESET)              3 OSError(EIO)  ("other" error)
  wscript  list of ints, one item consumed per write_to_fd() call:
             a < 0 -> raises BlockingIOError     a >= 0 -> accepts min(a, len(data)) bytes
           script exhausted -> accepts everything (so a final drain terminates)
  wfail    index of the write_to_fd() call that raises OSError(`werrno`) instead (None = never)

Contract assumed of a real transport (part of every claim made with this rig): read_from_fd
returns 1..len(buf) bytes that are the next bytes of the peer's stream, None, or 0 at EOF;
write_to_fd accepts a prefix of the data it is given and reports its length.  The kernel copies
bytes out of the view it is handed and never retains the view.
"""
import builtins
import errno
import operator

from tornado import iostream as _iostream
from tornado.iostream import BaseIOStream

FD = 7

# ---- real buffers -------------------------------------------------------------------------
# CrossHair replaces every bytearray(...) / memoryview(...) call made from traced code by its own
# sequence models (SymbolicByteArray / SymbolicMemoryView); their slice assignment and comparison
# mis-execute on the patterns iostream uses (IndexError / TypeError inside the model = engine
# artefacts).  The names `bytearray` and `memoryview` in tornado.iostream's module namespace are
# therefore bound to stand-ins that build the REAL CPython objects through a call the tracer does
# not intercept.  tornado's code is unchanged; symbolic sizes reaching a real buffer operation
# are realised by the engine (a fork per value - still exhaustive over the bounded domain).
_real_bytearray = builtins.bytearray
_real_memoryview = builtins.memoryview


class BA(_real_bytearray):
    """bytearray subclass: constructing it is not intercepted, instances are real bytearrays."""
    __slots__ = ()


class _MVMeta(type):
    def __instancecheck__(cls, obj):
        return isinstance(obj, _real_memoryview)

    def __subclasscheck__(cls, sub):
        return issubclass(sub, _real_memoryview)


class MV(metaclass=_MVMeta):
    """memoryview stand-in: MV(x) is a real memoryview, isinstance(v, MV) tests for memoryview."""

    def __new__(cls, obj):
        return operator.call(_real_memoryview, obj)


_iostream.bytearray = BA
_iostream.memoryview = MV

# tornado's log output is not part of any property checked with this rig; executing the logging machinery
# (record creation, traceback formatting, stream handler) under the symbolic tracer multiplies the explored
# paths of every scenario that logs (read/write errors) about five-fold.  Stub: the loggers are disabled.
import logging as _logging

for _name in ("tornado.general", "tornado.application", "tornado.access"):
    _logging.getLogger(_name).disabled = True


def conc(x, lo, hi):
    """Return x as a concrete int by branching on its value (lo..hi).  Sizes that reach a
    bytearray / memoryview slice are made concrete this way (a fork per value, exhaustive over
    the bounded domain) so that buffers stay real bytearrays instead of CrossHair sequence models."""
    for v in range(lo, hi + 1):
        if x == v:
            return v
    raise AssertionError("conc: %r outside %d..%d" % (x, lo, hi))


class Kernel:
    def __init__(self, data=b"", rscript=(), eofpos=None, cause=0, wscript=(), wfail=None,
                 werrno=errno.EPIPE):
        self.data = data
        self.rscript = rscript
        self.ri = 0
        self.rpos = 0                 # bytes handed to the stream so far
        self.eofpos = len(data) if eofpos is None else eofpos
        self.cause = cause
        self.end_seen = 0             # times the end condition was reported
        self.injected = None          # the OSError object injected (read or write side)
        self.wscript = wscript
        self.wi = 0
        self.wcalls = 0
        self.wfail = wfail
        self.werrno = werrno
        self.sent = BA()              # transport send log
        self.read_calls = 0
        self.fd_closed = 0
        self.fd_error = None          # returned by get_fd_error (ERROR event)
        self.end_after_script = False

    def exhausted(self):
        """No further bytes will ever be produced by read_from_fd."""
        return self.rpos >= self.eofpos or self.ri >= len(self.rscript)


class FakeFdStream(BaseIOStream):
    def __init__(self, kernel, **kw):
        self.k = kernel
        super().__init__(**kw)

    def fileno(self):
        return FD

    # connect-pending state (BaseIOStream has no connect(); IOStream.connect needs a socket).  These two
    # methods mirror the state changes of IOStream.connect / IOStream._handle_connect (success case) so that
    # BaseIOStream's own handling of _connecting / _connect_future (close, _signal_closed, write queueing,
    # _handle_events) can be driven.
    def fake_connect(self):
        from tornado.concurrent import Future
        self._connecting = True
        self._connect_future = Future()
        self._add_io_state(self.io_loop.WRITE)
        return self._connect_future

    def _handle_connect(self):
        if self._connect_future is not None:
            f = self._connect_future
            self._connect_future = None
            if not f.done():
                f.set_result(self)
        self._connecting = False

    def close_fd(self):
        self.k.fd_closed += 1

    def get_fd_error(self):
        return self.k.fd_error

    def read_from_fd(self, buf):
        k = self.k
        assert k.fd_closed == 0, "read_from_fd on a closed fd"
        k.read_calls += 1
        remaining = k.eofpos - k.rpos
        if k.end_after_script and k.ri >= len(k.rscript):
            remaining = 0              # the peer's stream ends right after the scripted arrivals
        if remaining <= 0:
            k.end_seen += 1
            if k.cause == 1:
                return 0
            if k.cause == 2:
                k.injected = OSError(errno.ECONNRESET, "reset by peer (injected)")
                raise k.injected
            if k.cause == 3:
                k.injected = OSError(errno.EIO, "i/o error (injected)")
                raise k.injected
            return None
        if k.ri >= len(k.rscript):
            return None
        a = k.rscript[k.ri]
        k.ri += 1
        if a <= 0:
            return None
        n = len(buf)
        assert n > 0, "read_from_fd called with an empty buffer"
        if a < n:
            n = a
        if remaining < n:
            n = remaining
        n = conc(n, 1, len(buf))
        buf[:n] = k.data[k.rpos:k.rpos + n]
        k.rpos += n
        return n

    def write_to_fd(self, data):
        k = self.k
        assert k.fd_closed == 0, "write_to_fd on a closed fd"
        assert len(data) > 0, "write_to_fd called with no data"
        call = k.wcalls
        k.wcalls += 1
        if k.wfail is not None and call == k.wfail:
            k.injected = OSError(k.werrno, "write error (injected)")
            raise k.injected
        if k.wi >= len(k.wscript):
            n = len(data)
        else:
            a = k.wscript[k.wi]
            k.wi += 1
            if a < 0:
                raise BlockingIOError(errno.EAGAIN, "would block (scripted)")
            n = len(data)
            if a < n:
                n = conc(a, 0, n)
        if n > 0:
            k.sent += bytes(data[:n])      # copy; the view is not retained
        return n


def registered(env, events):
    """Is the stream's fd registered on the loop for (any of) `events`?"""
    h = env.loop.handlers.get(FD)
    return h is not None and (h[1] & events) != 0


def fire(env, events):
    """Deliver a readiness event the way the IOLoop does: call the registered handler, then let
    the loop run its callbacks."""
    h = env.loop.handlers.get(FD)
    assert h is not None
    h[0](FD, events)
    env.run_ready()
