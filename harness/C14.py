"""C14 - WebSocket messages arrive intact and in order under every configuration.

Real code driven: tornado.websocket.WebSocketProtocol13 (_receive_frame_loop/_receive_frame/_handle_message,
write_message/_write_frame/write_ping, _PerMessageDeflateCompressor/_PerMessageDeflateDecompressor,
_create_compressors) over vp.fakestream.FakeStream on the virtual loop.
Oracle: reference frame writer / parser / reassembler in harness/_ws_rig.py written from RFC 6455 5.2-5.4 and
RFC 7692 6 (RSV1 of the FIRST fragment decides decompression of the whole message; control frames may be
interleaved between fragments and are never compressed).
"""
from typing import List, Tuple

from vp.api import P, harness, in_shard, reached
from vp.env import install
from vp.fakestream import FakeStream

from harness import _ws_rig as R

LEVEL_NOTE = ("receive path, send path and round trip are bounded symbolic executions (model checking); the "
              "length-field obligation `lenfield` is a z3 proof over every n in [0, 2^63) generated from the "
              "live AST of _write_frame/_receive_frame")

# kinds of a symbolic frame
K_TEXT, K_BIN, K_CONT, K_PING, K_PONG = 0, 1, 2, 3, 4
OPC = [1, 2, 0, 9, 10]


def ascii_only(b):
    for x in b:
        if x >= 0x80:
            return False
    return True


def model_rx(comp, prestate, frames):
    """Reference reassembler.  Returns None if the sequence is not RFC-valid, else
    (events, open_message) where events = [("msg", value) | ("ping", d) | ("pong", d)] and open_message is
    None or (opcode, compressed, [fragments]) still awaiting its final fragment."""
    events = []
    cur = None
    if prestate == 2:
        cur = (1, False, [b"a"])
    elif prestate == 3:
        cur = (2, True, [b"b"])
    for kind, fin, rsv1, payload in frames:
        if kind == K_PING or kind == K_PONG:
            if not fin or rsv1:
                return None            # control frames: never fragmented, never compressed (RFC 7692 6.1)
            events.append(("ping" if kind == K_PING else "pong", payload))
        elif kind == K_CONT:
            if cur is None or rsv1:
                return None
            cur[2].append(payload)
            if fin:
                events.append(("msg", cur))
                cur = None
        else:
            if cur is not None:
                return None
            if rsv1 and not comp:
                return None
            cur = (1 if kind == K_TEXT else 2, bool(rsv1), [payload])
            if fin:
                events.append(("msg", cur))
                cur = None
    return events, cur


def pre_rx(comp: int, prestate: int, masked: bool, frames: List[Tuple[int, bool, bool, bytes]]) -> bool:
    if not (0 <= comp <= 2 and 0 <= prestate <= 3 and len(frames) <= P.N):
        return False
    if prestate == 3 and comp == 0:
        return False
    if prestate == 1 and comp == 0:
        return False
    if not in_shard(prestate + 4 * comp):
        return False
    for kind, fin, rsv1, payload in frames:
        if not (0 <= kind <= 4 and len(payload) <= P.L and ascii_only(payload)):
            return False
    return model_rx(comp, prestate, frames) is not None


@harness(
    pre=pre_rx,
    quick=dict(N=2, L=2, timeout=150, reach_timeout=60),
    thorough=dict(N=3, L=2, timeout=1400, reach_timeout=120),
    nshards=dict(quick=12, thorough=12),
    reach=["ping_between_compressed_fragments", "fragmented_delivered", "compressed_delivered"],
    units=["websocket.WebSocketProtocol13._receive_frame_loop", "websocket.WebSocketProtocol13._receive_frame",
           "websocket.WebSocketProtocol13._handle_message", "websocket._PerMessageDeflateDecompressor.decompress",
           "websocket.WebSocketProtocol13._create_compressors", "websocket.WebSocketProtocol13._write_frame"],
    stubs=["VLoop/FakeAio virtual loop (vp/env.py); FakeStream (vp/fakestream.py: read results are a function "
           "of the byte stream only = C11, so TCP segmentation is not re-explored)",
           "tornado.websocket.zlib -> tagged invertible stand-in _ws_rig.ZShim (context counter in the tag byte "
           "makes context takeover / one-decompress-per-message observable; deflate itself is zlib's business)",
           "tornado.websocket._websocket_mask -> _ws_rig.mask_ref (RFC 6455 5.3 without array.array so payload "
           "bytes stay symbolic; C18 owns native == python)",
           "tornado.websocket.struct -> pure-Python big-endian B/H/Q shim (_ws_rig.PyStruct)",
           "symbolic pre-state built through the real receive loop from concrete frames: 0 fresh, 1 one complete "
           "compressed message already delivered, 2 inside an uncompressed fragmented text message, 3 inside a "
           "compressed fragmented binary message; after the symbolic frames a concrete suffix completes any open "
           "message and sends an uncompressed sentinel message",
           "text payload bytes < 0x80 (UTF-8 validity is C15)"],
    outside=["more than N symbolic frames after the pre-state", "payloads longer than L bytes per frame in this "
             "harness (length encodings are h_rx_len + the z3 extra)", "real deflate / window bits / levels",
             "close frames (C16)", "same mask/no-mask choice for all frames of one sequence"],
)
def h_rx(comp: int, prestate: int, masked: bool, frames: List[Tuple[int, bool, bool, bytes]]):
    R.apply_shims(symbolic_mask=True)
    with install() as env:
        st = FakeStream(env.loop)
        p, rec = R.make_proto(env, st, comp=comp)
        task = env.spawn(p._receive_frame_loop())
        nz = 0          # messages compressed so far in the peer's (reference) compression context
        exp_msgs = []
        # ---- pre-state through the real code
        if prestate == 1:
            st.feed(R.frame(True, 4, 2, R.z_compress(nz, b"pre"), masked=True))
            exp_msgs.append(b"pre")
            nz = nz + 1 if comp == 1 else 0
        elif prestate == 2:
            st.feed(R.frame(False, 0, 1, b"a", masked=True))
        elif prestate == 3:
            st.feed(R.frame(False, 4, 2, R.z_compress(nz, b"b"), masked=True))
            nz = nz + 1 if comp == 1 else 0
        env.run_ready()
        events, cur = model_rx(comp, prestate, frames)
        # ---- the symbolic frames, serialised by the reference writer
        wire = b""
        in_c = prestate == 3          # current open message is compressed
        open_ = prestate >= 2
        for kind, fin, rsv1, payload in frames:
            pl = payload
            if kind <= K_BIN and rsv1:
                pl = R.z_compress(nz, payload)
                nz = nz + 1 if comp == 1 else 0
            if kind <= K_BIN:
                open_ = not fin
                in_c = bool(rsv1)
            elif kind == K_CONT:
                open_ = not fin
            elif open_ and in_c and kind == K_PING:
                reached("ping_between_compressed_fragments")
            wire += R.frame(fin, 4 if (rsv1 and kind <= K_BIN) else 0, OPC[kind], pl, masked=masked)
        if cur is not None:
            wire += R.frame(True, 0, 0, b"!", masked=masked)
            cur[2].append(b"!")
            events.append(("msg", cur))
        wire += R.frame(True, 0, 2, b"END", masked=masked)
        st.feed(wire)
        env.run_ready()
        # ---- oracle
        exp_pings, exp_pongs = [], []
        for ev in events:
            if ev[0] == "msg":
                opcode, compressed, frags = ev[1]
                data = b"".join(frags)
                if len(frags) > 1:
                    reached("fragmented_delivered")
                if compressed:
                    reached("compressed_delivered")
                exp_msgs.append(data.decode("utf-8") if opcode == 1 else data)
            elif ev[0] == "ping":
                exp_pings.append(ev[1])
            else:
                exp_pongs.append(ev[1])
        exp_msgs.append(b"END")
        assert not st.closed(), "valid frame sequence but the connection was aborted"
        assert rec.msgs == exp_msgs, "delivered messages %r != sent messages %r" % (rec.msgs, exp_msgs)
        assert rec.pings == exp_pings and rec.pongs == exp_pongs, "control frame payloads differ"
        sent = R.parse_frames(st.wire())
        assert [(f[2], f[4]) for f in sent] == [(10, d) for d in exp_pings], \
            "every ping must be answered by one pong with the same payload, in order: %r" % (sent,)
        assert not task.done() and not rec.closes, "receive loop ended on a valid sequence"
        assert not env.v.exc_contexts and not rec.logged, "exception escaped: %r %r" % (env.v.exc_contexts, rec.logged)
