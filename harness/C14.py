"""C14 - WebSocket messages arrive intact and in order under every configuration.

Real code driven: tornado.websocket.WebSocketProtocol13 (_receive_frame_loop/_receive_frame/_handle_message,
write_message/_write_frame/write_ping, _PerMessageDeflateCompressor/_PerMessageDeflateDecompressor,
_create_compressors) over vp.fakestream.FakeStream on the virtual loop.
Oracle: reference frame writer / parser / reassembler in harness/_ws_rig.py written from RFC 6455 5.2-5.4 and
RFC 7692 6 (RSV1 of the FIRST fragment decides decompression of the whole message; control frames may be
interleaved between fragments and are never compressed).
"""
from typing import List, Tuple

from vp.api import P, harness, in_shard, reached
from vp.env import install
from vp.fakestream import FakeStream

from harness import _ws_rig as R

LEVEL_NOTE = ("receive path, send path and round trip are bounded symbolic executions (model checking); the "
              "length-field obligation `lenfield` is a z3 proof over every n in [0, 2^63) generated from the "
              "live AST of _write_frame/_receive_frame")

# kinds of a symbolic frame
K_TEXT, K_BIN, K_CONT, K_PING, K_PONG = 0, 1, 2, 3, 4
OPC = [1, 2, 0, 9, 10]


def ascii_only(b):
    for x in b:
        if x >= 0x80:
            return False
    return True


def model_rx(comp, prestate, frames):
    """Reference reassembler.  Returns None if the sequence is not RFC-valid, else
    (events, open_message) where events = [("msg", value) | ("ping", d) | ("pong", d)] and open_message is
    None or (opcode, compressed, [fragments]) still awaiting its final fragment."""
    events = []
    cur = None
    if prestate == 2:
        cur = (1, False, [b"a"])
    elif prestate == 3:
        cur = (2, True, [b"b"])
    for kind, fin, rsv1, payload in frames:
        if kind == K_PING or kind == K_PONG:
            if not fin or rsv1:
                return None            # control frames: never fragmented, never compressed (RFC 7692 6.1)
            events.append(("ping" if kind == K_PING else "pong", payload))
        elif kind == K_CONT:
            if cur is None or rsv1:
                return None
            cur[2].append(payload)
            if fin:
                events.append(("msg", cur))
                cur = None
        else:
            if cur is not None:
                return None
            if rsv1 and not comp:
                return None
            cur = (1 if kind == K_TEXT else 2, bool(rsv1), [payload])
            if fin:
                events.append(("msg", cur))
                cur = None
    return events, cur


def mkbytes(n, bs):
    """bytes of CONCRETE length n (decided by branching) whose contents are the symbolic ints bs[:n]."""
    cn = R.pick(n, len(bs) + 1)
    return bytes(bs[:cn])


def decode_frames(frames):
    return [(k, fin, rsv1, mkbytes(n, [b0, b1])) for k, fin, rsv1, n, b0, b1 in frames]


def pre_rx(comp: int, prestate: int, frames: List[Tuple[int, bool, bool, int, int, int]]) -> bool:
    if not (0 <= comp <= 2 and 0 <= prestate <= 3 and len(frames) <= P.N):
        return False
    if prestate == 3 and comp == 0:
        return False
    if prestate == 1 and comp != 1:
        return False
    if not in_shard(prestate + 4 * comp):
        return False
    for kind, fin, rsv1, n, b0, b1 in frames:
        if not (0 <= b0 < 128 and 0 <= b1 < 128):
            return False
    for kind, fin, rsv1, n, b0, b1 in frames:
        if not (0 <= kind <= 4 and 0 <= n <= P.L):
            return False
    return model_rx(comp, prestate, decode_frames(frames)) is not None


@harness(
    pre=pre_rx,
    quick=dict(N=2, L=1, timeout=150, reach_timeout=60),
    thorough=dict(N=3, L=1, timeout=1400, reach_timeout=120),
    nshards=dict(quick=12, thorough=12),
    reach=["ping_between_compressed_fragments", "fragmented_delivered", "compressed_delivered"],
    units=["websocket.WebSocketProtocol13._receive_frame_loop", "websocket.WebSocketProtocol13._receive_frame",
           "websocket.WebSocketProtocol13._handle_message", "websocket._PerMessageDeflateDecompressor.decompress",
           "websocket.WebSocketProtocol13._create_compressors", "websocket.WebSocketProtocol13._write_frame"],
    stubs=["VLoop/FakeAio virtual loop (vp/env.py); FakeStream (vp/fakestream.py: read results are a function "
           "of the byte stream only = C11, so TCP segmentation is not re-explored)",
           "tornado.websocket.zlib -> tagged invertible stand-in _ws_rig.ZShim (context counter in the tag byte "
           "makes context takeover / one-decompress-per-message observable; deflate itself is zlib's business)",
           "tornado.websocket._websocket_mask -> _ws_rig.mask_ref (RFC 6455 5.3 without array.array so payload "
           "bytes stay symbolic; C18 owns native == python)",
           "tornado.websocket.struct -> pure-Python big-endian B/H/Q shim (_ws_rig.PyStruct)",
           "symbolic pre-state built through the real receive loop from concrete frames: 0 fresh, 1 one complete "
           "compressed message already delivered, 2 inside an uncompressed fragmented text message, 3 inside a "
           "compressed fragmented binary message; after the symbolic frames a concrete suffix completes any open "
           "message and sends an uncompressed sentinel message",
           "text payload bytes < 0x80 (UTF-8 validity is C15)"],
    outside=["more than N symbolic frames after the pre-state", "payloads longer than L bytes per frame in this "
             "harness (length encodings are h_rx_len + the z3 extra)", "real deflate / window bits / levels",
             "close frames (C16)", "masked frames / long length forms in multi-frame sequences (single-frame: h_rx_len)"],
)
def h_rx(comp: int, prestate: int, frames: List[Tuple[int, bool, bool, int, int, int]]):
    R.apply_shims(symbolic_mask=True)
    masked = False
    frames = decode_frames(frames)
    with install() as env:
        st = FakeStream(env.loop)
        p, rec = R.make_proto(env, st, comp=comp)
        task = env.spawn(p._receive_frame_loop())
        nz = 0          # messages compressed so far in the peer's (reference) compression context
        exp_msgs = []
        # ---- pre-state through the real code
        if prestate == 1:
            st.feed(R.frame(True, 4, 2, R.z_compress(nz, b"pre"), masked=True))
            exp_msgs.append(b"pre")
            nz = nz + 1 if comp == 1 else 0
        elif prestate == 2:
            st.feed(R.frame(False, 0, 1, b"a", masked=True))
        elif prestate == 3:
            st.feed(R.frame(False, 4, 2, R.z_compress(nz, b"b"), masked=True))
            nz = nz + 1 if comp == 1 else 0
        env.run_ready()
        events, cur = model_rx(comp, prestate, frames)
        # ---- the symbolic frames, serialised by the reference writer
        wire = b""
        in_c = prestate == 3          # current open message is compressed
        open_ = prestate >= 2
        for kind, fin, rsv1, payload in frames:
            pl = payload
            if kind <= K_BIN and rsv1:
                pl = R.z_compress(nz, payload)
                nz = nz + 1 if comp == 1 else 0
            if kind <= K_BIN:
                open_ = not fin
                in_c = bool(rsv1)
            elif kind == K_CONT:
                open_ = not fin
            elif open_ and in_c and kind == K_PING:
                reached("ping_between_compressed_fragments")
            wire += R.frame(fin, 4 if (rsv1 and kind <= K_BIN) else 0, OPC[kind], pl, masked=masked)
        if cur is not None:
            wire += R.frame(True, 0, 0, b"!", masked=masked)
            cur[2].append(b"!")
            events.append(("msg", cur))
        wire += R.frame(True, 0, 2, b"END", masked=masked)
        st.feed(wire)
        env.run_ready()
        # ---- oracle
        exp_pings, exp_pongs = [], []
        for ev in events:
            if ev[0] == "msg":
                opcode, compressed, frags = ev[1]
                data = b"".join(frags)
                if len(frags) > 1:
                    reached("fragmented_delivered")
                if compressed:
                    reached("compressed_delivered")
                exp_msgs.append(data.decode("utf-8") if opcode == 1 else data)
            elif ev[0] == "ping":
                exp_pings.append(ev[1])
            else:
                exp_pongs.append(ev[1])
        exp_msgs.append(b"END")
        assert not task.done(), "receive loop ended on a valid sequence: %r" % (task,)
        assert not st.closed(), "valid frame sequence but the connection was aborted"
        assert rec.msgs == exp_msgs, "delivered messages %r != sent messages %r" % (rec.msgs, exp_msgs)
        assert rec.pings == exp_pings and rec.pongs == exp_pongs, "control frame payloads differ"
        sent = R.parse_frames(st.wire())
        assert [(f[2], f[4]) for f in sent] == [(10, d) for d in exp_pings], \
            "every ping must be answered by one pong with the same payload, in order: %r" % (sent,)
        assert not task.done() and not rec.closes, "receive loop ended on a valid sequence"
        assert not env.v.exc_contexts and not rec.logged, "exception escaped: %r %r" % (env.v.exc_contexts, rec.logged)


# ----------------------------------------------------------------------------------------------
# One symbolic frame with every encoding dimension (mask bit, symbolic 4-byte mask, 7/16/64-bit
# length form, payload of 0..L symbolic bytes) from each pre-state.

MASKS = [b"\x00\x00\x00\x00", b"\xff\x80\x01\x7f", b"\x12\x34\x56\x78"]


def pre_rx_len(comp: int, prestate: int, kind: int, fin: bool, rsv1: bool, mi: int, form: int,
               n: int, pb: Tuple[int, int, int]) -> bool:
    # data ranges first (each rejection is one path, not one per discrete combination)
    for i in range(3):
        if not (0 <= pb[i] < 128):
            return False
    if not (0 <= comp <= 1 and 0 <= prestate <= 3 and 0 <= kind <= 4 and 0 <= form <= 2 and 0 <= n <= P.L
            and 0 <= mi <= 3):
        return False
    if prestate in (1, 3) and comp == 0:
        return False
    if not in_shard(form + 3 * prestate):
        return False
    if mi > 0 and pb != (97, 98, 99):
        return False            # masked frames: concrete payload (symbolic XOR explodes in CrossHair)
    if kind >= K_PING and form != 0:
        return False            # RFC 6455 5.5: control frames carry at most 125 bytes, hence the 7-bit form
    return model_rx(comp, prestate, [(kind, fin, rsv1, mkbytes(n, list(pb)))]) is not None


@harness(
    pre=pre_rx_len,
    quick=dict(L=3, timeout=120, reach_timeout=60),
    thorough=dict(L=3, timeout=900, reach_timeout=120),
    nshards=dict(quick=12, thorough=12),
    reach=["masked_64bit_form", "unmasked_16bit_form"],
    units=["websocket.WebSocketProtocol13._receive_frame", "websocket.WebSocketProtocol13._handle_message",
           "websocket._PerMessageDeflateDecompressor.decompress"],
    stubs=["as h_rx, but the real tornado.util._websocket_mask_python; unmasked frames carry symbolic payload bytes, "
           "masked frames a concrete payload and one of 3 pooled masks chosen by symbolic index (XOR of two symbolic "
           "ints explodes in CrossHair; the masking algebra is C18)"],
    outside=["payload longer than L bytes (length decoding for every n < 2^63: extra `lenfield`)"],
)
def h_rx_len(comp: int, prestate: int, kind: int, fin: bool, rsv1: bool, mi: int, form: int,
             n: int, pb: Tuple[int, int, int]):
    R.apply_shims(symbolic_mask=False)
    cmi = R.pick(mi, 4)
    masked = cmi > 0
    mask = MASKS[cmi - 1] if masked else b"\x00\x00\x00\x00"
    payload = b"abc"[:R.pick(n, 4)] if masked else mkbytes(n, list(pb))
    with install() as env:
        st = FakeStream(env.loop)
        p, rec = R.make_proto(env, st, comp=comp)
        task = env.spawn(p._receive_frame_loop())
        exp_msgs = []
        nz = 0
        if prestate == 1:
            st.feed(R.frame(True, 4, 2, R.z_compress(0, b"pre")))
            exp_msgs.append(b"pre")
            nz = 1
        elif prestate == 2:
            st.feed(R.frame(False, 0, 1, b"a", masked=True))
        elif prestate == 3:
            st.feed(R.frame(False, 4, 2, R.z_compress(0, b"b"), masked=True))
            nz = 1
        env.run_ready()
        events, cur = model_rx(comp, prestate, [(kind, fin, rsv1, payload)])
        pl = payload
        if kind <= K_BIN and rsv1:
            pl = R.z_compress(nz, payload)
        cform = R.pick(form, 3)
        if masked and cform == 2:
            reached("masked_64bit_form")
        if not masked and cform == 1:
            reached("unmasked_16bit_form")
        wire = R.frame(fin, 4 if (rsv1 and kind <= K_BIN) else 0, OPC[kind], pl, masked=masked, form=cform,
                       mask=mask)
        if cur is not None:
            wire += R.frame(True, 0, 0, b"!")
            cur[2].append(b"!")
            events.append(("msg", cur))
        wire += R.frame(True, 0, 2, b"END")
        st.feed(wire)
        env.run_ready()
        exp_pings, exp_pongs = [], []
        for ev in events:
            if ev[0] == "msg":
                opcode, compressed, frags = ev[1]
                data = b"".join(frags)
                exp_msgs.append(data.decode("utf-8") if opcode == 1 else data)
            elif ev[0] == "ping":
                exp_pings.append(ev[1])
            else:
                exp_pongs.append(ev[1])
        exp_msgs.append(b"END")
        assert not task.done() and not st.closed(), "valid frame but the connection was aborted"
        assert rec.msgs == exp_msgs, "delivered messages %r != sent messages %r" % (rec.msgs, exp_msgs)
        assert rec.pings == exp_pings and rec.pongs == exp_pongs, "control frame payloads differ"
        sent = R.parse_frames(st.wire())
        assert [(f[2], f[4]) for f in sent] == [(10, d) for d in exp_pings], "pong must echo the ping payload"
        assert not env.v.exc_contexts and not rec.logged


# ----------------------------------------------------------------------------------------------
# Send path + round trip: real write_message / write_ping -> wire -> reference parser (+ reference
# inverse of the compression stand-in) == the messages; then the same wire into a second REAL protocol
# instance configured as the peer -> its application receives exactly the same messages.

def pre_tx(comp: int, mask_out: bool, mi: int, uni: str, msgs: List[Tuple[int, int, int, int]]) -> bool:
    if not (0 <= comp <= 3 and len(msgs) <= P.N):
        return False
    if not in_shard(comp + 4 * (1 if mask_out else 0)):
        return False
    if mask_out:
        # masked direction: pooled mask, concrete payload bytes (uni/b0/b1 unused and unconstrained)
        if not 0 <= mi <= 2:
            return False
    else:
        for k, n, b0, b1 in msgs:
            if not (0 <= b0 < 128 and 0 <= b1 < 128):
                return False
        if len(uni) > 1:
            return False
        for ch in uni:
            if 0xD800 <= ord(ch) <= 0xDFFF:
                return False         # lone surrogates are not encodable text
    for k, n, b0, b1 in msgs:
        if not (0 <= k <= 2 and 0 <= n <= P.L):
            return False
    return True


@harness(
    pre=pre_tx,
    quick=dict(N=2, L=1, timeout=120, reach_timeout=60),
    thorough=dict(N=3, L=2, timeout=1200, reach_timeout=120),
    nshards=dict(quick=8, thorough=8),
    reach=["two_compressed_persistent", "masked_text_roundtrip", "non_ascii_text"],
    units=["websocket.WebSocketProtocol13.write_message", "websocket.WebSocketProtocol13._write_frame",
           "websocket.WebSocketProtocol13.write_ping", "websocket._PerMessageDeflateCompressor.compress",
           "websocket.WebSocketProtocol13._receive_frame", "websocket.WebSocketProtocol13._handle_message"],
    stubs=["as h_rx_len; os.urandom inside tornado.websocket returns one of 3 pooled masks (symbolic index); in the "
           "masking direction message bytes are concrete with symbolic length, in the unmasked direction message "
           "bytes are symbolic and the first text message additionally ends in one arbitrary symbolic code point",
           "comp: 0 off, 1 context takeover both ways, 2 receiver-side no_context_takeover for the peer, "
           "3 no_context_takeover both ways; the receiving protocol is created with the mirrored agreement"],
    outside=["messages longer than L+1 code points/bytes (length field: extra `lenfield`)", "dict messages (json)"],
)
def h_tx(comp: int, mask_out: bool, mi: int, uni: str, msgs: List[Tuple[int, int, int, int]]):
    mask = MASKS[R.pick(mi, 3)] if mask_out else MASKS[0]
    if mask_out:
        uni = ""
    R.apply_shims(symbolic_mask=False, urandom=mask)
    with install() as env:
        st = FakeStream(env.loop)
        side = "client" if mask_out else "server"
        tx, _ = R.make_proto(env, st, comp=comp, mask_outgoing=mask_out, side=side)
        sent_msgs, sent_pings = [], []
        first_text = True
        for k, n, b0, b1 in msgs:
            b = b"ab"[:R.pick(n, 3)] if mask_out else mkbytes(n, [b0, b1])
            if k == 0:
                s = b.decode("utf-8")
                if first_text:
                    s = s + uni
                    first_text = False
                    if len(uni) == 1 and ord(uni) > 0x7F:
                        reached("non_ascii_text")
                tx.write_message(s)
                sent_msgs.append((1, s))
            elif k == 1:
                tx.write_message(b, binary=True)
                sent_msgs.append((2, b))
            else:
                tx.write_ping(b)
                sent_pings.append(b)
            env.run_ready()
        wire = st.wire()
        frames = R.parse_frames(wire)
        # ---- reference decoding of the wire
        persistent_tx = comp == 1 or comp == 2      # sender keeps its context unless <side>_no_context_takeover
        nz = 0
        got_msgs, got_pings = [], []
        for fin, rsv, opcode, masked, payload, minimal in frames:
            assert fin, "write_message / write_ping must produce unfragmented frames"
            assert masked == mask_out, "mask bit must follow the direction (client masks, server does not)"
            assert minimal, "length must use the minimal encoding"
            if opcode == 9:
                assert rsv == 0
                got_pings.append(payload)
                continue
            assert opcode in (1, 2), "unexpected opcode %r" % opcode
            if comp:
                assert rsv == 4, "compressed message must carry RSV1 only"
                assert len(payload) >= 2 and payload[0] == 0x30 + nz % 8 and payload[1] == 0, \
                    "compression context misuse (message #%d)" % nz
                if persistent_tx:
                    if nz == 1:
                        reached("two_compressed_persistent")
                    nz += 1
                payload = payload[2:]
            else:
                assert rsv == 0, "RSV bits without a negotiated extension"
            got_msgs.append((opcode, payload.decode("utf-8") if opcode == 1 else payload))
        assert got_msgs == sent_msgs, "wire carries %r, application sent %r" % (got_msgs, sent_msgs)
        assert got_pings == sent_pings
        # ---- round trip through the real receiver (mirrored agreement)
        st2 = FakeStream(env.loop)
        rcomp = [0, 1, 1, 2][R.pick(comp, 4)]
        rx, rec = R.make_proto(env, st2, comp=rcomp, side="server" if mask_out else "client")
        task = env.spawn(rx._receive_frame_loop())
        st2.feed(wire)
        env.run_ready()
        if mask_out and len(sent_msgs) > 0 and sent_msgs[0][0] == 1 and len(sent_msgs[0][1]) > 0:
            reached("masked_text_roundtrip")
        assert rec.msgs == [m for _, m in sent_msgs], "peer received %r, sent %r" % (rec.msgs, sent_msgs)
        assert rec.pings == sent_pings
        assert not st2.closed() and not task.done() and not env.v.exc_contexts and not rec.logged


# ----------------------------------------------------------------------------------------------
# EXTRA: length field, every n in [0, 2^63): z3 obligations generated from the live AST.

def _extra_lenfield(tier, seed):
    import ast
    import inspect
    import textwrap
    import time
    import z3
    import tornado.websocket as W

    t0 = time.time()
    SZ = {"B": 1, "H": 2, "Q": 8}

    def fn_ast(f):
        return ast.parse(textwrap.dedent(inspect.getsource(f))).body[0]

    def fmt_sizes(fmt):
        assert fmt[0] in "!>" or set(fmt) <= {"B"}, "unexpected byte order in %r" % fmt
        return [SZ[c] for c in fmt.lstrip("!>")]

    def is_struct_call(node, name):
        return (isinstance(node, ast.Call) and isinstance(node.func, ast.Attribute) and node.func.attr == name
                and isinstance(node.func.value, ast.Name) and node.func.value.id == "struct")

    def ev(node, envd):
        """AST expression -> z3 BitVec(64) / Bool."""
        if isinstance(node, ast.Constant) and isinstance(node.value, int):
            return z3.BitVecVal(node.value, 64)
        if isinstance(node, ast.Name):
            return envd[node.id]
        if isinstance(node, ast.BinOp):
            a, b = ev(node.left, envd), ev(node.right, envd)
            if isinstance(node.op, ast.BitOr):
                return a | b
            if isinstance(node.op, ast.BitAnd):
                return a & b
            raise NotImplementedError(ast.dump(node.op))
        if isinstance(node, ast.Compare) and len(node.ops) == 1:
            a, b = ev(node.left, envd), ev(node.comparators[0], envd)
            op = node.ops[0]
            return {ast.Lt: z3.ULT, ast.LtE: z3.ULE, ast.Gt: z3.UGT, ast.GtE: z3.UGE,
                    ast.Eq: lambda x, y: x == y}[type(op)](a, b)
        if isinstance(node, ast.Call) and isinstance(node.func, ast.Name) and node.func.id == "bool":
            return ev(node.args[0], envd) != z3.BitVecVal(0, 64)
        raise NotImplementedError(ast.dump(node))

    # ---------------- encoder: _write_frame
    wf = fn_ast(W.WebSocketProtocol13._write_frame)
    mask_vals = None
    enc_chain = None
    for node in ast.walk(wf):
        if isinstance(node, ast.If):
            t = node.test
            if (isinstance(t, ast.Attribute) and t.attr == "mask_outgoing" and mask_vals is None
                    and isinstance(node.body[0], ast.Assign) and node.body[0].targets[0].id == "mask_bit"):
                mask_vals = [node.body[0].value.value, node.orelse[0].value.value]
            if (isinstance(t, ast.Compare) and isinstance(t.left, ast.Name) and t.left.id == "data_len"
                    and enc_chain is None and any(isinstance(x, ast.AugAssign) for x in node.body)):
                enc_chain = node
    assert mask_vals is not None and enc_chain is not None, "could not locate the length encoder in _write_frame"

    def pack_of(stmts):
        for s_ in stmts:
            if isinstance(s_, ast.AugAssign) and is_struct_call(s_.value, "pack"):
                return s_.value.args[0].value, s_.value.args[1:]
        raise AssertionError("no struct.pack in branch")

    enc_branches = []       # (condition ast list [(test, polarity)], fmt, arg asts)
    conds = []
    node = enc_chain
    while True:
        fmt, args = pack_of(node.body)
        enc_branches.append((conds + [(node.test, True)], fmt, args))
        conds = conds + [(node.test, False)]
        if len(node.orelse) == 1 and isinstance(node.orelse[0], ast.If):
            node = node.orelse[0]
        else:
            fmt, args = pack_of(node.orelse)
            enc_branches.append((conds, fmt, args))
            break

    # ---------------- decoder: _receive_frame
    rf = fn_ast(W.WebSocketProtocol13._receive_frame)
    dec_masked = dec_field = dec_chain = None
    for node in rf.body:
        if isinstance(node, ast.Assign) and isinstance(node.targets[0], ast.Name):
            if node.targets[0].id == "is_masked":
                dec_masked = node.value
            if node.targets[0].id == "payloadlen" and dec_field is None:
                dec_field = node.value
        if (isinstance(node, ast.If) and isinstance(node.test, ast.Compare) and isinstance(node.test.left, ast.Name)
                and node.test.left.id == "payloadlen" and dec_chain is None):
            dec_chain = node
    assert dec_masked is not None and dec_field is not None and dec_chain is not None, \
        "could not locate the length decoder in _receive_frame"
    dec_branches = []       # (conds, nread or 0, fmt or None)
    conds = []
    node = dec_chain
    while node is not None:
        nread, fmt = 0, None
        for s_ in node.body:
            for sub in ast.walk(s_):
                if (isinstance(sub, ast.Call) and isinstance(sub.func, ast.Attribute)
                        and sub.func.attr == "_read_bytes"):
                    nread = sub.args[0].value
                if is_struct_call(sub, "unpack"):
                    fmt = sub.args[0].value
        dec_branches.append((conds + [(node.test, True)], nread, fmt))
        conds = conds + [(node.test, False)]
        if len(node.orelse) == 1 and isinstance(node.orelse[0], ast.If):
            node = node.orelse[0]
        else:
            assert not node.orelse, "unexpected else branch in the length decoder"
            node = None

    def conj(cl, envd):
        out = []
        for test, pol in cl:
            c = ev(test, envd)
            out.append(c if pol else z3.Not(c))
        return z3.And(out) if out else z3.BoolVal(True)

    n = z3.BitVec("n", 64)
    queries = 0
    obligations = 0
    discharged = 0
    violations = []
    samples = []
    solver_s = 0.0

    def encode_sym(nv, mb):
        """list of (path condition, [byte exprs], fits-condition) per encoder branch."""
        out = []
        envd = {"data_len": nv, "mask_bit": z3.BitVecVal(mb, 64)}
        for cl, fmt, args in enc_branches:
            sizes = fmt_sizes(fmt)
            assert len(sizes) == len(args)
            bs = []
            fits = []
            for sz, a in zip(sizes, args):
                v = ev(a, envd)
                if sz < 8:
                    fits.append(z3.ULT(v, z3.BitVecVal(1 << (8 * sz), 64)))
                for k in range(sz):
                    sh = 8 * (sz - 1 - k)
                    bs.append(z3.Extract(sh + 7, sh, v))
            out.append((conj(cl, envd), bs, z3.And(fits) if fits else z3.BoolVal(True)))
        return out

    def decode_sym(bs):
        """(decoded length, is_masked, consumed extension bytes as python int per branch list)"""
        b1 = z3.ZeroExt(56, bs[0])
        envd = {"mask_payloadlen": b1}
        field = ev(dec_field, envd)
        masked = ev(dec_masked, envd)
        envd["payloadlen"] = field
        res = []
        for cl, nread, fmt in dec_branches:
            c = conj(cl, envd)
            if fmt is None:
                res.append((c, field, 0))
            else:
                sizes = fmt_sizes(fmt)
                assert len(sizes) == 1 and sizes[0] == nread, "read size and unpack format disagree"
                if len(bs) - 1 < nread:
                    res.append((c, None, nread))
                else:
                    v = z3.Concat(*bs[1:1 + nread]) if nread > 1 else bs[1]
                    res.append((c, z3.ZeroExt(64 - 8 * nread, v), nread))
        return res, masked

    def check(assumps, goal, what):
        nonlocal queries, obligations, discharged, solver_s
        obligations += 1
        s = z3.Solver()
        s.add(*assumps)
        s.add(z3.Not(goal))
        t = time.time()
        r = s.check()
        solver_s += time.time() - t
        queries += 1
        if r == z3.unsat:
            discharged += 1
            return None
        if r == z3.sat:
            return s.model()
        raise RuntimeError("solver returned unknown for " + what)

    dom = z3.ULT(n, z3.BitVecVal(1 << 63, 64))
    rfc_form = [z3.ULE(n, 125), z3.And(z3.UGE(n, 126), z3.ULE(n, 65535)), z3.UGE(n, 65536)]
    rfc_ext = [0, 2, 8]
    for mb in mask_vals:
        encs = encode_sym(n, mb)
        assert len(encs) == 3, "expected three length forms"
        for i, (c, bs, fits) in enumerate(encs):
            m = check([dom, c], fits, "fits")
            if m is not None:
                violations.append(dict(detail="struct.pack field overflow in length branch %d" % i,
                                       input=dict(n=m[n].as_long(), mask_bit=mb), finding_key="len_overflow"))
            # RFC 6455 5.2 minimal form: branch i is taken exactly for the RFC's range i
            m = check([dom], c == rfc_form[i], "form")
            if m is not None:
                violations.append(dict(detail="length form %d not chosen exactly on the RFC range" % i,
                                       input=dict(n=m[n].as_long(), mask_bit=mb), finding_key="len_form"))
            assert len(bs) - 1 == rfc_ext[i], "branch %d emits %d extension bytes" % (i, len(bs) - 1)
            decs, masked = decode_sym(bs)
            # exactly one decoder branch fires, it consumes exactly the emitted bytes and returns n
            goals = []
            for dc, val, nread in decs:
                if val is None or nread != len(bs) - 1:
                    goals.append(z3.Not(dc))
                else:
                    goals.append(z3.Implies(dc, val == n))
            goals.append(z3.Or([dc for dc, val, nread in decs if val is not None and nread == len(bs) - 1]
                               or [z3.BoolVal(False)]))
            goals.append(masked == z3.BoolVal(mb != 0))
            m = check([dom, c], z3.And(goals), "roundtrip")
            if m is not None:
                violations.append(dict(detail="decode(encode(n)) != n / mask bit lost in branch %d" % i,
                                       input=dict(n=m[n].as_long(), mask_bit=mb), finding_key="len_roundtrip"))
        # exhaustive + exclusive branch conditions
        m = check([dom], z3.PbEq([(c, 1) for c, _, _ in encs], 1), "partition")
        if m is not None:
            violations.append(dict(detail="encoder branches not a partition", input=dict(n=m[n].as_long())))

    # ---------------- translator validation against the real functions on concrete lengths
    from vp.env import install as _install
    from vp.fakestream import FakeStream as _FS
    for mb in mask_vals:
        for cn in (0, 1, 125, 126, 127, 65535, 65536, 70001):
            with _install() as env:
                st = _FS(env.loop)
                rec = R.Rec()
                pr = W.WebSocketProtocol13(rec, bool(mb), W._WebSocketParams(max_message_size=1 << 30))
                pr.stream = st
                pr._write_frame(True, 2, b"\x07" * cn)
                real = st.wire()
                encs = encode_sym(z3.BitVecVal(cn, 64), mb)
                mine = None
                for c, bs, fits in encs:
                    if z3.is_true(z3.simplify(c)):
                        assert mine is None
                        mine = bytes(z3.simplify(b).as_long() for b in bs)
                assert mine is not None and real[1:1 + len(mine)] == mine, \
                    "translator disagrees with real _write_frame for n=%d: %r vs %r" % (cn, mine, real[:10])
                # and the real decoder on the real encoder's output
                st2 = _FS(env.loop)
                rec2 = R.Rec()
                pr2 = W.WebSocketProtocol13(rec2, False, W._WebSocketParams(max_message_size=1 << 30))
                pr2.stream = st2
                env.spawn(pr2._receive_frame_loop())
                st2.feed(real)
                env.run_ready()
                if rec2.msgs != [b"\x07" * cn]:
                    # concrete replay of a length-field defect on the real encoder + real decoder
                    violations.append(dict(detail="real _receive_frame does not decode what real _write_frame "
                                                  "encoded for payload length %d (mask_bit %d)" % (cn, mb),
                                           input=dict(n=cn, mask_bit=mb), finding_key="len_roundtrip_concrete"))
                samples.append(dict(n=cn, mask_bit=mb, header=real[:1 + len(mine)].hex()))
    status = "VIOLATION" if violations else ("PROVED" if discharged == obligations else "BOUNDED")
    return dict(status=status, obligations=obligations, discharged=discharged, queries=queries,
                solver_s=round(solver_s, 3), samples=samples[:6], violations=violations,
                trusted_base=["z3", "ast/inspect extraction of the if-chains on data_len (encoder) and payloadlen "
                              "(decoder)", "struct big-endian B/H/Q semantics modelled as Extract/Concat"],
                assumptions=["n ranges over [0, 2^63) as a 64-bit vector; mask_bit over the two constants assigned in "
                             "_write_frame", "payload bytes themselves are not part of this obligation"],
                wall=round(time.time() - t0, 2))


EXTRAS = {"lenfield": dict(fn=_extra_lenfield, wall=120)}
