"""C35 - Queues conserve items and match their ordering discipline.

Real code driven: tornado.queues.Queue / LifoQueue / PriorityQueue (put, put_nowait, get, get_nowait,
task_done, join, qsize, empty, full, _consume_expired, _set_timeout, __put_internal) with the real
locks.Event / gen.with_timeout behind join(), on the virtual loop.
Oracle: sequential reference model (container + arrival-ordered list of blocked operations).
Linearisation convention of the model (the statement leaves it open): a *blocked* put takes effect at
the moment it is admitted, i.e. atomically with the get that makes room and *before* that get selects
its item (so a LIFO/priority get may return the just-admitted item).
"""
import datetime
from typing import List, Tuple

from vp.api import P, harness, in_shard, reached
from harness._sync import vinstall, conc3

from tornado import queues

NK = 10

_STUBS = ["VLoop/FakeAio virtual loop and clock (vp/env.py): timers fire in (deadline, insertion) "
          "order and never early; callbacks FIFO; a timer 'expiry' is an explicit advance step",
          "harness/_sync.vinstall: CancelledError escaping a callback is recorded like asyncio does",
          "model convention: a blocked put is linearised when admitted (before the admitting get selects)"]


class Rig:
    """Real queue + reference model, advanced in lock step and compared after every operation."""

    def __init__(self, env, cls, maxsize):
        self.env = env
        self.cls = cls
        self.maxsize = maxsize
        # explicit branches: indexing a tuple of classes with a symbolic int makes a symbolic *type*
        if cls == 0:
            self.q = queues.Queue(maxsize=maxsize)
        elif cls == 1:
            self.q = queues.LifoQueue(maxsize=maxsize)
        else:
            self.q = queues.PriorityQueue(maxsize=maxsize)
        self.now = env.v.now
        self.mq = []            # model container, in put order
        self.unfinished = 0
        # blocked/finished operations by arrival: [kind, state, value, deadline, future]
        # kind 'put'|'get'|'join'; state 'P' pending, 'D' done, 'T' timed out, 'C' cancelled
        self.ents = []
        self.put_ok = []        # every successfully put item (model)
        self.got = []           # every item returned by a get (real values)

    # ---------------------------------------------------------------- model
    def _select(self):
        mq = self.mq
        if self.cls == 0:
            return mq.pop(0)
        if self.cls == 1:
            return mq.pop()
        j = 0
        for i in range(1, len(mq)):
            if mq[i] < mq[j]:
                j = i
        return mq.pop(j)

    def _first_live(self, kind):
        dead = False
        for e in self.ents:
            if e[0] == kind:
                if e[1] == 'P':
                    return e, dead
                if e[1] == 'T' or e[1] == 'C':
                    dead = True
        return None, False

    def _admit(self, v):
        self.mq.append(v)
        self.put_ok.append(v)
        self.unfinished += 1

    def m_put(self, v, nowait):
        g, dead = self._first_live('get')
        if g is not None:
            self._admit(v)
            g[1] = 'D'
            g[2] = self._select()
            if dead:
                reached("put_skips_dead_getter")
            reached("put_serves_getter")
            return 'ok'
        if self.maxsize > 0 and len(self.mq) >= self.maxsize:
            return 'full'
        self._admit(v)
        return 'ok'

    def m_get(self):
        p, dead = self._first_live('put')
        if p is not None:
            self._admit(p[2])
            p[1] = 'D'
            if dead:
                reached("get_skips_dead_putter")
            reached("get_admits_putter")
            return ('ok', self._select())
        if self.mq:
            return ('ok', self._select())
        return ('empty', None)

    # ---------------------------------------------------------------- timeouts
    def _timeout(self, mode, b):
        """mode 0 none, 1 absolute now+b, 2 timedelta(b) -> (argument, model deadline)"""
        if mode == 0:
            return None, None
        if mode == 1:
            return self.now + b, self.now + b
        cb = conc3(b)
        return datetime.timedelta(seconds=cb), self.now + cb

    # ---------------------------------------------------------------- operations (real + model)
    def put(self, v, mode, b):
        arg, dl = self._timeout(mode, b)
        f = self.q.put(v, arg)
        r = self.m_put(v, False)
        if r == 'ok':
            self.ents.append(['put', 'D', v, None, f])
        else:
            self.ents.append(['put', 'P', v, dl, f])

    def put_nowait(self, v):
        try:
            self.q.put_nowait(v)
            raised = None
        except queues.QueueFull as e:
            raised = e
        r = self.m_put(v, True)
        if r == 'full':
            reached("queue_full_raises")
            assert raised is not None, "put_nowait on a full queue must raise QueueFull"
        else:
            assert raised is None, "put_nowait raised QueueFull although there is room / a waiting getter"

    def get(self, mode, b):
        arg, dl = self._timeout(mode, b)
        f = self.q.get(arg)
        st, v = self.m_get()
        if st == 'ok':
            self.ents.append(['get', 'D', v, None, f])
        else:
            self.ents.append(['get', 'P', None, dl, f])

    def get_nowait(self):
        try:
            rv = self.q.get_nowait()
            raised = None
        except queues.QueueEmpty as e:
            rv = None
            raised = e
        st, v = self.m_get()
        if st == 'empty':
            assert raised is not None, "get_nowait on an empty queue must raise QueueEmpty"
        else:
            assert raised is None, "get_nowait raised QueueEmpty although an item is available"
            assert rv == v, "get_nowait returned %r, the queue discipline says %r" % (rv, v)
            self.got.append(rv)

    def task_done(self):
        try:
            self.q.task_done()
            raised = None
        except ValueError as e:
            raised = e
        if self.unfinished <= 0:
            reached("extra_task_done_raises")
            assert raised is not None, "task_done beyond the number of puts must raise ValueError"
        else:
            assert raised is None, "task_done raised %r" % (raised,)
            self.unfinished -= 1
            if self.unfinished == 0:
                for e in self.ents:
                    if e[0] == 'join' and e[1] == 'P':
                        e[1] = 'D'
                        reached("join_released")

    def join(self, mode, b):
        arg, dl = self._timeout(mode, b)
        f = self.q.join(arg)
        if self.unfinished == 0:
            self.ents.append(['join', 'D', None, None, f])
        else:
            self.ents.append(['join', 'P', None, dl, f])

    def cancel(self, a):
        pend = [e for e in self.ents if e[1] == 'P']
        if pend:
            idx = a % len(pend)
            for i in range(len(pend)):      # branch: keep the list index concrete
                if idx == i:
                    pend[i][4].cancel()
                    pend[i][1] = 'C'
                    break

    def advance(self, b):
        cb = conc3(b)
        self.env.advance(cb)
        self.now = self.now + cb
        for e in self.ents:
            if e[1] == 'P' and e[3] is not None and e[3] <= self.now:
                e[1] = 'T'
                reached("timed_out_op")

    def op(self, k, a, b):
        if k == 0:
            self.put(a, 0, 0)
        elif k == 1:
            self.put(a, 2, b)
        elif k == 2:
            self.put_nowait(a)
        elif k == 3:
            self.get(0, 0)
        elif k == 4:
            self.get(1, b)
        elif k == 5:
            self.get_nowait()
        elif k == 6:
            self.task_done()
        elif k == 7:
            if b == 0:
                self.join(0, 0)
            elif b == 1:
                self.join(1, 1)
            else:
                self.join(2, 2)
        elif k == 8:
            self.cancel(a)
        else:
            self.advance(b)
        self.env.run_ready()
        self.check()

    # ---------------------------------------------------------------- comparison
    def check(self):
        q = self.q
        got = list(self.got)
        for i, e in enumerate(self.ents):
            kind, st, v, dl, f = e
            if st == 'P':
                assert not f.done(), "%s #%d is blocked in the model but its future is done: %r" % (kind, i, f)
            elif st == 'D':
                assert f.done() and not f.cancelled() and f.exception() is None, \
                    "%s #%d must have completed (arrival order), is %r" % (kind, i, f)
                if kind == 'get':
                    assert f.result() == v, "get #%d returned %r, discipline says %r" % (i, f.result(), v)
                    got.append(f.result())
                else:
                    assert f.result() is None
            elif st == 'T':
                assert f.done() and not f.cancelled() and f.exception() is not None \
                    and type(f.exception()).__name__ == "TimeoutError", \
                    "%s #%d must have raised TimeoutError, is %r" % (kind, i, f)
            else:
                assert f.cancelled()
        n = len(self.mq)
        assert q.qsize() == n, "qsize %r != model %r" % (q.qsize(), n)
        if self.maxsize > 0:
            assert q.qsize() <= self.maxsize, "queue holds more than maxsize items"
        assert q.empty() == (n == 0)
        assert q.full() == (self.maxsize > 0 and n >= self.maxsize)
        # conservation on the real observations: put items == returned items + still queued
        # (linear form: no sorting of symbolic items, which would fork on every order; the element-wise
        #  comparison with the conserving model above + the final drain give the exact multiset)
        assert len(got) + q.qsize() == len(self.put_ok), "items lost or duplicated (count)"
        assert sum(got) + sum(q._queue) == sum(self.put_ok), "items lost or duplicated (sum)"
        assert q._unfinished_tasks == self.unfinished, "unfinished %r != model %r" % (
            q._unfinished_tasks, self.unfinished)
        nt = sum(1 for e in self.ents if e[1] == 'P' and e[3] is not None)
        assert len(self.env.v.pending_timers()) == nt, "timer residue after finished operations"

    def finish(self):
        """Drain through the public API: the remaining items must come out in discipline order."""
        for _ in range(len(self.mq) + sum(1 for e in self.ents if e[0] == 'put' and e[1] == 'P') + 1):
            self.get_nowait()
            self.env.run_ready()
        self.check()
        assert self.q.qsize() == 0
        assert not self.env.v.exc_contexts, "exception escaped a callback: %r" % (self.env.v.exc_contexts,)


def _ops_ok(ops, n):
    if len(ops) > n:
        return False
    for k, a, b in ops:
        if not (0 <= k < NK and 0 <= a <= 2 and 0 <= b <= 2):
            return False
    return True


# ----------------------------------------------------------------------------------------------
def pre_queue(cls: int, maxsize: int, ops: List[Tuple[int, int, int]]) -> bool:
    if not (0 <= cls <= 2 and 0 <= maxsize <= P.MAXSIZE and _ops_ok(ops, P.N)):
        return False
    if len(ops) > P.NFULL:
        # longer histories: untimed alphabet only (put, put_nowait, get, get_nowait, task_done, join())
        for k, a, b in ops:
            if k == 1 or k == 4 or k >= 8 or (k == 7 and b != 0):
                return False
    return in_shard(cls + 3 * (ops[0][0] if len(ops) > 0 else 0))


@harness(
    pre=pre_queue,
    quick=dict(N=3, NFULL=2, MAXSIZE=2, timeout=100, reach_timeout=200),
    thorough=dict(N=4, NFULL=3, MAXSIZE=3, timeout=1800),
    nshards=dict(quick=15, thorough=30),
    reach=["put_serves_getter", "get_admits_putter", "queue_full_raises", "extra_task_done_raises",
           "join_released", "timed_out_op"],
    units=["queues.Queue.put", "queues.Queue.put_nowait", "queues.Queue.get", "queues.Queue.get_nowait",
           "queues.Queue.task_done", "queues.Queue.join", "queues.Queue._consume_expired",
           "queues._set_timeout", "queues.Queue.__put_internal", "queues.LifoQueue", "queues.PriorityQueue",
           "locks.Event.wait", "gen.with_timeout"],
    stubs=_STUBS,
    outside=["histories longer than NFULL operations over the full alphabet / longer than N over the untimed "
             "alphabet (h_queue_step covers deeper pre-states with timeouts and cancellations)",
             "maxsize > MAXSIZE", "items other than small ints 0..2", "async iteration protocol"],
)
def h_queue(cls: int, maxsize: int, ops: List[Tuple[int, int, int]]):
    """ops (k, a, b): 0 put(a) | 1 put(a, timedelta(b)) | 2 put_nowait(a) | 3 get() | 4 get(now+b) |
    5 get_nowait | 6 task_done | 7 join(b: none / now+1 / timedelta(2)) | 8 cancel a-th pending |
    9 advance(b)."""
    with vinstall() as env:
        rig = Rig(env, cls, maxsize)
        for k, a, b in ops:
            rig.op(k, a, b)
        rig.finish()


# ----------------------------------------------------------------------------------------------
# Inductive step: symbolic pre-state built through the real API, then M symbolic operations.

def pre_step(cls: int, mode: int, maxsize: int, wst: List[int], ops: List[Tuple[int, int, int]]) -> bool:
    if not (0 <= cls <= 2 and 0 <= mode <= 1 and 1 <= maxsize <= 2 and len(wst) <= P.W
            and _ops_ok(ops, P.M)):
        return False
    if mode == 1 and maxsize != 1:
        return False        # blocked getters: queue is empty, one capacity value suffices
    for w in wst:
        if not 0 <= w <= 4:
            return False
    return in_shard(cls + 3 * mode + 6 * (wst[0] if len(wst) > 0 else 0))


@harness(
    pre=pre_step,
    quick=dict(M=1, W=2, timeout=100, reach_timeout=200),
    thorough=dict(M=2, W=2, timeout=1800),
    nshards=dict(quick=15, thorough=30),
    reach=["put_skips_dead_getter", "get_skips_dead_putter"],
    units=["queues.Queue.put", "queues.Queue.get", "queues.Queue.get_nowait", "queues.Queue.put_nowait",
           "queues.Queue._consume_expired", "queues.Queue.task_done", "queues.Queue.join"],
    stubs=_STUBS + ["pre-state built through the real put()/get()/cancel()/timer expiry: mode 0 = full queue "
                    "(maxsize items of value 1) + up to W blocked putters with items 2,1,..; mode 1 = empty queue + "
                    "up to W blocked getters (maxsize 1); waiter states 0 pending, 1 pending deadline now+2, 2 pending "
                    "timedelta 2, 3 timed out, 4 cancelled; one pending join() in mode 0"],
    outside=["more than W blocked operations in the pre-state", "more than M further operations",
             "maxsize > 2 in the pre-state"],
)
def h_queue_step(cls: int, mode: int, maxsize: int, wst: List[int], ops: List[Tuple[int, int, int]]):
    with vinstall() as env:
        rig = Rig(env, cls, maxsize)
        if mode == 0:
            for _ in range(maxsize):
                rig.put(1, 0, 0)
            rig.join(0, 0)
        item = 2
        for w in wst:
            if w == 1:
                m, b = 1, 2
            elif w == 2:
                m, b = 2, 2
            elif w == 3:
                m, b = 1, 1
            else:
                m, b = 0, 0
            if mode == 0:
                rig.put(item, m, b)
                item -= 1
            else:
                rig.get(m, b)
            if w == 4:
                rig.ents[-1][4].cancel()
                rig.ents[-1][1] = 'C'
        env.run_ready()
        rig.check()
        rig.advance(1)
        env.run_ready()
        rig.check()
        for k, a, b in ops:
            rig.op(k, a, b)
        rig.finish()
