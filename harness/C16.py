"""C16 - WebSocket close handshake is orderly and reported exactly once.

Real code driven (server side): tornado.websocket.WebSocketHandler (close / write_message / on_connection_close /
on_ws_connection_close / _on_close_called) and WebSocketProtocol13 (close / _abort / _handle_message(0x8) /
periodic_ping / start_pinging / write_message / _receive_frame_loop), after a REAL handshake
(RequestHandler._execute -> WebSocketHandler.get -> accept_connection) over a stand-in HTTPConnection, on the
virtual loop with the virtual clock.
Client side (h_client_close): the real WebSocketClientConnection (real headers_received on a concrete 101) in callback
style and in read_message() style, same schedule vocabulary and oracle.
Oracle (from the statement, over the wire log + callbacks): <= 1 close frame sent, no data frame after it, the close
frame echoes the peer's code unless we closed first, TCP closed once both sides have closed or the closing timeout
has elapsed, on_close exactly once with the peer's code/reason when one was received, write_message after closing
raises WebSocketClosedError, a ping unanswered for ping_timeout closes, an answered one does not.
"""
from typing import List, Tuple

from vp.api import P, harness, in_shard, reached
from vp.env import install
from vp.fakestream import FakeStream

from tornado.concurrent import Future
from tornado.websocket import WebSocketClosedError

from harness import _ws_rig as R

# (ping_interval, ping_timeout) pool, by symbolic index
CFG = [(None, None), (2, None), (2, 1), (3, 0)]
# op table: (kind, variant)
OPS = [(0, 0), (0, 1), (0, 2), (1, 0), (1, 1), (1, 2), (2, 0), (3, 0), (3, 1), (4, 0), (4, 1), (4, 2),
       (5, 0), (6, 0), (7, 0)]
ADV = [1, 2, 5]
# concrete prefixes that build the symbolic pre-state through the same step function
PREFIX = [[], [10], [8], [8, 4]]    # fresh | clock +2 s (first ping outstanding) | in-flight message | peer close behind in-flight
CLOSING_TIMEOUT_BOUND = 100          # the oracle only demands "eventually" (well beyond tornado's few seconds)


def pre_close(cfg: int, prestate: int, lc: int, pc: int, ops: List[int]) -> bool:
    if not (1000 <= lc <= 4999 and 1000 <= pc <= 4999):
        return False
    if not (0 <= cfg < len(CFG) and 0 <= prestate < len(PREFIX) and len(ops) <= P.N):
        return False
    if not in_shard(prestate + 4 * cfg):
        return False
    for o in ops:
        if not 0 <= o < len(OPS):
            return False
    # reach twins only: steer the witness search (a subset of the bounds above)
    r = P.reach
    if r == "pong_in_time_keeps_open":
        return cfg == 2 and prestate == 1 and len(ops) == 2 and ops[0] == 12 and ops[1] == 9
    if r == "ping_timeout_close":
        return cfg == 2 and prestate == 1 and len(ops) >= 1 and ops[0] == 9
    if r == "closing_timeout_abort":
        return cfg == 0 and prestate == 0 and len(ops) == 2 and ops[1] == 11
    if r == "echo_peer_code":
        return cfg == 0 and prestate == 0 and len(ops) >= 1 and ops[0] >= 4
    if r == "write_after_close_raises":
        return cfg == 0 and prestate == 0 and len(ops) == 2 and ops[1] == 13
    if r == "peer_close_during_inflight":
        return cfg == 0 and prestate == 2 and len(ops) >= 1
    if r == "crossing_closes":
        return cfg == 0 and prestate == 3
    return True


@harness(
    pre=pre_close,
    quick=dict(N=2, timeout=170, reach_timeout=90),
    thorough=dict(N=3, timeout=1400, reach_timeout=200),
    nshards=dict(quick=16, thorough=16),
    reach=["crossing_closes", "echo_peer_code", "closing_timeout_abort", "ping_timeout_close",
           "pong_in_time_keeps_open", "write_after_close_raises", "peer_close_during_inflight"],
    units=["websocket.WebSocketHandler.get", "websocket.WebSocketProtocol13.accept_connection",
           "websocket.WebSocketHandler.close", "websocket.WebSocketHandler.write_message",
           "websocket.WebSocketHandler.on_connection_close", "websocket.WebSocketHandler.on_ws_connection_close",
           "websocket.WebSocketProtocol13.close", "websocket.WebSocketProtocol._abort",
           "websocket.WebSocketProtocol13._handle_message", "websocket.WebSocketProtocol13.periodic_ping",
           "websocket.WebSocketProtocol13.start_pinging", "websocket.WebSocketProtocol13._receive_frame_loop"],
    stubs=["VLoop/FakeAio virtual loop and integral virtual clock (asyncio.sleep / create_task run on it); FakeStream",
           "stand-in HTTPConnection (_ws_rig.FakeConn) + real Application/HTTPServerRequest; tornado.web.time / "
           "httputil.time -> fixed clock (Date header)",
           "tornado.websocket.struct -> pure-Python shim (close codes stay symbolic); zlib shim unused (compression off)",
           "(ping_interval, ping_timeout) from the pool {(off), (2, default), (2, 1), (3, 0)} by symbolic index; clock "
           "advances of 1/2/5 s executed in 1 s ticks; close codes of both sides are symbolic ints 1000..4999; reasons "
           "are fixed ASCII strings",
           "schedule = concrete prefix (pre-state: fresh | 2 s elapsed = first ping outstanding when pinging | on_message "
           "coroutine in flight | peer close frame queued behind an in-flight on_message) + N symbolic steps from {local close x3 forms, peer "
           "close frame x3 forms, peer EOF, message (sync / async on_message), clock advance x3, pong, write_message, "
           "on_message completes}, then a drain (in-flight completes, clock +100 s)",
           "a pong or peer frame that arrives while an async on_message is in flight is not 'received' until it "
           "completes (sequential frame processing): ping-timeout expectations are not asserted for such windows"],
    outside=["client side here (see h_client_close)", "close reasons that are not valid UTF-8",
             "schedules longer than prefix + N steps", "fractional ping intervals"],
)
def h_close(cfg: int, prestate: int, lc: int, pc: int, ops: List[int]):
    R.apply_shims()
    pi, pt = CFG[R.pick(cfg, len(CFG))]
    eff_pt = pi if (pt is None and pi) else pt          # documented default: timeout = interval
    steps = list(PREFIX[R.pick(prestate, len(PREFIX))])
    nprefix = len(steps)
    for o in ops:
        steps.append(R.pick(o, len(OPS)))
    with install() as env:
        st = FakeStream(env.loop)
        handler, rec, conn, task = R.make_server(env, st, R.GOOD_HEADERS, ping_interval=pi, ping_timeout=pt)
        assert conn.start_line.code == 101 and conn.detached and rec.opened == 1
        S = dict(now=0, blocked=None, local_closed=False, local_form=None, peer_received=None, peer_fed=False,
                 peer_queued=[], eof=False, terminal=False, seen_close=False, ping=None, nframes=0,
                 wrote=0, we_first=False)

        def wire_frames():
            return R.parse_frames(st.wire())

        def on_unblocked():
            # frames queued behind the in-flight message are processed now, in order
            if not st.closed() or S["peer_queued"]:
                for item in S["peer_queued"]:
                    if item[0] == "close" and S["peer_received"] is None and item[3]:
                        S["peer_received"] = (item[1], item[2])
                    elif item[0] == "pong":
                        pass
            S["peer_queued"] = []

        def check(op_kind, variant):
            frames = wire_frames()
            closes = [i for i, f in enumerate(frames) if f[2] == 8]
            assert len(closes) <= 1, "more than one close frame sent: %r" % (frames,)
            if closes:
                for f in frames[closes[0] + 1:]:
                    assert f[2] not in (0, 1, 2), "data frame sent after our close frame: %r" % (frames,)
                pl = frames[closes[0]][4]
                if not S["seen_close"]:
                    S["seen_close"] = True
                    S["terminal"] = True
                    # ---- who initiated, and what must the frame carry
                    if op_kind == 0:
                        S["we_first"] = True
                        form = S["local_form"]
                        if form == 0:
                            assert pl == b"", "close() without arguments must send an empty close frame"
                        else:
                            assert len(pl) >= 2 and pl[0] * 256 + pl[1] == lc, "close(code) must send that code"
                            assert pl[2:] == (b"bye" if form == 2 else b""), "close reason not sent"
                    elif op_kind in (1, 7):
                        assert S["peer_received"] is not None
                        code = S["peer_received"][0]
                        if code is not None:
                            reached("echo_peer_code")
                            assert len(pl) >= 2 and pl[0] * 256 + pl[1] == code, \
                                "close frame must echo the peer's code %r, sent %r" % (code, pl)
                    elif op_kind == 4:
                        assert S["ping"] is not None and S["ping"]["expired"], \
                            "close frame sent on a clock tick without an expired ping: %r" % (frames,)
                    else:
                        assert False, "close frame sent by step kind %d" % op_kind
            assert len(rec.closes) <= 1, "on_close fired %d times" % len(rec.closes)
            assert not env.v.exc_contexts and not rec.logged, "exception escaped: %r %r" % (
                env.v.exc_contexts, rec.logged)
            if S["blocked"] is None:
                if S["peer_received"] is not None and S["seen_close"]:
                    assert st.closed(), "both sides have sent close frames but the TCP connection is still open"
                if S["eof"]:
                    assert st.closed() and len(rec.closes) == 1, "peer disconnected: on_close must have fired once"
            if st.closed() and S["blocked"] is None:
                assert len(rec.closes) == 1, "connection is closed but on_close has not fired"

        def tick():
            env.advance(1)
            S["now"] += 1
            frames = wire_frames()
            pg = S["ping"]
            # a ping whose timeout expires at this tick
            if pg is not None and not pg["expired"] and eff_pt and S["now"] == pg["t"] + eff_pt:
                if not pg["answered"] and not pg["tainted"] and pg["alive"]:
                    pg["expired"] = True
                    reached("ping_timeout_close")
                    assert any(f[2] == 8 for f in frames) or st.closed(), \
                        "ping sent at +%d unanswered for %d s but no close was initiated" % (pg["t"], eff_pt)
                elif pg["answered"] and not pg["tainted"]:
                    if not S["terminal"] and not S["eof"] and not S["peer_fed"]:
                        reached("pong_in_time_keeps_open")
                        assert not st.closed() and not any(f[2] == 8 for f in frames), \
                            "pong arrived in time but the connection was closed"
                elif pg["tainted"] and any(f[2] == 8 for f in frames):
                    pg["expired"] = True
            # a new ping on the wire?
            npings = len([f for f in frames if f[2] == 9])
            if npings > S["nframes"]:
                S["nframes"] = npings
                S["ping"] = dict(t=S["now"], answered=False, tainted=S["blocked"] is not None, expired=False,
                                 alive=not S["terminal"] and not st.closed())

        for idx, o in enumerate(steps):
            kind, variant = OPS[o]
            if kind == 0:                                   # local close
                if S["peer_fed"] and not S["local_closed"] and not S["seen_close"]:
                    reached("crossing_closes")
                S["local_closed"] = True
                S["terminal"] = True
                if S["local_form"] is None:
                    S["local_form"] = variant
                if variant == 0:
                    handler.close()
                elif variant == 1:
                    handler.close(lc)
                else:
                    handler.close(lc, "bye")
            elif kind == 1:                                 # peer close frame
                if st.closed() or S["eof"]:
                    continue
                code = None if variant == 0 else pc
                reason = "x!" if variant == 2 else None
                pl = b"" if variant == 0 else bytes([pc // 256, pc % 256]) + (b"x!" if variant == 2 else b"")
                S["peer_fed"] = True
                S["terminal"] = True
                if S["blocked"] is None:
                    if S["peer_received"] is None:
                        S["peer_received"] = (code, reason)
                else:
                    reached("peer_close_during_inflight")
                    S["peer_queued"].append(("close", code, reason, True))
                st.feed(R.frame(True, 0, 8, pl, masked=False))
            elif kind == 2:                                 # peer EOF
                if st.closed() or S["eof"]:
                    continue
                S["eof"] = True
                S["terminal"] = True
                st.peer_close()
            elif kind == 3:                                 # message
                if st.closed() or S["eof"]:
                    continue
                if variant == 1 and S["blocked"] is None and not S["peer_fed"]:
                    S["blocked"] = Future()
                    rec.async_next = S["blocked"]
                st.feed(R.frame(True, 0, 1, b"m", masked=False))
            elif kind == 4:                                 # clock
                was_closed = st.closed()
                for _ in range(ADV[variant]):
                    tick()
                if S["local_closed"] and not was_closed and st.closed() and S["peer_received"] is None:
                    reached("closing_timeout_abort")
            elif kind == 5:                                 # pong
                if st.closed() or S["eof"]:
                    continue
                pg = S["ping"]
                if pg is not None and not pg["expired"]:
                    if S["blocked"] is None and not S["peer_fed"]:
                        pg["answered"] = True
                    else:
                        pg["tainted"] = True
                st.feed(R.frame(True, 0, 10, b"", masked=False))
            elif kind == 6:                                 # write_message
                frames_before = len(wire_frames())
                must_raise = S["local_closed"] or S["seen_close"] or st.closed() or \
                    (S["peer_received"] is not None)
                raised = None
                try:
                    handler.write_message("w")
                except WebSocketClosedError as e:
                    raised = e
                env.run_ready()
                if must_raise:
                    reached("write_after_close_raises")
                    assert raised is not None, "write_message after closing did not raise WebSocketClosedError"
                    assert len(wire_frames()) == frames_before, "write_message after closing put a frame on the wire"
                elif raised is None:
                    fr = wire_frames()
                    assert len(fr) == frames_before + 1 and fr[-1][2] == 1 and fr[-1][4] == b"w"
            else:                                           # in-flight on_message completes
                if S["blocked"] is not None:
                    f = S["blocked"]
                    S["blocked"] = None
                    still_open = not st.closed()
                    if not still_open:
                        S["peer_queued"] = [(a, b, c, False) for a, b, c, d in S["peer_queued"]]
                    f.set_result(None)
                    env.run_ready()
                    on_unblocked()
            env.run_ready()
            check(kind, variant)
        # ---- drain: everything in flight completes, the closing timeout elapses
        if S["blocked"] is not None:
            f = S["blocked"]
            S["blocked"] = None
            if st.closed():
                S["peer_queued"] = [(a, b, c, False) for a, b, c, d in S["peer_queued"]]
            f.set_result(None)
            env.run_ready()
            on_unblocked()
            check(7, 0)
        for _ in range(CLOSING_TIMEOUT_BOUND):
            env.advance(1)
            S["now"] += 1
        env.run_ready()
        frames = wire_frames()
        closes = [i for i, f in enumerate(frames) if f[2] == 8]
        assert len(closes) <= 1, "more than one close frame sent"
        pinging_kills = bool(pi) and bool(eff_pt)
        if S["terminal"] or pinging_kills:
            assert st.closed(), "connection never torn down after close / disconnect / timeout"
            assert len(rec.closes) == 1, "on_close fired %d times, expected exactly once" % len(rec.closes)
            assert task.done(), "handler coroutine still running"
            if S["peer_received"] is not None:
                assert rec.closes[0] == S["peer_received"], \
                    "on_close saw close_code/reason %r, peer sent %r" % (rec.closes[0], S["peer_received"])
        else:
            assert not st.closed() and rec.closes == [], "connection closed without any reason"
        assert not env.v.exc_contexts and not rec.logged, "exception escaped: %r %r" % (env.v.exc_contexts, rec.logged)


# ==============================================================================================
# Client side: the real WebSocketClientConnection in both application styles.
import base64 as _b64
import hashlib as _hl
import warnings as _warnings

import tornado.websocket as W
from tornado import httputil as _httputil
from tornado.queues import Queue as _Queue
from vp.env import outcome

C_KEY = b"dGhlIHNhbXBsZSBub25jZQ=="
C_ACCEPT = _b64.b64encode(_hl.sha1(C_KEY + b"258EAFA5-E914-47DA-95CA-C5AB0DC85B11").digest()).decode("ascii")
# client op table: (kind, variant)   0 local close | 1 peer close frame | 2 peer EOF | 3 incoming message |
#                                    4 application calls read_message() | 5 write_message | 6 clock +5 s
COPS = [(0, 0), (0, 1), (0, 2), (1, 0), (1, 1), (1, 2), (2, 0), (3, 0), (4, 0), (5, 0), (6, 0)]
# pre-states (concrete prefixes through the same step function):
#   fresh | two messages arrived (read style: the 2nd one is IN FLIGHT, the receive loop waits for the reader) |
#   two messages + a peer close frame with code (read style: the close frame is queued behind the in-flight message)
CPREFIX = [[], [7, 7], [7, 7, 4]]
PEND = ("pending",)


def _mask_zero(mask, data):
    """x ^ 0 == x: with os.urandom -> 00 00 00 00 the outgoing mask is the identity, so symbolic close codes are
    not pushed through CrossHair's bitwise-xor model (masking itself is C14/C18)."""
    assert mask == b"\x00\x00\x00\x00"
    return data


class _TcpStub:
    def __init__(self):
        self.closed = 0

    def close(self):
        self.closed += 1


class _ConnStub:
    def __init__(self, stream):
        self.stream = stream

    def detach(self):
        return self.stream


def make_client(env, stream, on_message_callback):
    """WebSocketClientConnection as websocket_connect leaves it after a successful handshake: the object is
    allocated without running __init__ (which would start DNS/TCP), given the fields __init__ sets, and the REAL
    headers_received() is driven with a concrete, correct 101 response (-> real _process_server_headers,
    get_websocket_protocol, detach, _receive_frame_loop start, connect_future)."""
    conn = W.WebSocketClientConnection.__new__(W.WebSocketClientConnection)
    conn.connect_future = Future()
    conn.read_queue = _Queue(1)
    conn.key = C_KEY
    conn._on_message_callback = on_message_callback
    conn.close_code = None
    conn.close_reason = None
    conn.params = W._WebSocketParams(ping_interval=None, ping_timeout=None, compression_options=None)
    conn.tcp_client = _TcpStub()
    conn.io_loop = env.loop
    conn.final_callback = lambda response: None
    conn._timeout = None
    conn.stream = stream
    conn.connection = _ConnStub(stream)
    hh = _httputil.HTTPHeaders()
    hh.add("Upgrade", "websocket")
    hh.add("Connection", "Upgrade")
    hh.add("Sec-WebSocket-Accept", C_ACCEPT)
    t = env.spawn(conn.headers_received(_httputil.ResponseStartLine("HTTP/1.1", 101, "Switching Protocols"), hh))
    env.run_ready()
    assert t.done() and t.exception() is None and conn.connect_future.done() and conn.connect_future.result() is conn
    return conn


class CModel:
    """Reference for the client: frames are processed strictly in arrival order; in read_message style the
    connection hands over at most one unread message (Queue(1)) and waits for the reader with the next one."""

    def __init__(self, style):
        self.style = style
        self.queue, self.putters, self.getters = [], [], []
        self.reads, self.cb, self.cb_codes = [], [], []
        self.blocked = False
        self.backlog = []
        self.loop_alive = True
        self.peer = None          # (code, reason) of the first peer close frame that was received
        self.sent = None          # ("local", variant) | ("echo", code)
        self.st_closed = False
        self.aborted = False
        self.eof = False
        self.waiting = None
        self.notified = 0
        self.local_closed = False
        self.now = 0
        self.terminal = False

    def deliver(self, item):
        if self.style == 0:
            self.cb.append(item)
            self.cb_codes.append(self.peer)
            return False
        if self.getters:
            self.reads[self.getters.pop(0)] = item
            return False
        if len(self.queue) < 1:
            self.queue.append(item)
            return False
        self.putters.append(item)
        return True

    def notify(self):
        self.notified += 1
        self.loop_alive = False      # = the protocol considers the peer side terminated
        self.waiting = None
        self.backlog = []
        self.deliver(None)

    def process(self):
        while self.loop_alive and not self.blocked:
            if self.aborted:
                self.notify()
                break
            if not self.backlog:
                if self.eof:
                    self.notify()
                break
            ev = self.backlog.pop(0)
            if ev[0] == "msg":
                self.blocked = self.deliver("m")
            else:
                if self.peer is None:
                    self.peer = (ev[1], ev[2])
                if self.sent is None and not self.st_closed:
                    self.sent = ("echo", ev[1])
                self.st_closed = True
                self.waiting = None
                self.notify()

    def read(self):
        idx = len(self.reads)
        self.reads.append(PEND)
        if self.queue:
            self.reads[idx] = self.queue.pop(0)
            if self.putters:
                self.queue.append(self.putters.pop(0))
                if self.blocked:
                    self.blocked = False
                    self.process()
        else:
            self.getters.append(idx)


def pre_client(style: int, prestate: int, lc: int, pc: int, ops: List[int]) -> bool:
    if not (1000 <= lc <= 4999 and 1000 <= pc <= 4999):
        return False
    if not (0 <= style <= 1 and 0 <= prestate < len(CPREFIX) and len(ops) <= P.N):
        return False
    half = 0
    if len(ops) > 0 and ops[0] >= 6:
        half = 1
    if not in_shard(style + 2 * prestate + 6 * half):
        return False
    for o in ops:
        if not 0 <= o < len(COPS):
            return False
        if style == 0 and o == 8:
            return False          # read_message() is not used in callback style
    r = P.reach                   # reach twins only: steer the witness search (a subset of the bounds above)
    if r == "cb_none_with_peer_code":
        return style == 0 and prestate == 0 and len(ops) >= 1 and ops[0] == 5
    if r == "read_none_once":
        return style == 1 and prestate == 0 and len(ops) >= 1 and ops[0] == 6
    if r == "client_echo_peer_code":
        return prestate == 0 and len(ops) >= 1 and ops[0] == 4
    if r == "client_crossing_closes":
        return style == 1 and prestate == 2 and len(ops) >= 1 and ops[0] == 1
    if r == "client_write_after_close_raises":
        return prestate == 0 and len(ops) == 2 and ops[1] == 9
    if r == "client_closing_timeout_abort":
        return prestate == 0 and len(ops) == 2 and ops[1] == 10
    if r == "peer_close_behind_inflight":
        return style == 1 and prestate == 2
    return True


@harness(
    pre=pre_client,
    quick=dict(N=2, timeout=120, reach_timeout=60),
    thorough=dict(N=3, timeout=1400, reach_timeout=120),
    nshards=dict(quick=12, thorough=12),
    reach=["cb_none_with_peer_code", "read_none_once", "client_echo_peer_code", "client_crossing_closes",
           "client_write_after_close_raises", "client_closing_timeout_abort", "peer_close_behind_inflight"],
    units=["websocket.WebSocketClientConnection.headers_received", "websocket.WebSocketClientConnection.close",
           "websocket.WebSocketClientConnection.on_connection_close",
           "websocket.WebSocketClientConnection.on_ws_connection_close",
           "websocket.WebSocketClientConnection.write_message", "websocket.WebSocketClientConnection.read_message",
           "websocket.WebSocketClientConnection._on_message", "websocket.WebSocketProtocol13._process_server_headers",
           "websocket.WebSocketProtocol13.close", "websocket.WebSocketProtocol._abort",
           "websocket.WebSocketProtocol13._handle_message", "websocket.WebSocketProtocol13._receive_frame_loop",
           "queues.Queue.put", "queues.Queue.get"],
    stubs=["VLoop/FakeAio virtual loop and clock; FakeStream",
           "WebSocketClientConnection allocated with __new__ + the fields its __init__ sets (no DNS/TCP), tcp_client and "
           "the HTTP connection (detach) are stand-ins; the real headers_received() processes a concrete correct 101 "
           "response (real SHA-1 accept check)",
           "tornado.websocket.struct -> pure-Python shim; os.urandom -> zero mask and _websocket_mask -> identity for "
           "the zero mask (close codes stay symbolic; masking is C14/C18)",
           "style 0 = on_message_callback, style 1 = read_message(); close codes of both sides symbolic 1000..4999, "
           "reasons fixed ASCII; schedule = concrete prefix (fresh | two messages arrived, the second in flight in "
           "read style | the same plus a peer close frame queued behind it) + N symbolic steps from {local close x3 "
           "forms, peer close frame x3 forms, peer EOF, message, read_message(), write_message, clock +5 s}, then a "
           "drain (application reads until nothing more comes, clock +100 s, reads again)",
           "reference: frames are processed in arrival order and, in read style, at most one unread message is held "
           "(Queue(1)) while the next waits for the reader"],
    outside=["ping timeouts on the client (server side: h_close)", "close reasons that are not valid UTF-8",
             "the TCP connect / HTTP request phase (C19-C22)"],
)
def h_client_close(style: int, prestate: int, lc: int, pc: int, ops: List[int]):
    _warnings.simplefilter("ignore")
    R.apply_shims(urandom=b"\x00\x00\x00\x00")
    W._websocket_mask = _mask_zero
    steps = list(CPREFIX[R.pick(prestate, len(CPREFIX))])
    for o in ops:
        steps.append(R.pick(o, len(COPS)))
    cstyle = R.pick(style, 2)
    with install() as env:
        st = FakeStream(env.loop)
        M = CModel(cstyle)
        cb_log = []          # (message, close_code, close_reason at that moment)
        holder = []

        def on_msg(m):
            cb_log.append((m, holder[0].close_code, holder[0].close_reason))

        conn = make_client(env, st, on_msg if cstyle == 0 else None)
        holder.append(conn)
        reads = []

        def frames():
            return R.parse_frames(st.wire())

        def do_read():
            reads.append(conn.read_message())
            M.read()
            env.run_ready()

        def check():
            fr = frames()
            closes = [i for i, f in enumerate(fr) if f[2] == 8]
            assert len(closes) <= 1, "client sent more than one close frame: %r" % (fr,)
            if closes:
                for f in fr[closes[0] + 1:]:
                    assert f[2] not in (0, 1, 2), "client sent a data frame after its close frame: %r" % (fr,)
                assert M.sent is not None, "client sent a close frame nobody asked for: %r" % (fr,)
                pl = fr[closes[0]][4]
                if M.sent[0] == "local":
                    form = M.sent[1]
                    if form == 0:
                        assert pl == b"", "close() without arguments must send an empty close frame"
                    else:
                        assert len(pl) >= 2 and pl[0] * 256 + pl[1] == lc, "close(code) must send that code"
                        assert pl[2:] == (b"bye" if form == 2 else b""), "close reason not sent"
                elif M.sent[1] is not None:
                    reached("client_echo_peer_code")
                    assert len(pl) >= 2 and pl[0] * 256 + pl[1] == M.sent[1], \
                        "close frame must echo the peer's code %r, sent %r" % (M.sent[1], pl)
            else:
                assert M.sent is None, "close frame missing (expected %r)" % (M.sent,)
            assert st.closed() == M.st_closed, "TCP closed=%r, expected %r" % (st.closed(), M.st_closed)
            assert not env.v.exc_contexts, "exception escaped: %r" % (env.v.exc_contexts,)
            if cstyle == 0:
                nones = [c for c in cb_log if c[0] is None]
                assert len(nones) <= 1, "close notification (callback with None) fired %d times" % len(nones)
                assert [c[0] for c in cb_log] == M.cb, "callback saw %r, expected %r" % ([c[0] for c in cb_log], M.cb)
                if nones:
                    assert cb_log[-1][0] is None, "message delivered after the close notification"
                    if M.peer is not None:
                        reached("cb_none_with_peer_code")
                        assert (nones[0][1], nones[0][2]) == M.peer, \
                            "at the close notification close_code/close_reason were %r, peer sent %r" % (
                                (nones[0][1], nones[0][2]), M.peer)
            else:
                got = []
                for f in reads:
                    oc = outcome(f)
                    got.append(PEND if oc[0] == "pending" else oc[1] if oc[0] == "result" else oc)
                assert got == M.reads, "read_message results %r, expected %r" % (got, M.reads)
                assert len([x for x in got if x is None]) <= 1, "read_message returned None more than once"
            assert conn.tcp_client.closed <= 1

        for o in steps:
            kind, variant = COPS[o]
            if kind == 0:
                if not M.local_closed:
                    if M.backlog and not M.st_closed:
                        for ev in M.backlog:
                            if ev[0] == "close":
                                reached("client_crossing_closes")
                    M.local_closed = True
                    M.terminal = True
                    if not M.st_closed and M.sent is None:
                        M.sent = ("local", variant)
                    # the closing timeout runs whenever the peer side has not terminated from the protocol's point
                    # of view - also when an EOF / close frame sits unnoticed behind a backpressured message
                    if M.loop_alive and M.waiting is None:
                        M.waiting = M.now + 5
                if variant == 0:
                    conn.close()
                elif variant == 1:
                    conn.close(lc)
                else:
                    conn.close(lc, "bye")
            elif kind == 1:
                if M.st_closed or M.eof:
                    continue
                code = None if variant == 0 else pc
                reason = "x!" if variant == 2 else None
                pl = b"" if variant == 0 else bytes([pc // 256, pc % 256]) + (b"x!" if variant == 2 else b"")
                M.terminal = True
                M.backlog.append(("close", code, reason))
                if M.blocked:
                    reached("peer_close_behind_inflight")
                M.process()
                st.feed(R.frame(True, 0, 8, pl))
            elif kind == 2:
                if M.st_closed or M.eof:
                    continue
                M.eof = True
                M.st_closed = True
                M.terminal = True
                M.process()
                st.peer_close()
            elif kind == 3:
                if M.st_closed or M.eof:
                    continue
                M.backlog.append(("msg",))
                M.process()
                st.feed(R.frame(True, 0, 1, b"m"))
            elif kind == 4:
                do_read()
            elif kind == 5:
                before = len(frames())
                must_raise = M.local_closed or M.sent is not None or M.st_closed
                raised = None
                try:
                    conn.write_message("w")
                except WebSocketClosedError as e:
                    raised = e
                env.run_ready()
                if must_raise:
                    reached("client_write_after_close_raises")
                    assert raised is not None, "write_message after closing did not raise WebSocketClosedError"
                    assert len(frames()) == before, "write_message after closing put a frame on the wire"
                else:
                    fr = frames()
                    assert raised is None and len(fr) == before + 1 and fr[-1][2] == 1 and fr[-1][4] == b"w" \
                        and fr[-1][3], "write_message on an open connection must send one masked text frame"
            else:
                env.advance(5)
                M.now += 5
                if M.waiting is not None and M.now >= M.waiting:
                    # closing timeout: we tear down; frames not yet received (queued behind an unread message)
                    # are dropped, so a peer close frame among them was never "received"
                    if not M.st_closed:
                        reached("client_closing_timeout_abort")
                    M.st_closed = True
                    M.aborted = True
                    M.waiting = None
                    M.process()
            env.run_ready()
            check()

        # ---- drain: the application reads until nothing more comes; the closing timeout elapses; reads again
        def drain_reads():
            if cstyle == 1:
                for _ in range(5):
                    if M.reads and M.reads[-1] == PEND:
                        break
                    do_read()
                    check()

        drain_reads()
        env.advance(100)
        M.now += 100
        if M.waiting is not None:
            M.st_closed = True
            M.aborted = True
            M.waiting = None
            M.process()
        env.run_ready()
        check()
        drain_reads()
        # ---- the statement, on the real observations only
        if M.terminal:
            assert st.closed(), "client connection never torn down after close / disconnect"
            if cstyle == 0:
                assert len([c for c in cb_log if c[0] is None]) == 1 and cb_log[-1][0] is None, \
                    "close notification must fire exactly once, last: %r" % (cb_log,)
            else:
                res = [outcome(f) for f in reads]
                nn = [r for r in res if r == ("result", None)]
                assert len(nn) == 1, "read_message must return None exactly once, got %r" % (res,)
                reached("read_none_once")
                assert res[-1] == ("pending",) and res[-2] == ("result", None), \
                    "after the close notification nothing more may be delivered: %r" % (res,)
            if M.peer is not None:
                assert (conn.close_code, conn.close_reason) == M.peer, \
                    "close_code/close_reason %r, peer sent %r" % ((conn.close_code, conn.close_reason), M.peer)
            assert conn.tcp_client.closed == 1
        else:
            assert not st.closed() and not [c for c in cb_log if c[0] is None], "closed without any reason"
        assert not env.v.exc_contexts, "exception escaped: %r" % (env.v.exc_contexts,)
