"""C46 - Locale formatting helpers render numbers and dates correctly.

Real code driven: tornado.locale.Locale.friendly_number and Locale.format_date (English locale object
obtained through tornado.locale.get("en_US"); CSVLocale.translate is the real one).

friendly_number: `value` is a solver int; the result stays symbolic (str(int), slicing, join).
format_date: the real body runs on integer stand-ins for the C types (harness/_misc1_dt.py):
`tornado.locale.datetime` -> exact integer-microsecond calendar, `round` -> exact rational round-half-even,
templates returned by translate() -> FmtStr (concatenating `%`), so the offset date-now is ONE solver
variable over +-D days and the rendered phrase is a symbolic string that the oracle parses back.
"""
import copy

from vp.api import P, harness, in_shard, reached

import tornado.locale as tl

from harness import _misc1_dt as sh

US = sh.US
# fixed "now": 2020-03-01T00:00:30Z (just after a leap day and a month boundary, so "yesterday"
# and month/day arithmetic cross them); whole second, sub-second offsets come from `us`
NOW_US = (18322 * 86400 + 30) * US
GMT_POOL = (0, 480, -330, -720)      # minutes west of UTC as format_date's gmt_offset

ZONE_POOL = (-300, 330)              # utcoffset minutes of the non-UTC aware input forms
_BASE = tl.get("en_US")


class _FixedZone(sh.tzinfo):
    """tzinfo subclass (not datetime.timezone) with a fixed offset."""

    def __init__(self, minutes):
        self.minutes = minutes

    def utcoffset(self, dt):
        return sh.timedelta(minutes=self.minutes)


# ------------------------------------------------------------------------------------------ numbers
def pre_fn(value: int) -> bool:
    if not (-P.B < value < P.B):
        return False
    a = value if value >= 0 else -value
    nd = 1 if a < 10 else 2 if a < 100 else 3 if a < 1000 else 4 if a < 10 ** 4 else 5 if a < 10 ** 5 \
        else 6 if a < 10 ** 6 else 7 if a < 10 ** 7 else 8 if a < 10 ** 8 else 9 if a < 10 ** 9 else 10
    return in_shard(nd + (10 if value < 0 else 0))


def classify_fn(value):
    a = -value if value < 0 else value
    if value < 0 and len(str(a)) % 3 == 0:
        return "friendly_number_negative_leading_comma"
    return None


@harness(
    pre=pre_fn,
    quick=dict(B=10 ** 9, timeout=90, per_path_timeout=40),
    thorough=dict(B=10 ** 12, timeout=400, per_path_timeout=60),
    nshards=dict(quick=4, thorough=8),
    reach=["negative_multi_group", "positive_multi_group", "single_group"],
    units=["locale.Locale.friendly_number", "locale.get"],
    stubs=["tornado.locale.str = pure-Python positional decimal conversion (harness/_misc1_dt.shim_str; one "
           "symbolic code point per digit instead of z3 int.to.str, whose queries time out sporadically); "
           "validated against str() in EXTRAS stub_validation"],
    outside=["|value| >= B", "non-English locales (they return str(value) unchanged)"],
    classify=classify_fn,
)
def h_friendly_number(value: int):
    saved = tl.__dict__.get("str")
    tl.str = sh.shim_str
    try:
        out = _BASE.friendly_number(value)
    finally:
        if saved is None:
            del tl.str
        else:
            tl.str = saved
    assert isinstance(out, str)
    # Reference from the statement, by integer arithmetic, as a list of code points: the magnitude in
    # groups of exactly three digits after the first group (1..3 digits, no leading zero), commas between
    # groups only, the sign directly in front of the first digit.  Equality with it implies: removing the
    # commas reads back as `value`, every later group has exactly three digits, the sign touches a digit.
    a = -value if value < 0 else value
    n = 1                              # number of decimal digits of |value| (concrete per path)
    p10 = 10
    while a >= p10:
        p10 = p10 * 10
        n += 1
    ref = [45] if value < 0 else []
    for i in range(n - 1, -1, -1):     # digit of weight 10**i; a comma in front of every weight 10**(3k+2)
        ref.append(48 + (a // 10 ** i) % 10)
        if i % 3 == 0 and i > 0:
            ref.append(44)
    ngroups = (n + 2) // 3
    if ngroups > 1:
        if value < 0:
            reached("negative_multi_group")
        else:
            reached("positive_multi_group")
    else:
        reached("single_group")
    assert len(out) == len(ref), \
        "friendly_number(%r) -> %r: correct English grouping has %d characters" % (value, out, len(ref))
    for i in range(len(ref)):
        assert ord(out[i]) == ref[i], \
            "friendly_number(%r) -> %r: character %d should be %r" % (value, out, i, chr(ref[i]))


# ------------------------------------------------------------------------------------------ dates
def _locale():
    loc = copy.copy(_BASE)
    real_translate = _BASE.translate

    def translate(message, plural_message=None, count=None):
        return sh.FmtStr(real_translate(message, plural_message, count))

    loc.translate = translate
    loc._months = sh.Names("<month>")
    loc._weekdays = sh.Names("<weekday>")
    return loc


def _format(off, us, relative, shorter, full_format, gi, form):
    """Calls the real format_date with the stand-ins installed. Returns (out, elapsed_us)."""
    saved = (tl.datetime, tl.__dict__.get("round"), sh.datetime._now_us, sh.datetime._placeholder_tod)
    tl.datetime = sh.ShimModule
    tl.round = sh.shim_round
    sh.datetime._now_us = NOW_US
    sh.datetime._placeholder_tod = True
    try:
        date_us = NOW_US + off * US + us
        if form == 0:
            date = sh.datetime(date_us, sh.ShimModule.timezone.utc)
        elif form == 1:
            date = sh.datetime(date_us, None)          # naive: documented as UTC
        elif form == 2:
            date = NOW_US // US + off                  # POSIX timestamp (int)
        elif form == 3:                                # aware, UTC-05:00 (datetime.timezone)
            date = sh.datetime(date_us, sh.timezone(sh.timedelta(minutes=ZONE_POOL[0])))
        else:                                          # aware, UTC+05:30 (a tzinfo subclass)
            date = sh.datetime(date_us, _FixedZone(ZONE_POOL[1]))
        g = GMT_POOL[0] if gi == 0 else GMT_POOL[1] if gi == 1 else GMT_POOL[2] if gi == 2 else GMT_POOL[3]
        out = _locale().format_date(date, gmt_offset=g, relative=relative, shorter=shorter,
                                    full_format=full_format)
        return out, NOW_US - date_us
    finally:
        tl.datetime = saved[0]
        if saved[1] is None:
            del tl.round
        else:
            tl.round = saved[1]
        sh.datetime._now_us = saved[2]
        sh.datetime._placeholder_tod = saved[3]


def _check(out, elapsed):
    assert isinstance(out, str)
    is_ago = out.endswith(" ago")
    if elapsed < -60 * US:
        reached("future_gt_60")
        assert not is_ago, \
            "a date %d us in the future (more than a minute) is rendered as the past phrase %r" % (-elapsed, out)
    if not is_ago:
        assert "ago" not in out, "relative-past wording inside %r" % (out,)
        if elapsed >= 0:
            reached("absolute_past")
        return
    head = out[:-4]
    sp = head.find(" ")
    assert sp > 0, "unparseable relative phrase %r" % (out,)
    word = head[sp + 1:]
    try:
        n = int(head[:sp])
    except Exception:
        raise AssertionError("no number in relative phrase %r" % (out,))
    if word == "second" or word == "seconds":
        unit = US
        reached("seconds")
    elif word == "minute" or word == "minutes":
        unit = 60 * US
        reached("minutes")
    elif word == "hour" or word == "hours":
        unit = 3600 * US
        reached("hours")
        if n >= 23:
            reached("hours_23plus")
    else:
        raise AssertionError("unknown unit in relative phrase %r" % (out,))
    assert (n == 1) == (word in ("second", "minute", "hour")), "plural form wrong in %r" % (out,)
    # Dates up to a minute in the future may be described as the past (statement, clock skew): the
    # elapsed time is then taken as zero.
    e = elapsed
    if e < 0:
        reached("clamped_future")
        e = 0
    # The phrase units are >= 1 s.  Judgement (noted in the report): the elapsed time is taken at the
    # whole-second resolution of the phrases, i.e. N must be a nearest integer of t/unit for SOME t between
    # the elapsed time truncated to whole seconds and the elapsed time rounded up to whole seconds.  For
    # whole-second offsets this is exactly "elapsed/unit rounded to a nearest integer" (ties either way).
    lo = e - e % US
    hi = lo if e % US == 0 else lo + US
    assert 2 * n * unit - unit <= 2 * hi and 2 * n * unit + unit >= 2 * lo, \
        "%r: %d is not the elapsed time (%d us) in that unit rounded to a nearest integer" % (out, n, elapsed)


def pre_fd(off: int, relative: bool, shorter: bool, full_format: bool, gi: int, form: int) -> bool:
    if not (-P.D * 86400 <= off <= P.D * 86400 and 0 <= gi < P.G and 0 <= form <= 4):
        return False
    if form >= 3 and gi >= P.ZG:
        return False                      # the zone forms are combined with the first ZG gmt_offsets only
    k = gi * 5 + form if gi < P.ZG else P.ZG * 5 + (gi - P.ZG) * 3 + form
    total = P.ZG * 5 + (P.G - P.ZG) * 3
    return in_shard(k + (total if off < 0 else 0))


def classify_fd(off, relative, shorter, full_format, gi, form, us=0):
    if off >= 86400 and (off % 86400) < 60:
        return "format_date_future_days_ignored"
    return None


_FD_UNITS = ["locale.Locale.format_date", "locale.CSVLocale.translate", "locale.get"]
_FD_STUBS = [
    "tornado.locale.datetime replaced by harness/_misc1_dt.ShimModule (integer-microsecond proleptic "
    "Gregorian UTC datetime/timedelta; validated against the C datetime in EXTRAS stub_validation)",
    "timedelta.seconds is an int wrapper whose `/ 60.0` is an exact rational, tornado.locale.round = exact "
    "round-half-even on it (equal to CPython round(int/float) for all 0..86399: EXTRAS stub_validation)",
    "templates returned by the real translate() are wrapped in FmtStr so `template % mapping` concatenates "
    "str(int) instead of realising (only %(name)d / %(name)s)",
    "month / weekday names are placeholders and hour/minute of the ABSOLUTE format are the placeholder "
    "0 (\"%d:%02d %s\" % ... would realise them: 1440-way fork); day/month/year arithmetic is exact",
    "now fixed at 2020-03-01T00:00:30Z; gmt_offset from the first G entries of the pool (0, 480, -330, -720)",
]
_FD_OUT = ["content of the absolute format (names, clock time)", "non-English locales",
           "offsets beyond +-D days", "float timestamps", "zones other than UTC, -05:00, +05:30; DST transitions"]


@harness(
    pre=pre_fd,
    quick=dict(D=400, G=2, ZG=1, timeout=150, reach_timeout=150, per_path_timeout=40),
    thorough=dict(D=4000, G=4, ZG=4, timeout=900, reach_timeout=150, per_path_timeout=60),
    nshards=dict(quick=16, thorough=40),
    reach=["future_gt_60", "seconds", "hours", "absolute_past"],
    units=_FD_UNITS, stubs=_FD_STUBS, outside=_FD_OUT + ["sub-second offsets (see h_format_date_subsec)"],
    classify=classify_fd,
)
def h_format_date(off: int, relative: bool, shorter: bool, full_format: bool, gi: int, form: int):
    """date = now + off seconds (off symbolic, +-D days), all flag combinations, five input forms: aware UTC,
    naive, int timestamp, aware UTC-05:00 (timezone), aware UTC+05:30 (tzinfo subclass)."""
    if classify_fd(off, relative, shorter, full_format, gi, form) in P.exclude:
        return
    out, elapsed = _format(off, 0, relative, shorter, full_format, gi, form)
    if form == 3 and 60 < off < 5 * 3600:
        reached("future_in_west_zone")       # wall clock of the input is hours BEHIND now, instant is ahead
    if form == 4 and -5 * 3600 < off < 0 and out.endswith(" ago"):
        reached("past_in_east_zone")         # wall clock is ahead of now, instant is in the past
    _check(out, elapsed)


def pre_fds(off: int, us: int, shorter: bool, gi: int, form: int) -> bool:
    if not (-P.D * 86400 <= off <= P.D * 86400 and 0 <= us < US and 0 <= gi < P.G and form in (0, 1, 3, 4)):
        return False
    fs = form if form < 2 else form - 1
    return in_shard(gi * 4 + fs + (4 * P.G if off < 0 else 0))


def classify_fds(off, us, shorter, gi, form):
    if off + 1 >= 86400 and ((off + 1) % 86400) <= 60:
        return "format_date_future_days_ignored"
    return None


@harness(
    pre=pre_fds,
    quick=dict(D=3, G=1, timeout=150, reach_timeout=120, per_path_timeout=40),
    thorough=dict(D=400, G=4, timeout=900, reach_timeout=60, per_path_timeout=60),
    nshards=dict(quick=8, thorough=32),
    reach=["seconds", "minutes", "hours", "clamped_future", "future_in_west_zone", "past_in_east_zone"],
    units=_FD_UNITS, stubs=_FD_STUBS, outside=_FD_OUT,
    classify=classify_fds,
)
def h_format_date_subsec(off: int, us: int, shorter: bool, gi: int, form: int):
    """relative=True, date = now + off s + us microseconds (both symbolic): future/past decision at
    microsecond resolution, number judged at whole-second resolution (see _check)."""
    if classify_fds(off, us, shorter, gi, form) in P.exclude:
        return
    out, elapsed = _format(off, us, True, shorter, False, gi, form)
    if form == 3 and 60 < off < 5 * 3600:
        reached("future_in_west_zone")       # wall clock of the input is hours BEHIND now, instant is ahead
    if form == 4 and -5 * 3600 < off < 0 and out.endswith(" ago"):
        reached("past_in_east_zone")         # wall clock is ahead of now, instant is in the past
    _check(out, elapsed)


# ------------------------------------------------------------------------------------------ extras
def stub_validation(tier, seed):
    n = sh.validate_against_real_datetime()
    # the stand-ins reproduce the real function on concrete dates (plain interpreter, real datetime)
    import datetime as real
    loc = tl.get("en_US")
    now = real.datetime.fromtimestamp(NOW_US // US, real.timezone.utc)
    real_dt = tl.datetime

    class _FixedNow(real.datetime):
        @classmethod
        def now(cls, tz=None):
            return now

    class _Mod:
        datetime = _FixedNow
        timedelta = real.timedelta
        timezone = real.timezone

    bad = []
    k = 0
    for off in list(range(-200, 200, 7)) + [-3599, -3600, -86399, -86400, -86401, 86400, 86410, 86459, 86460,
                                            -5 * 86400, -333 * 86400, -335 * 86400, 59, 60, 61, -49, -50, -2999,
                                            -3000, -1770, -1830, -5400, -9000]:
        for relative in (True, False):
            for shorter in (True, False):
                for full in (True, False):
                    for gi in range(4):
                        tl.datetime = _Mod
                        try:
                            want = loc.format_date(now + real.timedelta(seconds=off), GMT_POOL[gi], relative,
                                                   shorter, full)
                        finally:
                            tl.datetime = real_dt
                        got, _e = _format_exact(off, relative, shorter, full, gi)
                        k += 1
                        if got != want:
                            bad.append((off, relative, shorter, full, gi, want, got))
                        for zone in ZONE_POOL:      # the same instant expressed in a non-UTC zone
                            rdate = (now + real.timedelta(seconds=off)).astimezone(
                                real.timezone(real.timedelta(minutes=zone)))
                            tl.datetime = _Mod
                            try:
                                want = loc.format_date(rdate, GMT_POOL[gi], relative, shorter, full)
                            finally:
                                tl.datetime = real_dt
                            got, _e = _format_exact(off, relative, shorter, full, gi, zone)
                            k += 1
                            if got != want:
                                bad.append((off, relative, shorter, full, gi, zone, want, got))
    if bad:
        return dict(status="ERROR", message="stand-ins disagree with the real datetime: %r" % (bad[:3],))
    return dict(status="PROVED", obligations=1, discharged=1, queries=0, solver_s=0,
                samples=["%d calendar/rounding/template points, %d end-to-end format_date comparisons" % (n, k)],
                trusted_base=["CPython datetime as the reference for the stand-ins"],
                assumptions=["this entry validates the stubs (concrete sweep); it decides nothing about C46"])


def _format_exact(off, relative, shorter, full, gi, zone=None):
    """_format with real names and exact hour/minute (concrete inputs only)."""
    saved = (tl.datetime, tl.__dict__.get("round"), sh.datetime._now_us, sh.datetime._placeholder_tod)
    tl.datetime = sh.ShimModule
    tl.round = sh.shim_round
    sh.datetime._now_us = NOW_US
    sh.datetime._placeholder_tod = False
    try:
        loc = copy.copy(_BASE)
        real_translate = _BASE.translate
        loc.translate = lambda m, p=None, c=None: sh.FmtStr(real_translate(m, p, c))
        tz = sh.timezone.utc if zone is None else _FixedZone(zone)
        date = sh.datetime(NOW_US + off * US, tz)
        return loc.format_date(date, GMT_POOL[gi], relative, shorter, full), -off * US
    finally:
        tl.datetime = saved[0]
        if saved[1] is None:
            del tl.round
        else:
            tl.round = saved[1]
        sh.datetime._now_us = saved[2]
        sh.datetime._placeholder_tod = saved[3]


EXTRAS = {"stub_validation": dict(fn=stub_validation, wall=120)}

TECHNIQUE = ("CrossHair symbolic execution of the real friendly_number / format_date; the offset date-now, the "
             "integer and the flags are solver variables, the rendered phrase is parsed back from a symbolic string")
ASSUMPTIONS = ["see per-harness stubs; English locale without loaded translations"]
