"""C11 - IOStream reads return exactly the incoming bytes, in order, per request.

Real code driven: tornado.iostream.BaseIOStream read side (read_bytes / read_into / read_until /
read_until_regex / read_until_close, _start_read, _try_inline_read, _read_to_buffer_loop,
_read_to_buffer, _find_read_pos, _check_max_bytes, _read_from_buffer, _finish_read, _consume,
_handle_events, _handle_read, close) through FakeFdStream (harness/_iostream_rig.py): the kernel
hands out the next bytes of a concrete 18-byte stream in SYMBOLIC portions (one scripted size per
read_from_fd call, 0 = would-block), read_chunk_size, request parameters (n, partial, delimiter /
regex by pool index, max_bytes) and the EOF position are solver variables.

Oracle (the statement): every completed read meets its contract computed from the stream alone
(exactly n bytes; 1..n when partial; up to and including the first delimiter / regex match;
read_into fills the caller's buffer and returns the count; read_until_close returns all the
rest), the concatenation of results is a prefix of the stream, the bytes received but not yet
returned are exactly the stream's next bytes (nothing lost / duplicated / reordered), a delimiter
read never returns more than max_bytes and a delimiter not found within max_bytes closes the
stream with UnsatisfiableReadError; a read stays pending only while the transport has delivered
too little.
"""
import re
from typing import List, Tuple

from vp.api import P, harness, in_shard, reached
from vp.env import install

from tornado import iostream
from tornado.ioloop import IOLoop

from harness._iostream_rig import BA, FD, MV, FakeFdStream, Kernel, conc, fire, registered

#        0    1 2   3 4  5  6 7   8 9  10 11 12 13 14 15 16 17
DATA = b"a\r\nbc\n\r\n\r\nde\r\n\r\nfg"
DELIMS = [b"\r\n", b"\n\r\n", b"c"]
REGEXES = [rb"\r?\n\r?\n", rb"[cd]\r?\n", rb"\n[a-z]"]


class Stream:
    """A concrete stream with its delimiter / regex pools and the reference table
    end[is_regex][j][pos] = absolute end of the first match in the stream from pos (None: never)."""

    def __init__(self, data, delims, regexes):
        self.data, self.delims, self.regexes = data, delims, regexes
        self.end = [[[self.first_end(j, r, pos, len(data)) for pos in range(len(data) + 1)]
                     for j in range(len(regexes if r else delims))] for r in (False, True)]
        # assumption check (concrete, every import): the pooled patterns are arrival-independent over this
        # stream - whenever a match is visible in a delivered prefix it is the stream's first match.
        for r in (False, True):
            for j in range(len(regexes if r else delims)):
                for pos in range(len(data) + 1):
                    for L in range(pos, len(data) + 1):
                        e = self.first_end(j, r, pos, L)
                        assert e is None or e == self.end[r][j][pos], "pattern pool is not prefix-stable"

    def first_end(self, j, is_regex, pos, upto):
        buf = self.data[pos:upto]
        if is_regex:
            m = re.compile(self.regexes[j]).search(buf)
            return None if m is None else pos + m.end()
        i = buf.find(self.delims[j])
        return None if i < 0 else pos + i + len(self.delims[j])


S0 = Stream(DATA, DELIMS, REGEXES)
END = S0.end

# Second stream for LONG delimiters (3 and 4 bytes) that straddle deliveries.  Every long delimiter occurs at
# several offsets and is preceded by false starts ("\r\n\r" + "\r", "EN" + "E") so that a search resumed at a
# wrong position, or a partial match carried over wrongly, changes the result.
#         0    1 2   3 4  5  6  7  8  9  10 11 12 13 14 15 16 17 18 19 20 21 22 23
DATA2 = b"h\r\n\r\nENEND\r\n\r\r\n\r\nEND\n\r\nx"
DELIMS2 = [b"\r\n\r\n", b"END", b"\n\r\n", b"\r\n"]
S2 = Stream(DATA2, DELIMS2, [rb"\r\n\r\n", rb"END"])
STARTS2 = [1, 2, 5, 10]        # read positions: on / inside / before a false start of the long delimiters

# request kinds
RB, RBP, RI, RIP, RU, RX, RC = range(7)


def _issue(s, kind, n, m, holder, st=S0):
    mb = None if m < 0 else m
    if kind == RB:
        return s.read_bytes(n)
    if kind == RBP:
        return s.read_bytes(n, partial=True)
    if kind == RI or kind == RIP:
        buf = BA(b"\xee" * n)
        holder.append(buf)
        return s.read_into(buf, partial=(kind == RIP))
    if kind == RU:
        return s.read_until(st.delims[n], max_bytes=mb)
    if kind == RX:
        return s.read_until_regex(st.regexes[n], max_bytes=mb)
    return s.read_until_close()


def _silent(k):
    """The kernel will never produce another byte nor an end-of-stream indication."""
    if k.rpos >= k.eofpos:
        return k.cause == 0
    return k.ri >= len(k.rscript)


_TRACK = {"after_failed": False}

KEY_AFTER_FAILED = "read_after_failed_read"


def _classify(fn, args):
    """Known-finding shape (plain replay only): the violation shows on a read issued after an earlier read
    of the same stream had failed at close (stale read state, see the C11 report)."""
    _TRACK["after_failed"] = False
    try:
        fn(**args)
    except Exception:
        return KEY_AFTER_FAILED if _TRACK["after_failed"] else None
    return None


def _drive_reads(env, s, k, reqs, pos, st=S0, notes=()):
    """Issue the requests one after the other, pumping READ events while one is pending.
    Returns the stream position after the last completed read."""
    _TRACK["after_failed"] = False
    for idx, (kind, n, m) in enumerate(reqs):
        kind = conc(kind, 0, 6)
        n = conc(n, 0, 8)          # reaches BA(n) / slices: concrete per path; m stays symbolic
        holder = []
        was_closed = s.closed()
        try:
            fut = _issue(s, kind, n, m, holder, st)
            sync_exc = None
        except (iostream.StreamClosedError, iostream.UnsatisfiableReadError) as e:
            sync_exc = e
        if sync_exc is not None:
            # only legitimate on a closed stream whose buffered bytes cannot satisfy the request
            assert was_closed and type(sync_exc) is iostream.StreamClosedError, \
                "read raised %r synchronously (stream closed before the call: %r)" % (sync_exc, was_closed)
            assert not _satisfiable(kind, n, m, pos, k.rpos, True, st), \
                "read on a closed stream refused although the buffered bytes satisfy it"
            reached("refused_after_close")
            break
        env.run_ready()
        guard = 0
        while not fut.done() and not s.closed() and not _silent(k):
            assert registered(env, IOLoop.READ), \
                "a read is pending and the stream is open but it is not listening for READ"
            fire(env, IOLoop.READ)
            guard += 1
            assert guard <= len(k.rscript) + 3, "READ events do not make progress"
        env.run_ready()
        D = k.rpos
        mb = None if m < 0 else m
        if not fut.done():
            assert not s.closed(), "stream closed but the pending read was never settled"
            assert not _satisfiable(kind, n, m, pos, D, False, st), \
                "read still pending although the %d delivered-but-unreturned bytes satisfy it" % (D - pos)
            if (kind == RU or kind == RX) and mb is not None:
                assert D - pos <= mb, \
                    "delimiter not within max_bytes=%d but the read keeps buffering (%d bytes)" % (mb, D - pos)
            assert registered(env, IOLoop.READ), "pending read but not listening for READ"
            reached("left_pending")
            break
        exc = fut.exception()
        if exc is not None:
            assert type(exc) is iostream.StreamClosedError and s.closed(), "read failed with %r" % (exc,)
            if isinstance(exc.real_error, iostream.UnsatisfiableReadError):
                reached("unsatisfiable_closed")
                if st is S2:
                    reached("long_unsatisfiable")
                assert (kind == RU or kind == RX) and mb is not None, "UnsatisfiableReadError for kind %d" % kind
                e = st.end[kind == RX][n][pos]
                assert e is None or e - pos > mb, \
                    "delimiter ends %d bytes in, within max_bytes=%d, but the read was refused" % (e - pos, mb)
                assert s.error is exc.real_error
            else:
                # closed by EOF: legitimate only if the stream's bytes cannot satisfy the request
                assert k.end_seen > 0 and k.cause == 1, "read failed %r without an end of stream" % (exc,)
                assert not _satisfiable(kind, n, m, pos, D, True, st), \
                    "stream closed: read failed although buffered bytes satisfy it"
                reached("failed_at_eof")
            if KEY_AFTER_FAILED in P.exclude:
                break               # recorded finding excluded: do not read on after a failed read
            _TRACK["after_failed"] = True
            continue
        res = fut.result()
        if _TRACK["after_failed"]:
            reached("read_after_failed_read")
        # ---- contract of a completed read
        if kind == RI or kind == RIP:
            assert type(res) is int, "read_into returned %r" % (res,)
            buf = holder[0]
            assert len(buf) == n
            cnt = res
            got = bytes(buf[:cnt])
            if kind == RI:
                assert cnt == n, "read_into returned %d for a %d byte buffer" % (cnt, n)
            else:
                assert (cnt == 0 and n == 0) or 1 <= cnt <= n, "partial read_into count %d (n=%d)" % (cnt, n)
                if cnt > 0 and cnt < n:
                    reached("partial_short")
        else:
            assert type(res) is bytes, "read (kind %d) returned %r, not bytes" % (kind, res)
            got = res
            if kind == RB:
                assert len(got) == n, "read_bytes(%d) returned %d bytes" % (n, len(got))
            elif kind == RBP:
                assert (len(got) == 0 and n == 0) or 1 <= len(got) <= n, \
                    "read_bytes(%d, partial) returned %d bytes" % (n, len(got))
                if 0 < len(got) < n:
                    reached("partial_short")
            elif kind == RU or kind == RX:
                e = st.end[kind == RX][n][pos]
                assert e is not None and len(got) == e - pos, \
                    "delimited read returned %r; first match from %d ends at %r" % (got, pos, e)
                assert mb is None or len(got) <= mb, \
                    "read returned %d bytes, more than max_bytes=%d" % (len(got), mb)
                if mb is not None:
                    reached("within_max_bytes")
            else:
                assert s.closed(), "read_until_close completed on an open stream"
                assert len(got) == D - pos, "read_until_close returned %d of %d bytes" % (len(got), D - pos)
                reached("until_close_done")
        for tag in notes:                  # scenario tags of the caller, raised once the read completed
            reached(tag)
        if st is S2 and idx == 1 and kind == RU:
            reached("long_second_read")
        notes = ()
        assert got == st.data[pos:pos + len(got)], \
            "read returned %r but the stream continues with %r" % (got, st.data[pos:pos + len(got) + 2])
        assert pos + len(got) <= D
        pos += len(got)
        # ---- nothing lost: what was received and not returned is exactly the stream's next bytes
        assert not s._user_read_buffer
        assert s._read_buffer_size == D - pos and bytes(s._read_buffer) == st.data[pos:D], \
            "received-but-unreturned bytes %r, the stream has %r there" % (bytes(s._read_buffer), st.data[pos:D])
    assert not env.v.exc_contexts, "exception escaped a callback: %r" % (env.v.exc_contexts,)
    return pos


def _satisfiable(kind, n, m, pos, D, closed, st=S0):
    """Reference: can the request be completed from the bytes st.data[pos:D] (and the closed flag)?"""
    avail = D - pos
    if kind == RB or kind == RI:
        return avail >= n
    if kind == RBP or kind == RIP:
        return avail > 0 or n == 0
    if kind == RC:
        return closed
    e = st.end[kind == RX][n][pos]
    if e is None or e > D:
        return False
    return m < 0 or e - pos <= m


def _pre_req(kind, n, m, sparse):
    if not 0 <= kind <= 6:
        return False
    if kind <= RIP:
        if sparse:
            return (n == 1 or n == P.NB) and m == -1
        return 0 <= n <= P.NB and m == -1
    if kind == RC:
        return n == 0 and m == -1
    return 0 <= n <= P.J and -1 <= m <= P.MB


# ------------------------------------------------------------------------------------------
# one request from a symbolic pre-state (pos0 bytes consumed, b0 bytes buffered)

def pre_one(kind: int, n: int, m: int, pos0: int, b0: int, chunk: int, rscript: List[int],
            eofpos: int, cause: int) -> bool:
    if not _pre_req(kind, n, m, False):
        return False
    if not (1 <= pos0 <= P.P0 and 0 <= b0 <= P.B0 and 1 <= chunk <= P.C and len(rscript) <= P.K):
        return False
    for a in rscript:
        if not 0 <= a <= P.A:
            return False
    if not (pos0 + b0 <= eofpos <= len(DATA) and 0 <= cause <= 1):
        return False
    return in_shard(kind + 7 * b0 + 21 * (pos0 - 1))


_R_UNITS = ["iostream.BaseIOStream.read_bytes", "iostream.BaseIOStream.read_into",
            "iostream.BaseIOStream.read_until", "iostream.BaseIOStream.read_until_regex",
            "iostream.BaseIOStream.read_until_close", "iostream.BaseIOStream._try_inline_read",
            "iostream.BaseIOStream._read_to_buffer_loop", "iostream.BaseIOStream._read_to_buffer",
            "iostream.BaseIOStream._find_read_pos", "iostream.BaseIOStream._check_max_bytes",
            "iostream.BaseIOStream._finish_read", "iostream.BaseIOStream._consume",
            "iostream.BaseIOStream._handle_events", "iostream.BaseIOStream._handle_read",
            "iostream.BaseIOStream.close"]
_R_STUBS = ["FakeFdStream scripted kernel (harness/_iostream_rig.py): each read_from_fd call hands out the next "
            "min(a, len(buf), bytes before EOF) bytes of the stream for the next scripted a (0 = would-block); "
            "after the script the peer is silent; at eofpos it reports EOF (cause 1) or stays silent (cause 0)",
            "VLoop/FakeAio virtual loop (vp/env.py); READ readiness delivered by calling the registered handler "
            "while a read is pending and the kernel is not silent",
            "stream content is the concrete 18-byte DATA; delimiters / regexes chosen by symbolic index from "
            "3-element pools that are checked (at import) to be prefix-stable over DATA",
            "pre-state built through the real API: one arrival of pos0+b0 bytes and read_bytes(pos0)",
            "tornado loggers disabled by the rig (log output is not part of the property; the logging machinery "
            "under the tracer multiplied paths)"]


@harness(
    pre=pre_one,
    quick=dict(NB=3, MB=3, J=2, P0=1, B0=1, C=3, K=2, A=3, timeout=100, reach_timeout=60),
    thorough=dict(NB=4, MB=4, J=2, P0=2, B0=2, C=3, K=3, A=3, timeout=1500, reach_timeout=120),
    nshards=dict(quick=14, thorough=42),
    reach=["unsatisfiable_closed", "within_max_bytes", "partial_short", "failed_at_eof", "left_pending",
           "until_close_done"],
    units=_R_UNITS, stubs=_R_STUBS,
    outside=["streams longer than 18 bytes / multi-KB buffers (only the buffer-doubling logic with tiny sizes)",
             "max_buffer_size overflow (StreamBufferFullError)", "transport errors other than EOF (C13)",
             "regexes whose first match depends on how much has arrived (e.g. greedy a+)", "SSL",
             "more than K scripted arrivals"],
)
def h_read_one(kind: int, n: int, m: int, pos0: int, b0: int, chunk: int, rscript: List[int],
               eofpos: int, cause: int):
    with install() as env:
        pos0 = conc(pos0, 1, 8)
        b0 = conc(b0, 0, 8)
        chunk = conc(chunk, 1, 8)
        k = Kernel(DATA, [pos0 + b0] + list(rscript), eofpos, cause)
        s = FakeFdStream(k, read_chunk_size=len(DATA))
        f0 = s.read_bytes(pos0)
        env.run_ready()
        assert f0.done() and f0.result() == DATA[:pos0]
        assert s._read_buffer_size == b0
        s.read_chunk_size = chunk
        _drive_reads(env, s, k, [(kind, n, m)], pos0)


# ------------------------------------------------------------------------------------------
# long delimiters (3 / 4 bytes) cut by the deliveries at every position, before and while the read is pending

def _cut_tags(pos0, b0, j, chunk, rscript):
    """Vacuity tags (reach twins only): how do the scripted deliveries cut the first occurrence of the delimiter?"""
    tags = []
    e = S2.end[False][j][pos0]
    L = len(DELIMS2[j])
    if e is None or L < 3:
        return tags
    start = e - L
    at = pos0 + b0
    cuts = [at]                        # absolute stream offsets at which a delivery ends
    blocked = False
    for a in rscript:
        if a <= 0:
            blocked = True
            continue
        if blocked and start < at < e:
            tags.append("long_event_boundary")    # the delimiter is completed by a later READ event
        at += a if a < chunk else chunk
        cuts.append(at)
    inside = [c for c in cuts if start < c < e]
    if at >= e:
        if inside and inside[0] - start >= 2:
            tags.append("long_split_2plus")       # >= 2 delimiter bytes in an earlier delivery
        if len(inside) >= 2:
            tags.append("long_split_3pieces")
        if DATA2[pos0:start].find(DELIMS2[j][:2]) >= 0:
            tags.append("long_after_false_start")
    else:
        tags = []
    return tags


def pre_long(si: int, j: int, md: int, b0: int, chunk: int, rscript: List[int], tailreq: int) -> bool:
    if not (0 <= si < len(STARTS2) and 0 <= j < P.J2 and 0 <= md <= 2 and (md != 1 or P.EXACT) and 0 <= b0 <= P.B0):
        return False
    if not (P.CLO <= chunk <= P.C and len(rscript) <= P.K and 0 <= tailreq <= P.TR and (tailreq == 0 or md == 0)):
        return False
    for a in rscript:
        if not 0 <= a <= 3:
            return False
    return in_shard(si + 4 * j + 4 * P.J2 * (1 if md > 0 else 0))


@harness(
    pre=pre_long,
    quick=dict(J2=3, EXACT=0, B0=2, CLO=3, C=3, K=3, TR=1, timeout=100, reach_timeout=60),
    thorough=dict(J2=4, EXACT=1, B0=3, CLO=2, C=4, K=4, TR=2, timeout=1500, reach_timeout=200),
    nshards=dict(quick=24, thorough=32),
    reach=["long_split_2plus", "long_split_3pieces", "long_after_false_start", "long_event_boundary",
           "long_unsatisfiable", "long_second_read"],
    units=_R_UNITS,
    stubs=_R_STUBS[:2] + [
        "stream content is the concrete 24-byte DATA2 in which the 4-byte delimiter CRLFCRLF and the 3-byte "
        "delimiters END and LF CR LF occur at several offsets, each preceded by a false start; the read position "
        "is one of STARTS2 (symbolic index), max_bytes is None / exactly enough / one byte short, b0 bytes are already buffered when read_until is issued (pre-state "
        "built through the real API), then up to K scripted deliveries of 0..3 bytes (0 = would-block, i.e. the "
        "next delivery comes with a separate READ event while the read is pending)"],
    outside=["delimiters longer than 4 bytes", "read_until_regex with these literals (covered by the regex pool of "
             "h_read_one only for short patterns)", "more than K deliveries", "EOF during a long-delimiter read (C13)"],
)
def h_read_long(si: int, j: int, md: int, b0: int, chunk: int, rscript: List[int], tailreq: int):
    """read_until(long delimiter) with the delimiter's bytes split over the pre-buffered bytes and the
    deliveries at every position; optionally followed by a second read (what comes next must be intact)."""
    with install() as env:
        si = conc(si, 0, len(STARTS2) - 1)
        j = conc(j, 0, len(DELIMS2) - 1)
        pos0 = STARTS2[si]
        b0 = conc(b0, 0, 8)
        chunk = conc(chunk, 1, 8)
        k = Kernel(DATA2, [pos0 + b0] + list(rscript), len(DATA2), 0)
        s = FakeFdStream(k, read_chunk_size=len(DATA2))
        f0 = s.read_bytes(pos0)
        env.run_ready()
        assert f0.done() and f0.result() == DATA2[:pos0] and s._read_buffer_size == b0
        s.read_chunk_size = chunk
        notes = _cut_tags(pos0, b0, j, chunk, rscript) if P.reach is not None else ()
        # max_bytes: None | exactly the length up to and including the first delimiter (must succeed) | one
        # byte less (must be refused with UnsatisfiableReadError once enough has arrived); concrete per path
        e = S2.end[False][j][pos0]
        full = (e - pos0) if e is not None else 6
        m = -1 if md == 0 else full if md == 1 else full - 1
        reqs = [(RU, j, m)]
        if tailreq == 1:
            reqs.append((RU, (j + 1) % P.J2, -1))     # a second long-delimiter read continues from the leftovers
        elif tailreq == 2:
            reqs.append((RBP, 3, -1))
        _drive_reads(env, s, k, reqs, pos0, S2, notes)


# ------------------------------------------------------------------------------------------
# sequences of requests from the start of the stream

def pre_seq(reqs: List[Tuple[int, int, int]], chunk: int, rscript: List[int], eofpos: int, cause: int) -> bool:
    if not (1 <= len(reqs) <= P.R and P.CLO <= chunk <= P.C and len(rscript) <= P.K):
        return False
    for kind, n, m in reqs:
        if not _pre_req(kind, n, m, True):
            return False
    for a in rscript:
        if not 0 <= a <= P.A:
            return False
    if not (0 <= eofpos <= P.E and 0 <= cause <= 1):
        return False
    return in_shard(reqs[0][0] + 7 * (reqs[1][0] if len(reqs) > 1 else 0))


@harness(
    pre=pre_seq,
    quick=dict(R=2, NB=3, MB=2, J=1, CLO=2, C=2, K=1, A=4, E=6, timeout=100, reach_timeout=60),
    thorough=dict(R=2, NB=3, MB=3, J=1, CLO=2, C=2, K=2, A=4, E=8, timeout=1500, reach_timeout=120),
    nshards=dict(quick=49, thorough=49),
    reach=["unsatisfiable_closed", "failed_at_eof", "left_pending", "until_close_done", "refused_after_close",
           "read_after_failed_read"],
    classify=lambda **a: _classify(h_read_seq, a),
    units=_R_UNITS, stubs=_R_STUBS[:3],
    outside=["more than R requests / K scripted arrivals", "see h_read_one"],
)
def h_read_seq(reqs: List[Tuple[int, int, int]], chunk: int, rscript: List[int], eofpos: int, cause: int):
    with install() as env:
        chunk = conc(chunk, 1, 8)
        k = Kernel(DATA, rscript, eofpos, cause)
        s = FakeFdStream(k, read_chunk_size=chunk)
        _drive_reads(env, s, k, reqs, 0)


TECHNIQUE = ("CrossHair symbolic execution of the real BaseIOStream read path over a scripted kernel; arrival "
             "sizes, read_chunk_size, request parameters, max_bytes and the EOF position are solver variables; "
             "reference oracle computed from the concrete stream alone")
ASSUMPTIONS = [
    "transport contract: read_from_fd returns the next 1..len(buf) bytes of the stream, None, or 0 at EOF",
    "stream content concrete (18 bytes with delimiters at several offsets); sizes and positions symbolic",
]
