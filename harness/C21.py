"""C21 - Escaping and encoding helpers are safe and invertible (probe draft)."""
from typing import List, Tuple

from vp.api import P, harness, in_shard, reached

from tornado import escape


def no_surrogates(s: str) -> bool:
    for c in s:
        if 0xD800 <= ord(c) <= 0xDFFF:
            return False
    return True


_ENT = {"&": "&amp;", "<": "&lt;", ">": "&gt;", '"': "&quot;", "'": "&#x27;"}


def pre_html(s: str) -> bool:
    return len(s) <= P.L and no_surrogates(s) and in_shard(len(s))


@harness(pre=pre_html, quick=dict(L=5, timeout=120), thorough=dict(L=7, timeout=1200),
         nshards=dict(quick=1, thorough=1), reach=["amp"])
def h_html(s: str):
    e = escape.xhtml_escape(s)
    assert isinstance(e, str)
    for ch in "<>\"'":
        assert ch not in e, "raw %r in escaped output" % ch
    if "&" in s:
        reached("amp")
    ref = "".join(_ENT.get(c, c) for c in s)
    assert e == ref
    assert escape.xhtml_unescape(e) == s


def pre_urlb(b: bytes, plus: bool) -> bool:
    return len(b) <= P.L


@harness(pre=pre_urlb, quick=dict(L=1, timeout=120), thorough=dict(L=2, timeout=1200),
         reach=["pct"])
def h_urlb(b: bytes, plus: bool):
    e = escape.url_escape(b, plus)
    if "%" in e:
        reached("pct")
    assert escape.url_unescape(e, encoding=None, plus=plus) == b
