"""C21 - Escaping and encoding helpers are safe and invertible.

Real code driven: tornado.escape.xhtml_escape / xhtml_unescape / url_escape / url_unescape /
json_encode / json_decode / utf8 / to_unicode / recursive_unicode / parse_qs_bytes (and the
stdlib code they wrap, executed symbolically by CrossHair).
Oracle: the property statement (safety of the escaped form, round trips, a reference
query-string splitter written here), never the implementation.
"""
from typing import List, Tuple

from vp.api import P, harness, in_shard, reached

from tornado import escape

TECHNIQUE = "CrossHair symbolic execution of the real helpers over symbolic str/bytes/value shapes"


def no_surrogates(s: str) -> bool:
    for c in s:
        if 0xD800 <= ord(c) <= 0xDFFF:
            return False
    return True


def _cls(c: str) -> int:
    """class of a character for sharding (0..4 the five HTML specials, 5 other)."""
    if c == "&":
        return 0
    if c == "<":
        return 1
    if c == ">":
        return 2
    if c == '"':
        return 3
    if c == "'":
        return 4
    return 5


# ------------------------------------------------------------------------------------------ HTML
_SENT = "\x00"


def pre_html(s: str) -> bool:
    if not (len(s) <= P.L and no_surrogates(s)):
        return False
    key = (_cls(s[0]) if len(s) > 0 else 0) + 6 * (_cls(s[1]) if len(s) > 1 else 0)
    return in_shard(key)


@harness(pre=pre_html, quick=dict(L=3, timeout=150), thorough=dict(L=5, timeout=1400),
         nshards=dict(quick=4, thorough=36), reach=["amp_in_input", "astral", "entity_like_input"],
         units=["escape.xhtml_escape", "escape.xhtml_unescape", "escape.to_unicode",
                "html.escape", "html.unescape"],
         stubs=["text without lone surrogates (pre), as the statement says"],
         outside=["strings longer than L code points"])
def h_html(s: str):
    """xhtml_escape(s): no < > quote apostrophe, every & starts one of the 5 entities the escaper
    introduces, one entity per special input character, and xhtml_unescape gives s back."""
    e = escape.xhtml_escape(s)
    assert type(e) is str
    for ch in "<>\"'":
        assert ch not in e, "raw %r in escaped output %r" % (ch, e)
    t = (e.replace("&amp;", _SENT).replace("&lt;", _SENT).replace("&gt;", _SENT)
         .replace("&quot;", _SENT).replace("&#x27;", _SENT))
    assert "&" not in t, "'&' outside an introduced entity in %r" % (e,)
    nspecial = s.count("&") + s.count("<") + s.count(">") + s.count('"') + s.count("'")
    assert t.count(_SENT) == nspecial + s.count(_SENT), "entity count differs from special count"
    assert len(t) == len(s), "non-special characters must be copied one to one"
    if "&" in s:
        reached("amp_in_input")
    if len(s) > 0 and ord(s[0]) > 0xFFFF:
        reached("astral")
    if s[:2] == "&l":
        reached("entity_like_input")
    assert escape.xhtml_unescape(e) == s, "unescape(escape(s)) != s"


def pre_html_bytes(b: bytes) -> bool:
    return len(b) <= P.L


@harness(pre=pre_html_bytes, quick=dict(L=2, timeout=120), thorough=dict(L=4, timeout=1400),
         reach=["valid_multibyte", "invalid_utf8"],
         units=["escape.xhtml_escape", "escape.xhtml_unescape", "escape.to_unicode"],
         outside=["byte strings longer than L"])
def h_html_bytes(b: bytes):
    """bytes input: valid UTF-8 is escaped like its decoding; invalid UTF-8 raises (never emits)."""
    try:
        ref = b.decode("utf-8")
    except UnicodeDecodeError:
        ref = None
    try:
        e = escape.xhtml_escape(b)
    except UnicodeDecodeError:
        e = None
    if ref is None:
        reached("invalid_utf8")
        assert e is None, "invalid UTF-8 was escaped to %r" % (e,)
        return
    assert e is not None
    if len(ref) < len(b):
        reached("valid_multibyte")
    for ch in "<>\"'":
        assert ch not in e
    assert escape.xhtml_unescape(e) == ref
    assert escape.xhtml_unescape(e.encode("utf-8")) == ref


# ------------------------------------------------------------------------------------------- URL
# urllib.parse.quote realises every byte it touches (dict lookup per byte), so the free part is
# ONE byte / one latin-1 code point (all 256 values explored through realisation forks) placed
# between pooled neighbours chosen by symbolic index; a second harness takes whole strings of
# pooled class-representative code points.
_BL = [b"", b"%", b"\xe9", b"+"]
_BR = [b"", b"41", b"+", b"%zz", b" /"]


def pre_url_bytes(li: int, b: bytes, ri: int, plus: bool) -> bool:
    return 0 <= li < P.NL and 0 <= ri < P.NR and len(b) <= 1 and in_shard(li * 8 + ri)


@harness(pre=pre_url_bytes, quick=dict(NL=1, NR=3, timeout=150), thorough=dict(NL=4, NR=5, timeout=600),
         nshards=dict(quick=2, thorough=8), reach=["percent_encoded", "plus_for_space"],
         units=["escape.url_escape", "escape.url_unescape", "urllib.parse.quote",
                "urllib.parse.quote_plus", "urllib.parse.unquote_to_bytes"],
         stubs=["value = LEFT[li] + (one free byte or empty) + RIGHT[ri]; LEFT=%r RIGHT=%r "
                "(quote() realises bytes, so only one position is free; all 256 values are forked)"
                % (_BL, _BR)],
         outside=["more than one free byte; neighbours outside the pools"])
def h_url_bytes(li: int, b: bytes, ri: int, plus: bool):
    """bytes-returning form: url_unescape(url_escape(v, plus), encoding=None, plus=plus) == v."""
    v = _BL[li] + b + _BR[ri]
    e = escape.url_escape(v, plus)
    assert type(e) is str
    if "%" in e and li == 0 and ri == 0:
        reached("percent_encoded")
    if plus and b == b" ":
        reached("plus_for_space")
        assert "+" in e and " " not in e
    for ch in e:
        assert ch in "ABCDEFGHIJKLMNOPQRSTUVWXYZabcdefghijklmnopqrstuvwxyz0123456789_.-~%+/", \
            "unsafe character %r in escaped URL" % ch
    if plus:
        assert "/" not in e
    back = escape.url_unescape(e, encoding=None, plus=plus)
    assert type(back) is bytes
    assert back == v, "url_unescape(url_escape(v)) = %r != %r" % (back, v)
    assert escape.url_unescape(e.encode("ascii"), encoding=None, plus=plus) == v


_CP = ["", "a", "Z", "0", "-", "_", ".", "~", " ", "+", "%", "/", "&", "=", "?", "#", "\x00",
       "\x7f", "\x80", "\xe9", "\u07ff", "\u0800", "\ud7ff", "\ue000", "\uffff", "\U00010000",
       "\U0010ffff", "%41", "%C3%A9"]


def pre_url_str(idx: List[int], c: bytes, plus: bool) -> bool:
    if not (len(idx) <= P.N and len(c) <= P.F):
        return False
    for i in idx:
        if not 0 <= i < len(_CP):
            return False
    return in_shard(idx[0] if len(idx) > 0 else 0)


@harness(pre=pre_url_str, quick=dict(N=2, F=0, timeout=200), thorough=dict(N=3, F=0, timeout=1400),
         nshards=dict(quick=2, thorough=29), reach=["non_ascii"],
         units=["escape.url_escape", "escape.url_unescape", "urllib.parse.quote",
                "urllib.parse.quote_plus", "urllib.parse.unquote", "urllib.parse.unquote_plus"],
         stubs=["s = pooled code points (class representatives: unreserved, reserved, space, plus, "
                "percent, NUL/DEL, every UTF-8 length boundary, literal %XX) chosen by symbolic index, "
                "(free code points: see h_url_cp)"],
         outside=["code points outside the pool of class representatives in this harness; "
                  "more than N pooled code points"])
def h_url_str(idx: List[int], c: bytes, plus: bool):
    """str form: url_unescape(url_escape(s, plus), plus=plus) == s in both plus modes."""
    s = "".join([_CP[i] for i in idx]) + c.decode("latin-1")
    e = escape.url_escape(s, plus)
    if len(idx) > 0 and idx[0] >= 18:
        reached("non_ascii")
    _check_url_str(s, e, plus)


_SR = ["", "41", "\xe9", "+"]


def pre_url_cp(c: bytes, ri: int, plus: bool) -> bool:
    return len(c) <= 1 and 0 <= ri < P.NR and in_shard(ri * 2 + (1 if plus else 0))


@harness(pre=pre_url_cp, quick=dict(NR=2, timeout=150), thorough=dict(NR=4, timeout=600),
         nshards=dict(quick=2, thorough=8), reach=["free_cp_percent", "free_cp_two_bytes"],
         units=["escape.url_escape", "escape.url_unescape", "urllib.parse.quote",
                "urllib.parse.quote_plus", "urllib.parse.unquote", "urllib.parse.unquote_plus"],
         stubs=["s = one free latin-1 code point (0..255, every value forked when quote() realises it) "
                "+ RIGHT[ri], RIGHT=%r" % (_SR,)],
         outside=["free code points above U+00FF (quote() realises each UTF-8 byte: infeasible)"])
def h_url_cp(c: bytes, ri: int, plus: bool):
    """str form with a free code point U+0000..U+00FF followed by a pooled right context."""
    s = c.decode("latin-1") + _SR[ri]
    e = escape.url_escape(s, plus)
    if c == b"%":
        reached("free_cp_percent")
        assert e.startswith("%25")
    if len(c) == 1 and c[0] >= 0x80:
        reached("free_cp_two_bytes")
    _check_url_str(s, e, plus)


def _check_url_str(s, e, plus):
    for ch in e:
        assert ch in "ABCDEFGHIJKLMNOPQRSTUVWXYZabcdefghijklmnopqrstuvwxyz0123456789_.-~%+/", \
            "unsafe character %r in escaped URL" % ch
    back = escape.url_unescape(e, plus=plus)
    assert back == s, "url_unescape(url_escape(s)) = %r != %r" % (back, s)
    assert escape.url_unescape(e.encode("ascii"), plus=plus) == s
    assert escape.url_unescape(e, encoding=None, plus=plus) == s.encode("utf-8")


# ------------------------------------------------------------------------------------------ JSON
# json.dumps realises every character that needs escaping (dict lookup / format per match) and
# every int/float (C repr), so free *non-ASCII* text cannot be exhausted.  The symbolic part is:
# a free ASCII code point (all 128 values: the escaped ones are forked one by one, the printable
# ones stay symbolic) between pooled tokens chosen by symbolic index, inside a symbolic shape.
_TOK = ["", "<", "/", "<!--", "-->", "<![CDATA[", "</", "<!", "\\", '"', "\n", "\x00", "\x7f", "\xe9",
        "\u2028", "\U0001f600", "a", "<\\/", "\\u003c", "</script>", "]]>"]
_FLOATS = [0.5, -0.0, 1e100, -2.5e-7]
_INTS = [0, -1, 2 ** 53 + 1, -10 ** 20]
_KEYS = ["", "k", "<", "/", "\xe9</", "<!--", "<![CDATA[", "-->", "<!", "</"]


def pre_json_str(li: int, c: str, ri: int) -> bool:
    if not (0 <= li < P.NT and 0 <= ri < P.NT and len(c) <= P.F):
        return False
    for ch in c:
        if ord(ch) >= 0x80:
            return False
    return in_shard(li)


@harness(pre=pre_json_str, quick=dict(NT=3, F=1, timeout=150), thorough=dict(NT=len(_TOK), F=1, timeout=900),
         nshards=dict(quick=2, thorough=16), reach=["lt_slash_across", "control_char"],
         units=["escape.json_encode", "escape.json_decode", "json.dumps", "json.loads"],
         stubs=["s = TOK[li] + free ASCII code point(s) + TOK[ri], TOK=%r (first NT entries in quick); "
                "non-ASCII only through pooled tokens (json.dumps realises escaped characters)" % (_TOK,)],
         outside=["free non-ASCII code points", "more than F free code points"])
def h_json_str(li: int, c: str, ri: int):
    """json_encode(str): never contains '</' and decodes to the same string."""
    s = _TOK[li] + c + _TOK[ri]
    e = escape.json_encode(s)
    assert type(e) is str
    assert "</" not in e, "'</' in JSON output %r" % (e,)
    if li == 1 and c == "/":
        reached("lt_slash_across")
    if len(c) > 0 and ord(c[0]) < 0x20:
        reached("control_char")
    assert escape.json_decode(e) == s, "json_decode(json_encode(s)) != s"
    assert escape.json_decode(e.encode("utf-8")) == s


_MARK = ["<", "!", "-", ">", "/", "<!--", "-->", "<![CDATA[", "]]>", "</", "<!", "a", "\\", "script"]


def pre_json_markup(idx: List[int]) -> bool:
    if len(idx) > P.N:
        return False
    for i in idx:
        if not 0 <= i < P.NM:
            return False
    return in_shard(idx[0] if len(idx) > 0 else 0)


@harness(pre=pre_json_markup, quick=dict(N=3, NM=11, timeout=100), thorough=dict(N=4, NM=len(_MARK), timeout=900),
         nshards=dict(quick=4, thorough=14), reach=["comment_open", "cdata", "close_tag_assembled"],
         units=["escape.json_encode", "escape.json_decode"],
         stubs=["s = concatenation of <= N markup tokens from %r chosen by symbolic index, used as a string "
                "value, as a dict key at depth 1 and as a dict key at depth 2" % (_MARK,)],
         outside=["more than N tokens"])
def h_json_markup(idx: List[int]):
    """HTML-significant sequences (<!-- <! --> <![CDATA[ </ and anything assembled from their pieces) in
    strings and in dict keys: the output is valid JSON decoding to an equal value and never contains '</'."""
    s = "".join([_MARK[i] for i in idx])
    for v in (s, {s: 1}, {"k": {s: [s]}}):
        e = escape.json_encode(v)
        assert "</" not in e, "'</' in JSON output %r" % (e,)
        try:
            back = escape.json_decode(e)
        except ValueError as ex:
            raise AssertionError("json_encode(%r) = %r is not valid JSON: %s" % (v, e, ex))
        assert back == v, "json_decode(json_encode(v)) = %r != %r" % (back, v)
    if s[:4] == "<!--":
        reached("comment_open")
    if "<![CDATA[" in s:
        reached("cdata")
    if len(idx) >= 2 and idx[0] == 0 and idx[1] == 4:
        reached("close_tag_assembled")


def _mk_value(shape: int, s: str, t: str, n: int, b: bool, f: float, k: str):
    if shape == 0:
        return [None, b, n, f]
    if shape == 1:
        return [s, t]
    if shape == 2:
        return {k: t}
    if shape == 3:
        return {"k": [s, n, None], k + "2": b}
    if shape == 4:
        return [[s], {k: [0.5, {"<": t}]}, 7]
    if shape == 5:
        return [s + "<", "/" + t]
    if shape == 6:
        return {k + "<": {"/" + k: s + "<"}}
    if shape == 8:
        return {"a": {k: s}, k: [t, {k: None}]}
    return [{"a": s, "b": [t, b]}, [], {}]


def _cases(nt: int, nk: int):
    """(shape, si, ti, b, ni, fi, ki) tuples: every shape with every combination of the pool entries it
    actually uses."""
    out = []
    T, I, F, K, B = range(nt), range(len(_INTS)), range(len(_FLOATS)), range(nk), (0, 1)
    out += [(0, 0, 0, b, n, f, 0) for b in B for n in I for f in F]
    out += [(1, s, t, 0, 0, 0, 0) for s in T for t in T]
    out += [(2, 0, t, 0, 0, 0, k) for t in T for k in K]
    out += [(3, s, 0, b, k % len(_INTS), 0, k) for s in T for b in B for k in K]
    out += [(4, s, t, 0, 0, 0, k) for s in T for t in T for k in K]
    out += [(5, s, t, 0, 0, 0, 0) for s in T for t in T]
    out += [(6, s, 0, 0, 0, 0, k) for s in T for k in K]
    out += [(7, s, t, b, 0, 0, 0) for s in T for t in T for b in B]
    out += [(8, s, t, 0, 0, 0, k) for s in T for t in T for k in K]
    return out


_CASES = {"quick": _cases(4, 6), "thorough": _cases(12, len(_KEYS))}


def pre_json_val(i: int) -> bool:
    return 0 <= i < len(_CASES[P.tier]) and in_shard(i)


@harness(pre=pre_json_val, quick=dict(timeout=100), thorough=dict(timeout=900),
         nshards=dict(quick=2, thorough=8), reach=["nested_lt_slash", "float_leaf"],
         units=["escape.json_encode", "escape.json_decode"],
         stubs=["value = one of 9 container shapes (markup tokens also as dict keys at depth 1 and 2) (None/bool/int/float/list/dict nested to depth 3) with "
                "str leaves from TOK (first 4 in quick - incl. '<!--' - 12 in thorough; first 6 keys in quick, incl. '<!--'), ints %r, floats %r, dict keys %r: the "
                "combination is chosen by ONE symbolic index into the table of all combinations "
                "(json.dumps realises numbers and dict keys, and CrossHair 0.0.110 fails internally on "
                "symbolic text inside containers here), i.e. this harness is an enumeration; the free "
                "symbolic text is in h_json_str" % (_INTS, _FLOATS, _KEYS)],
         outside=["free symbolic leaves inside containers", "other shapes / deeper nesting",
                  "non-JSON values (tuples, non-str keys, NaN)"])
def h_json_val(i: int):
    """json_encode(value) never contains '</' and json_decode gives an equal value."""
    shape, si, ti, b, ni, fi, ki = _CASES[P.tier][i]
    v = _mk_value(shape, _TOK[si], _TOK[ti], _INTS[ni], bool(b), _FLOATS[fi], _KEYS[ki])
    e = escape.json_encode(v)
    assert "</" not in e, "'</' in JSON output %r" % (e,)
    if shape == 5:
        reached("nested_lt_slash")
    if shape == 0:
        reached("float_leaf")
    back = escape.json_decode(e)
    assert back == v, "json_decode(json_encode(v)) = %r != %r" % (back, v)
    assert type(back) is type(v)


# ------------------------------------------------------------------------------------------ UTF-8
def pre_utf8_str(s: str) -> bool:
    return len(s) <= P.L and no_surrogates(s)


@harness(pre=pre_utf8_str, quick=dict(L=3, timeout=100), thorough=dict(L=6, timeout=900),
         reach=["multibyte"],
         units=["escape.utf8", "escape.to_unicode", "escape.recursive_unicode"],
         stubs=["text without lone surrogates (pre)"], outside=["longer strings"])
def h_utf8_str(s: str):
    """to_unicode(utf8(s)) == s; both are the identity on their own result type and on None."""
    b = escape.utf8(s)
    assert type(b) is bytes
    if len(b) > len(s):
        reached("multibyte")
    assert escape.to_unicode(b) == s
    assert escape.utf8(b) is b and escape.to_unicode(s) is s
    assert escape.utf8(None) is None and escape.to_unicode(None) is None
    r = escape.recursive_unicode({7: [b, (b, s, 1)], b"k": None})
    assert r == {7: [s, (s, s, 1)], "k": None}
    assert type(r[7][1]) is tuple and type(r[7]) is list


def pre_utf8_bytes(b: bytes) -> bool:
    return len(b) <= P.L


@harness(pre=pre_utf8_bytes, quick=dict(L=3, timeout=100), thorough=dict(L=4, timeout=900),
         reach=["valid_multibyte", "invalid"],
         units=["escape.utf8", "escape.to_unicode", "escape.recursive_unicode"],
         outside=["longer byte strings"])
def h_utf8_bytes(b: bytes):
    """utf8(to_unicode(b)) == b for every valid UTF-8 byte string; invalid data raises."""
    try:
        u = escape.to_unicode(b)
    except UnicodeDecodeError:
        u = None
    try:
        ref = b.decode("utf-8")
    except UnicodeDecodeError:
        ref = None
    if ref is None:
        reached("invalid")
        assert u is None, "invalid UTF-8 decoded to %r" % (u,)
        return
    assert u == ref and type(u) is str
    if len(u) < len(b):
        reached("valid_multibyte")
    assert escape.utf8(u) == b, "utf8(to_unicode(b)) != b"
    assert escape.recursive_unicode([b, (b,)]) == [u, (u,)]


def pre_utf8_types(k: int, n: int) -> bool:
    return 0 <= k <= 8


@harness(pre=pre_utf8_types, quick=dict(timeout=60), thorough=dict(timeout=60), reach=["rejected"],
         units=["escape.utf8", "escape.to_unicode"], outside=["types outside the listed ones"])
def h_utf8_types(k: int, n: int):
    """utf8/to_unicode reject everything that is not str/bytes/None with TypeError."""
    v = [n, 0.5, [b"a"], ("a",), {"a": b"a"}, bytearray(b"ab"), memoryview(b"ab"), object(), n > 0][k]
    for fn in (escape.utf8, escape.to_unicode):
        try:
            r = fn(v)
            raised = None
        except Exception as ex:
            raised = ex
        assert type(raised) is TypeError, "%s(%r) did not raise TypeError" % (fn.__name__, v)
    reached("rejected")


# ---------------------------------------------------------------------------------- query strings
def _hexval(c: int) -> int:
    if 0x30 <= c <= 0x39:
        return c - 0x30
    if 0x41 <= c <= 0x46:
        return c - 0x41 + 10
    if 0x61 <= c <= 0x66:
        return c - 0x61 + 10
    return -1


def _ref_unquote(b: bytes) -> bytes:
    out = []
    i = 0
    n = len(b)
    while i < n:
        c = b[i]
        if c == 0x2B:
            out.append(0x20)
            i += 1
        elif c == 0x25 and i + 2 < n and _hexval(b[i + 1]) >= 0 and _hexval(b[i + 2]) >= 0:
            out.append(_hexval(b[i + 1]) * 16 + _hexval(b[i + 2]))
            i += 3
        else:
            out.append(c)
            i += 1
    return bytes(out)


def _ref_parse_qs(b: bytes, keep_blank: bool):
    """Reference: '&'-separated fields, first '=' separates name from value, '+' is a space,
    %XX is a byte, everything else is literal; blank values dropped unless keep_blank."""
    res = {}
    for field in b.split(b"&"):
        if not field:
            continue
        eq = field.find(b"=")
        if eq < 0:
            name, value = field, b""
        else:
            name, value = field[:eq], field[eq + 1:]
        if not value and not keep_blank:
            continue
        res.setdefault(_ref_unquote(name).decode("latin-1"), []).append(_ref_unquote(value))
    return res


_QPAIRS = [(b"", b"=b"), (b"a=", b""), (b"a=%4", b""), (b"a=", b"&c=d"), (b"", b""), (b"x=1&", b"=2"),
           (b"%e9=", b""), (b"a=%", b"1"), (b"a=", b"+"), (b"", b"&&=")]


def pre_qs(pi: int, b: bytes, keep: bool) -> bool:
    return 0 <= pi < P.NP and len(b) <= P.L and in_shard(pi)


@harness(pre=pre_qs, quick=dict(L=1, NP=5, timeout=100, reach_timeout=80),
         thorough=dict(L=2, NP=len(_QPAIRS), timeout=1400, reach_timeout=80),
         nshards=dict(quick=5, thorough=10), reach=["pair", "percent_decoded", "high_byte_name"],
         units=["escape.parse_qs_bytes", "urllib.parse.parse_qs"],
         stubs=["qs = PRE + free bytes (<= L) + SUF with (PRE, SUF) = PAIRS[pi], PAIRS=%r (first NP in "
                "quick): unquote realises the two bytes after a '%%', so the free part is short" % (_QPAIRS,)],
         outside=["more than L free bytes", "strict_parsing=True", "max_num_fields"])
def h_qs(pi: int, b: bytes, keep: bool):
    """parse_qs_bytes(bytes) and parse_qs_bytes(latin-1 str) == reference splitter: every byte
    of every name and value is preserved."""
    hit_pct = pi == 2 and b == b"1"          # decided before the real call so the twin finds it
    hit_high = pi == 0 and b == b"\xe9"
    b = _QPAIRS[pi][0] + b + _QPAIRS[pi][1]
    got = escape.parse_qs_bytes(b, keep_blank_values=keep)
    ref = _ref_parse_qs(b, keep)
    if len(ref) > 0:
        reached("pair")
    if hit_high:
        assert got == {"\xe9": [b"b"]}
        reached("high_byte_name")
    if hit_pct:
        assert got == {"a": [b"A"]}
        reached("percent_decoded")
    assert got == ref, "parse_qs_bytes(%r) = %r, reference %r" % (b, got, ref)
    for k, vs in got.items():
        assert type(k) is str
        for v in vs:
            assert type(v) is bytes
    got2 = escape.parse_qs_bytes(b.decode("latin-1"), keep_blank_values=keep)
    assert got2 == ref, "str form differs: %r vs %r" % (got2, ref)
