"""C23 - Signed values cannot be forged, replayed across names or crash the reader.

Real code driven: tornado.web.create_signed_value / decode_signed_value / _get_version /
_decode_signed_value_v1 / _decode_signed_value_v2 / _decode_fields_v2 / get_signature_key_version
(base64 real).  HMAC is replaced by an INJECTIVE pure-Python stand-in ("perfect MAC" assumption):
  _create_signature_v1(secret, *parts) = b"S1" + secret + b"." + esc(concat(parts))   (concatenation,
        exactly like hmac.update; esc maps '|' and '~' injectively to '~p'/'~t' so that the
        signature, like real hex, never contains the field separator)
  _create_signature_v2(secret, s)      = b"S2" + secret + b"." + s
hmac.compare_digest -> ==.   Then: a presented string verifies  <=>  its signed material is
byte-identical to material the key holder signed, so forgery <=> the material parses two ways.
The attacker is modelled by EDITS of an issued value (single-byte replace/insert/delete at a symbolic
position, prefix deletion, field swap) presented under a symbolic name/secret/key version/time.
"""
from typing import List, Tuple

from vp.api import P, harness, in_shard, reached

from tornado import web
from tornado.escape import utf8

from harness import _sec_rig as _rig  # noqa: F401  (fixed clock for tornado.web.time)


def _esc(m):
    return m.replace(b"~", b"~t").replace(b"|", b"~p")


def _sig1(secret, *parts):
    return b"S1" + utf8(secret) + b"." + _esc(b"".join([utf8(p) for p in parts]))


def _sig2(secret, s):
    return b"S2" + utf8(secret) + b"." + utf8(s)


class _Hmac:
    @staticmethod
    def compare_digest(a, b):
        return a == b

    @staticmethod
    def new(*a, **k):
        raise AssertionError("real hmac must not be reached (signatures are stubbed)")


web._create_signature_v1 = _sig1
web._create_signature_v2 = _sig2
web.hmac = _Hmac

STUBS = ["HMAC-SHA1/SHA256 replaced by an injective pure-Python stand-in (perfect-MAC assumption): "
         "web._create_signature_v1/_v2 patched, web.hmac.compare_digest -> ==",
         "clock passed through the documented `clock` parameter (symbolic int seconds)",
         "secrets from the pool {k1,k2} / key dict {0:k1, 1:k2}; names = pool {foo, fo, x, ''} + one free "
         "code point; creation time from the pool {1, 9, 10, 1600000000} (str(int) realises)",
         "gen_log warnings disabled (their '%r' formatting realises symbolic values)"]
OUTSIDE = ["real SHA-1/SHA-256 collision resistance", "values longer than V bytes", "more than one edit"]

import logging
logging.getLogger("tornado.general").disabled = True

NAMES = ["fo", "x", "", "foYQ=="]
TIMES = [1, 9, 10, 1600000000]
SECRETS = ["k1", "k2"]
KEYDICT = {0: "k1", 1: "k2"}
MAXAGE = 31 * 86400


def mkname(ni, cp):
    return NAMES[ni] + cp


def secret_for(dictsec, si):
    return KEYDICT if dictsec else SECRETS[si]


def issue(ver, name, value, ti, dictsec, si):
    t0 = TIMES[ti]
    if ver == 1:
        return web.create_signed_value(SECRETS[si], name, value, version=1, clock=lambda: t0)
    if dictsec:
        return web.create_signed_value(KEYDICT, name, value, version=2, clock=lambda: t0, key_version=si)
    return web.create_signed_value(SECRETS[si], name, value, version=2, clock=lambda: t0)


# ------------------------------------------------------------------------------------------ 1
# CrossHair realises (enumerates) symbolic `bytes` at bytes.split / bytes.partition, which every decoder
# starts with, and a free code point is enumerated by utf8()+split as well: a round trip over free data
# can therefore never be exhausted.  The data of the round trip is chosen BY THE SOLVER from pools of
# format-relevant values (separator, digits, '=', newline, non-ASCII of 2/3/4 UTF-8 bytes, NUL, 0xff),
# the clock offset stays an unbounded-precision symbolic integer.
CPS = ["", "|", ":", "\n", "\xe9", "\U00010000", "a", "0", "=", "\u20ac"]          # quick: the first RC=6
VALS = [b"", b"a", b"\xff", b"|", b"ab\x00", b"2|1:0|", b"1600000000", b"\n", b"YQ==", b"abc"]   # quick: first RV=4


def classify_rt(ver, ni, ci, vi, ti, dn, dictsec, si):
    if ver == 2 and 0 <= ci < len(CPS) and len(CPS[ci]) == 1 and ord(CPS[ci]) > 127:
        return "v2-nonascii-name-length"
    if ver == 2 and 0 <= ci < len(CPS) and CPS[ci] == "\n":
        return "v2-newline-in-name"
    return None


def pre_rt(ver: int, ni: int, ci: int, vi: int, ti: int, dn: int, dictsec: bool, si: int) -> bool:
    if P.nshards > 1:
        # pinned per shard by equality: shards 0-3 = v1 x creation time, 4-11 = v2 x creation time x secret form
        k = P.shard
        if k < 4:
            if ver != 1 or ti != k:
                return False
        elif ver != 2 or ti != (k - 4) % 4 or dictsec != ((k - 4) // 4 == 1):
            return False
    if not (1 <= ver <= 2 and 0 <= ni < P.RN and 0 <= ci < P.RC and 0 <= vi < P.RV):
        return False
    if not (0 <= ti < len(TIMES) and 0 <= dn <= MAXAGE and 0 <= si <= 1):
        return False
    if ver == 1 and dictsec:
        return False
    if not dictsec and si != 1 and P.tier == "quick":
        return False          # quick: which of the two plain secrets is used only matters for key dictionaries
    if len(P.exclude) > 0 and classify_rt(ver, ni, ci, vi, ti, dn, dictsec, si) in P.exclude:
        return False
    return True


@harness(pre=pre_rt, quick=dict(RN=2, RC=6, RV=3, timeout=250, reach_timeout=60),
         thorough=dict(RN=4, RC=10, RV=10, timeout=1400),
         nshards=dict(quick=12, thorough=12), reach=["rt_v1", "rt_v2_dict", "rt_last_second"],
         classify=classify_rt,
         units=["web.create_signed_value", "web.decode_signed_value", "web._get_version",
                "web._decode_signed_value_v1", "web._decode_signed_value_v2", "web._decode_fields_v2",
                "web.get_signature_key_version"],
         stubs=STUBS + ["round trip data chosen by symbolic index from pools (bytes.split/partition and utf8() realise "
                        "symbolic data): name = pool + one of {none,|,:,LF,e-acute,U+10000; thorough also a,0,=,euro sign}; value from "
                        "{empty,a,ff,|; thorough also ab NUL,'2|1:0|',1600000000,LF,YQ==,abc}; clock offset = symbolic int 0..31 days"],
         outside=OUTSIDE + ["names/values outside the pools"])
def h_roundtrip(ver: int, ni: int, ci: int, vi: int, ti: int, dn: int, dictsec: bool, si: int):
    cp = CPS[ci]
    value = VALS[vi]
    name = mkname(ni, cp)
    s = issue(ver, name, value, ti, dictsec, si)
    now = TIMES[ti] + dn
    got = web.decode_signed_value(secret_for(dictsec, si), name, s, clock=lambda: now)
    if ver == 1:
        reached("rt_v1")
    if ver == 2 and dictsec:
        reached("rt_v2_dict")
    if dn == MAXAGE:
        reached("rt_last_second")
    assert got == value, "round trip: decode returned %r for value %r" % (got, value)
    kv = web.get_signature_key_version(s)
    assert kv == (None if ver == 1 else (si if dictsec else 0)), "key version %r" % (kv,)


def pre_exp(ver: int, ti: int, dn: int, late: int, dictsec: bool) -> bool:
    return (1 <= ver <= 2 and 0 <= ti < len(TIMES) and 0 <= dn <= MAXAGE and 1 <= late
            and not (ver == 1 and dictsec) and in_shard(ver - 1))


@harness(pre=pre_exp, quick=dict(timeout=120, reach_timeout=60), thorough=dict(timeout=300), nshards=2,
         reach=["expired_none", "str_presentation"],
         units=["web.decode_signed_value", "web._decode_signed_value_v1", "web._decode_signed_value_v2"],
         stubs=STUBS + ["fixed name 'fo' and value 'a'; creation time from the pool; clock offsets symbolic ints: "
                        "dn in [0, max_age] decodes, max_age + late (late >= 1, unbounded) does not"],
         outside=OUTSIDE)
def h_expiry(ver: int, ti: int, dn: int, late: int, dictsec: bool):
    """Window edge: valid at every second of [t, t + max_age_days], None at any later second; the str
    presentation (cookie path) with min_version == version gives the same result."""
    s = issue(ver, "fo", b"a", ti, dictsec, 1)
    sec = secret_for(dictsec, 1)
    now = TIMES[ti] + dn
    assert web.decode_signed_value(sec, "fo", s, clock=lambda: now) == b"a"
    reached("str_presentation")
    assert web.decode_signed_value(sec, "fo", s.decode("latin1"), clock=lambda: now, min_version=ver) == b"a"
    after = TIMES[ti] + MAXAGE + late
    got = web.decode_signed_value(sec, "fo", s, clock=lambda: after)
    reached("expired_none")
    assert got is None, "expired value still decodes"


# ------------------------------------------------------------------------------------------ 2
def edit(s0, op, pos, b):
    n = len(s0)
    if op == 0:
        return s0
    if op == 1:
        p = pos % n
        return s0[:p] + bytes([b]) + s0[p + 1:]
    if op == 2:
        p = pos % (n + 1)
        return s0[:p] + bytes([b]) + s0[p:]
    if op == 3:
        p = pos % n
        return s0[:p] + s0[p + 1:]
    if op == 4:
        k = 1 + pos % 8
        return s0[k:]
    parts = s0.split(b"|")
    i = pos % len(parts)
    j = b % len(parts)
    parts[i], parts[j] = parts[j], parts[i]
    return b"|".join(parts)


def classify_forge(ver, ni, cp, value, ti, dictsec, si, op, pos, b, ni2, cp2, dnow, dictsec2, si2, minv):
    """Known-finding shape: v1 signs name||value||timestamp without delimiters, so an issued value
    with a deleted base64 prefix verifies under a name extended by that prefix (format frozen)."""
    if ver != 1:
        return None
    name, name2 = mkname(ni, cp), mkname(ni2, cp2)
    if name2 != name and name2.startswith(name) and op in (3, 4):
        return "v1-name-boundary-shift"
    if op == 5 and name2 == name:
        return "v1-value-timestamp-boundary-shift"
    return None


def pre_forge(ver: int, ni: int, cp: str, value: bytes, ti: int, dictsec: bool, si: int,
              op: int, pos: int, b: int, ni2: int, cp2: str, dnow: int, dictsec2: bool, si2: int,
              minv: int) -> bool:
    if not (1 <= ver <= 2 and 0 <= ni < P.NI and len(cp) <= P.C and len(value) <= P.V):
        return False
    if not (0 <= ti < len(TIMES) and ti % P.TSTEP == 0 and 0 <= si <= 1 and 0 <= si2 <= 1 and 0 <= op <= 5):
        return False
    if not (0 <= pos <= 64 and 0 <= b <= 255 and 0 <= ni2 < len(NAMES) and len(cp2) <= 1):
        return False
    if not (-2 * MAXAGE <= dnow <= 2 * MAXAGE and 1 <= minv <= 2):
        return False
    if ver == 1 and (dictsec or dictsec2):
        return False
    if classify_forge(ver, ni, cp, value, ti, dictsec, si, op, pos, b, ni2, cp2, dnow, dictsec2, si2,
                      minv) in P.exclude:
        return False
    return in_shard(op + 6 * (ver - 1) + 12 * ni)


@harness(pre=pre_forge, quick=dict(V=1, C=0, NI=1, TSTEP=3, timeout=45, reach_timeout=200),
         thorough=dict(V=3, C=1, NI=4, TSTEP=1, timeout=1400, reach_timeout=300),
         nshards=dict(quick=12, thorough=48),
         reach=["accepted_unmodified", "rejected_edit", "rejected_other_name", "rejected_expired",
                "rejected_min_version"],
         classify=classify_forge,
         units=["web.create_signed_value", "web.decode_signed_value", "web._get_version",
                "web._decode_signed_value_v1", "web._decode_signed_value_v2", "web._decode_fields_v2"],
         stubs=STUBS + ["attacker = one edit of an issued value: 0 none, 1 replace byte, 2 insert byte, 3 delete "
                        "byte (symbolic position/byte), 4 delete a prefix of 1..8 bytes, 5 swap two '|' fields; "
                        "presented under a symbolic name, secret form/index (= key version), time, min_version"],
         outside=OUTSIDE)
def h_forge(ver: int, ni: int, cp: str, value: bytes, ti: int, dictsec: bool, si: int,
            op: int, pos: int, b: int, ni2: int, cp2: str, dnow: int, dictsec2: bool, si2: int, minv: int):
    if P.reach == "rejected_min_version" and not (op == 0 and ver == 1 and minv == 2 and ni2 == ni and cp2 == cp):
        return      # reach-twin steering only
    if P.reach == "rejected_expired" and not (op == 0 and ni2 == ni and cp2 == cp and dnow > MAXAGE):
        return      # reach-twin steering only
    name, name2 = mkname(ni, cp), mkname(ni2, cp2)
    s0 = issue(ver, name, value, ti, dictsec, si)
    s = edit(s0, op, pos, b)
    now = TIMES[ti] + dnow
    try:
        got = web.decode_signed_value(secret_for(dictsec2, si2), name2, s, clock=lambda: now,
                                      min_version=minv)
    except Exception as e:
        raise AssertionError("decode_signed_value raised %r" % (e,))
    # reference: the reader's effective secret for the issued value
    if ver == 2 and dictsec2:
        eff = KEYDICT.get(si if dictsec else 0)
    else:
        eff = SECRETS[si2]
    issued_secret = SECRETS[si]
    legit = (s == s0 and name2 == name and eff == issued_secret and ver >= minv
             and 0 <= dnow <= MAXAGE)
    if legit:
        reached("accepted_unmodified")
        assert got == value, "legitimate value rejected/garbled: %r" % (got,)
        return
    if s != s0:
        reached("rejected_edit")
    elif name2 != name:
        reached("rejected_other_name")
    elif ver < minv:
        reached("rejected_min_version")
    elif dnow > MAXAGE:
        reached("rejected_expired")
    if got is not None:
        # not a legitimate presentation: statement demands None, except that a value presented
        # before its creation time (clock skew, dnow<0) is not covered by the statement
        if s == s0 and name2 == name and eff == issued_secret and ver >= minv and dnow < 0:
            return
        raise AssertionError(
            "FORGERY: %r (issued for name %r as %r) decodes to %r under name %r" % (s, name, s0, got, name2))


# ------------------------------------------------------------------------------------------ 3
ALPHA = [b"|", b":", b"0", b"2", b"-", b"a", b"=", b"\x80", b"\n", b"\x00", b"1", b"9", b" ", b"+"]   # quick: first NA=8
TPFX = [b"", b"2|", b"2|1:0|", b"2|1:0|1:1|0:|", b"2|1:0|1:1|0:|0:|", b"1|", b"|", b"YQ==|1|"]


def mkfree(flen, f0, f1, f2):
    return b"".join([ALPHA[i] for i in (f0, f1, f2)[:flen]])


def classify_total(pi, flen, f0, f1, f2, asstr, dictsec, ni, minv):
    if dictsec and minv == 1 and web._get_version(TPFX[pi] + mkfree(flen, f0, f1, f2)) == 1:
        return "dict-secret-v1-assert"
    return None


def pre_total(pi: int, flen: int, f0: int, f1: int, f2: int, asstr: bool, dictsec: bool, ni: int,
              minv: int) -> bool:
    if P.nshards > 1:
        # pinned per shard by equality (prefix index, free length)
        if pi != P.shard % len(TPFX) or flen != P.shard // len(TPFX):
            return False
    na = P.NA
    if not (0 <= pi < len(TPFX) and 0 <= flen <= P.L and 0 <= f0 < na and 0 <= f1 < na and 0 <= f2 < na):
        return False
    if (flen < 1 and f0 != 0) or (flen < 2 and f1 != 0) or (flen < 3 and f2 != 0):
        return False          # unused positions pinned
    # the name only matters after a signature matched, which a short input cannot achieve: TN names
    if not (0 <= ni < P.TN and 1 <= minv <= 2):
        return False
    if "dict-secret-v1-assert" in P.exclude and classify_total(pi, flen, f0, f1, f2, asstr, dictsec, ni, minv):
        return False
    return True


@harness(pre=pre_total, quick=dict(L=2, TN=1, NA=8, timeout=250, reach_timeout=120),
         thorough=dict(L=3, TN=4, NA=14, timeout=1400, reach_timeout=300),
         nshards=dict(quick=24, thorough=32),    # = len(TPFX) * (L+1)
         reach=["v2_fields_parsed", "v1_three_parts"],
         classify=classify_total,
         units=["web.decode_signed_value", "web._get_version", "web._decode_signed_value_v1",
                "web._decode_signed_value_v2", "web._decode_fields_v2", "web.get_signature_key_version"],
         stubs=STUBS + ["input = pooled prefix (empty, 2|, 2|1:0|, 2|1:0|1:1|0:|, 2|1:0|1:1|0:|0:|, '1|', '|', "
                        "'YQ==|1|') + up to L bytes, each chosen by symbolic index from the alphabet of format-relevant "
                        "bytes {| : 0 2 - a = 0x80; thorough also LF NUL 1 9 SP +} (bytes.split/partition realise symbolic bytes, so free "
                        "bytes would only be enumerated); also presented as latin-1 str"],
         outside=OUTSIDE + ["bytes outside the alphabet", "free part longer than L"])
def h_total(pi: int, flen: int, f0: int, f1: int, f2: int, asstr: bool, dictsec: bool, ni: int, minv: int):
    free = mkfree(flen, f0, f1, f2)
    s = TPFX[pi] + free
    v = s.decode("latin1") if asstr else s
    secret = KEYDICT if dictsec else "k1"
    try:
        got = web.decode_signed_value(secret, NAMES[ni], v, clock=lambda: 1600000000, min_version=minv)
        kv = web.get_signature_key_version(v)
    except Exception as e:
        raise AssertionError("reader raised %r on %r" % (e, s))
    if pi == 4 and flen == 0:
        assert kv == 0, "well-formed v2 field block must yield its key version"
        reached("v2_fields_parsed")
    if len(s.split(b"|")) == 3:
        reached("v1_three_parts")
    assert got is None, "short arbitrary string decoded to %r" % (got,)


# ------------------------------------------------------------------------------------------ 4
# v1 re-split attacker (lead's addition).  Under the perfect-MAC assumption the only strings whose v1
# signature verifies are those whose signed material name||value_b64||timestamp is byte-identical to
# issued material - so the whole attack surface of the undelimited v1 format is "the same concatenation,
# split at other places".  The split points (i, j) are solver variables; payload bytes are symbolic.
RS_NAMES = ["fo", "x"]
RS_T = [1600000000, 1, 12]
NAME_SHIFT = "v1-name-boundary-shift"
TS_SHIFT = "v1-value-timestamp-boundary-shift"


def _rs_shape(ni, value, ti, i, j):
    """Names the recorded known-finding shapes (v1 format is frozen upstream; v2 is immune):
    NAME_SHIFT - the name/value boundary is moved (value signed for 'fo' read under 'foYQ==');
    TS_SHIFT   - the value/timestamp boundary is moved AND the presented timestamp has no leading zero
                 (tornado only rejects leading zeros and far-future timestamps, which leaves creation
                 times within a few digits of the epoch exposed).
    A moved value/timestamp boundary whose timestamp DOES start with '0' is not a recorded shape."""
    name = RS_NAMES[ni]
    nb = len(name)
    if i != nb:
        return NAME_SHIFT
    import base64 as _b64
    v0 = _b64.b64encode(bytes(value))
    if j != nb + len(v0):
        concat = name.encode() + v0 + str(RS_T[ti]).encode()
        if concat[j:j + 1] != b"0":
            return TS_SHIFT
    return None


def classify_resplit(ni, value, ti, i, j, dnow):
    return _rs_shape(ni, value, ti, i, j)


def pre_resplit(ni: int, value: bytes, ti: int, i: int, j: int, dnow: int) -> bool:
    if not (0 <= ni < len(RS_NAMES) and len(value) <= P.RV and 0 <= ti < len(RS_T)):
        return False
    if not (0 <= i <= j <= 2 + 4 * ((P.RV + 2) // 3) + 10 and 0 <= dnow <= MAXAGE):
        return False
    return in_shard(i + 3 * ti)


@harness(pre=pre_resplit, quick=dict(RV=3, timeout=60, reach_timeout=120),
         thorough=dict(RV=6, timeout=1200, reach_timeout=300),
         nshards=dict(quick=12, thorough=24),
         reach=["original_split_accepted", "resplit_rejected", "zero_led_timestamp_rejected"],
         classify=classify_resplit,
         units=["web.create_signed_value (v1)", "web.decode_signed_value", "web._decode_signed_value_v1"],
         stubs=STUBS + ["attacker = any re-split (i, j) of the issued v1 material name||b64(value)||timestamp, "
                        "presented with the issued signature under the name concat[:i]; names {fo, x}; creation "
                        "times {1600000000, 1, 12}; payload = any bytes up to RV; reader's clock = creation "
                        "time + any 0..31 days"],
         outside=OUTSIDE + ["payloads longer than RV bytes"])
def h_v1_resplit(ni: int, value: bytes, ti: int, i: int, j: int, dnow: int):
    name, t0 = RS_NAMES[ni], RS_T[ti]
    s0 = web.create_signed_value("k1", name, value, version=1, clock=lambda: t0)
    v0, ts0, sig0 = s0.split(b"|")
    concat = utf8(name) + v0 + ts0
    if j > len(concat):
        return
    name2 = concat[:i].decode("latin1")
    v2, t2 = concat[i:j], concat[j:]
    now = t0 + dnow
    try:
        got = web.decode_signed_value("k1", name2, v2 + b"|" + t2 + b"|" + sig0, clock=lambda: now,
                                      min_version=1)
    except Exception as e:
        raise AssertionError("decode_signed_value raised %r" % (e,))
    if i == len(name) and j == i + len(v0):
        reached("original_split_accepted")
        assert got == value, "issued value not returned: %r" % (got,)
        return
    reached("resplit_rejected")
    if t2[:1] == b"0" and i == len(name):
        reached("zero_led_timestamp_rejected")
    if got is not None:
        shape = _rs_shape(ni, value, ti, i, j)
        if shape is not None and shape in P.exclude:
            return      # recorded known finding (known_findings.json); every other re-split must fail
        raise AssertionError("FORGERY by re-splitting the signed material: issued %r for name %r, presented "
                             "%r under name %r decodes to %r" % (s0, name, v2 + b"|" + t2, name2, got))


import base64 as _b64mod

# payloads whose base64 text ends in characters that can also be read as a decimal timestamp prefix
# (all-zero, zero-led, non-zero digits, mixed) - chosen by symbolic index: base64 of free symbolic bytes
# followed by int() costs ~100 solver queries per path, so the digit structure is pooled instead
TAIL_B64 = ["0000", "0001", "1234", "9000", "a000", "00a0", "abcd", "12340000", "00001234", "ab120000"]
TAIL_POOL = [_b64mod.b64decode(x) for x in TAIL_B64]


def pre_tail(vi: int, ti: int, k4: int, dnow: int) -> bool:
    return (0 <= vi < len(TAIL_POOL) and 0 <= ti < len(RS_T) and 1 <= k4 <= 2 and 0 <= dnow <= MAXAGE
            and in_shard(ti))


def classify_tail(vi, ti, k4, dnow):
    v0 = TAIL_B64[vi]
    return TS_SHIFT if v0[max(len(v0) - 4 * k4, 0):][:1] != "0" else None


@harness(pre=pre_tail, quick=dict(timeout=120, reach_timeout=60),
         thorough=dict(timeout=600, reach_timeout=120),
         nshards=dict(quick=3, thorough=3),
         reach=["tail_moved_rejected"],
         classify=classify_tail,
         units=["web.create_signed_value (v1)", "web.decode_signed_value", "web._decode_signed_value_v1"],
         stubs=STUBS + ["attacker moves the last 4*k4 base64 characters of the payload in front of the timestamp "
                        "(the v1 signature is unchanged by that); payload from a pool whose base64 tails are "
                        "zero-led / all-zero / non-zero digits / mixed; creation times {1600000000, 1, 12}; "
                        "reader's clock = creation time + any 0..31 days (solver variable)"],
         outside=OUTSIDE + ["payloads outside the pool (h_v1_resplit searches free payloads, bounded)"])
def h_v1_tail_shift(vi: int, ti: int, k4: int, dnow: int):
    """The value/timestamp boundary of a v1 value is moved left by 4*k4 characters: must be rejected
    (tornado's defences: leading-zero check + far-future check)."""
    name, t0, value = "fo", RS_T[ti], TAIL_POOL[vi]
    s0 = web.create_signed_value("k1", name, value, version=1, clock=lambda: t0)
    v0, ts0, sig0 = s0.split(b"|")
    if 4 * k4 > len(v0):
        return
    cut = len(v0) - 4 * k4
    v2, t2 = v0[:cut], v0[cut:] + ts0
    now = t0 + dnow
    try:
        got = web.decode_signed_value("k1", name, v2 + b"|" + t2 + b"|" + sig0, clock=lambda: now, min_version=1)
    except Exception as e:
        raise AssertionError("decode_signed_value raised %r" % (e,))
    if got is None:
        reached("tail_moved_rejected")
        return
    if t2[:1] != b"0" and TS_SHIFT in P.exclude:
        return          # recorded known finding (creation times within a few digits of the epoch)
    raise AssertionError("FORGERY: payload tail moved into the timestamp: issued %r, presented %r decodes to %r"
                         % (s0, v2 + b"|" + t2, got))
