"""C23 - Signed values cannot be forged, replayed across names or crash the reader.

Real code driven: tornado.web.create_signed_value / decode_signed_value / _get_version /
_decode_signed_value_v1 / _decode_signed_value_v2 / _decode_fields_v2 / get_signature_key_version
(base64 real).  HMAC is replaced by an INJECTIVE pure-Python stand-in ("perfect MAC" assumption):
  _create_signature_v1(secret, *parts) = b"S1" + secret + b"." + esc(concat(parts))   (concatenation,
        exactly like hmac.update; esc maps '|' and '~' injectively to '~p'/'~t' so that the
        signature, like real hex, never contains the field separator)
  _create_signature_v2(secret, s)      = b"S2" + secret + b"." + s
hmac.compare_digest -> ==.   Then: a presented string verifies  <=>  its signed material is
byte-identical to material the key holder signed, so forgery <=> the material parses two ways.
The attacker is modelled by EDITS of an issued value (single-byte replace/insert/delete at a symbolic
position, prefix deletion, field swap) presented under a symbolic name/secret/key version/time.
"""
from typing import List, Tuple

from vp.api import P, harness, in_shard, reached

from tornado import web
from tornado.escape import utf8

from harness import _sec_rig as _rig  # noqa: F401  (fixed clock for tornado.web.time)


def _esc(m):
    return m.replace(b"~", b"~t").replace(b"|", b"~p")


def _sig1(secret, *parts):
    return b"S1" + utf8(secret) + b"." + _esc(b"".join([utf8(p) for p in parts]))


def _sig2(secret, s):
    return b"S2" + utf8(secret) + b"." + utf8(s)


class _Hmac:
    @staticmethod
    def compare_digest(a, b):
        return a == b

    @staticmethod
    def new(*a, **k):
        raise AssertionError("real hmac must not be reached (signatures are stubbed)")


web._create_signature_v1 = _sig1
web._create_signature_v2 = _sig2
web.hmac = _Hmac

STUBS = ["HMAC-SHA1/SHA256 replaced by an injective pure-Python stand-in (perfect-MAC assumption): "
         "web._create_signature_v1/_v2 patched, web.hmac.compare_digest -> ==",
         "clock passed through the documented `clock` parameter (symbolic int seconds)",
         "secrets from the pool {k1,k2} / key dict {0:k1, 1:k2}; names = pool {foo, fo, x, ''} + one free "
         "code point; creation time from the pool {1, 9, 10, 1600000000} (str(int) realises)",
         "gen_log warnings disabled (their '%r' formatting realises symbolic values)"]
OUTSIDE = ["real SHA-1/SHA-256 collision resistance", "values longer than V bytes", "more than one edit"]

import logging
logging.getLogger("tornado.general").disabled = True

NAMES = ["fo", "x", "", "foYQ=="]
TIMES = [1, 9, 10, 1600000000]
SECRETS = ["k1", "k2"]
KEYDICT = {0: "k1", 1: "k2"}
MAXAGE = 31 * 86400


def mkname(ni, cp):
    return NAMES[ni] + cp


def secret_for(dictsec, si):
    return KEYDICT if dictsec else SECRETS[si]


def issue(ver, name, value, ti, dictsec, si):
    t0 = TIMES[ti]
    if ver == 1:
        return web.create_signed_value(SECRETS[si], name, value, version=1, clock=lambda: t0)
    if dictsec:
        return web.create_signed_value(KEYDICT, name, value, version=2, clock=lambda: t0, key_version=si)
    return web.create_signed_value(SECRETS[si], name, value, version=2, clock=lambda: t0)


# ------------------------------------------------------------------------------------------ 1
def classify_rt(ver, ni, cp, value, ti, dn, dictsec, si):
    if ver == 2 and len(cp) == 1 and ord(cp) > 127:
        return "v2-nonascii-name-length"
    if ver == 2 and cp == "\n":
        return "v2-newline-in-name"
    return None


def pre_rt(ver: int, ni: int, cp: str, value: bytes, ti: int, dn: int, dictsec: bool, si: int) -> bool:
    if "v2-nonascii-name-length" in P.exclude and ver == 2 and len(cp) == 1 and ord(cp) > 127:
        return False
    if "v2-newline-in-name" in P.exclude and ver == 2 and cp == "\n":
        return False
    if not (1 <= ver <= 2 and 0 <= ni < len(NAMES) and len(cp) <= 1 and len(value) <= P.V):
        return False
    if not (0 <= ti < len(TIMES) and 0 <= dn <= MAXAGE and 0 <= si <= 1):
        return False
    if ver == 1 and dictsec:
        return False
    return in_shard(ti + 4 * (ver - 1) + 8 * len(value) + 8 * (P.V + 1) * len(cp))


@harness(pre=pre_rt, quick=dict(V=1, timeout=90, reach_timeout=60), thorough=dict(V=4, timeout=900),
         nshards=dict(quick=32, thorough=80), reach=["rt_v1", "rt_v2_dict", "rt_last_second"],
         classify=classify_rt,
         units=["web.create_signed_value", "web.decode_signed_value", "web._get_version",
                "web._decode_signed_value_v1", "web._decode_signed_value_v2", "web._decode_fields_v2",
                "web.get_signature_key_version"],
         stubs=STUBS, outside=OUTSIDE)
def h_roundtrip(ver: int, ni: int, cp: str, value: bytes, ti: int, dn: int, dictsec: bool, si: int):
    name = mkname(ni, cp)
    s = issue(ver, name, value, ti, dictsec, si)
    now = TIMES[ti] + dn
    got = web.decode_signed_value(secret_for(dictsec, si), name, s, clock=lambda: now)
    if ver == 1:
        reached("rt_v1")
    if ver == 2 and dictsec:
        reached("rt_v2_dict")
    if dn == MAXAGE:
        reached("rt_last_second")
    assert got == value, "round trip: decode returned %r for value %r" % (got, value)
    # also as str, and with min_version == version
    if cp == "":     # ASCII signed value: also presented as str (the cookie path)
        got2 = web.decode_signed_value(secret_for(dictsec, si), name, s.decode("latin1"),
                                       clock=lambda: now, min_version=ver)
        assert got2 == value
    kv = web.get_signature_key_version(s)
    assert kv == (None if ver == 1 else (si if dictsec else 0)), "key version %r" % (kv,)


# ------------------------------------------------------------------------------------------ 2
def edit(s0, op, pos, b):
    n = len(s0)
    if op == 0:
        return s0
    if op == 1:
        p = pos % n
        return s0[:p] + bytes([b]) + s0[p + 1:]
    if op == 2:
        p = pos % (n + 1)
        return s0[:p] + bytes([b]) + s0[p:]
    if op == 3:
        p = pos % n
        return s0[:p] + s0[p + 1:]
    if op == 4:
        k = 1 + pos % 8
        return s0[k:]
    parts = s0.split(b"|")
    i = pos % len(parts)
    j = b % len(parts)
    parts[i], parts[j] = parts[j], parts[i]
    return b"|".join(parts)


def classify_forge(ver, ni, cp, value, ti, dictsec, si, op, pos, b, ni2, cp2, dnow, dictsec2, si2, minv):
    """Known-finding shape: v1 signs name||value||timestamp without delimiters, so an issued value
    with a deleted base64 prefix verifies under a name extended by that prefix (format frozen)."""
    if ver != 1:
        return None
    name, name2 = mkname(ni, cp), mkname(ni2, cp2)
    if name2 != name and name2.startswith(name) and op in (3, 4):
        return "v1-name-boundary-shift"
    if op == 5 and name2 == name:
        return "v1-value-timestamp-boundary-shift"
    return None


def pre_forge(ver: int, ni: int, cp: str, value: bytes, ti: int, dictsec: bool, si: int,
              op: int, pos: int, b: int, ni2: int, cp2: str, dnow: int, dictsec2: bool, si2: int,
              minv: int) -> bool:
    if not (1 <= ver <= 2 and 0 <= ni < P.NI and len(cp) <= P.C and len(value) <= P.V):
        return False
    if not (0 <= ti < len(TIMES) and ti % P.TSTEP == 0 and 0 <= si <= 1 and 0 <= si2 <= 1 and 0 <= op <= 5):
        return False
    if not (0 <= pos <= 64 and 0 <= b <= 255 and 0 <= ni2 < len(NAMES) and len(cp2) <= 1):
        return False
    if not (-2 * MAXAGE <= dnow <= 2 * MAXAGE and 1 <= minv <= 2):
        return False
    if ver == 1 and (dictsec or dictsec2):
        return False
    if classify_forge(ver, ni, cp, value, ti, dictsec, si, op, pos, b, ni2, cp2, dnow, dictsec2, si2,
                      minv) in P.exclude:
        return False
    return in_shard(op + 6 * (ver - 1) + 12 * ni)


@harness(pre=pre_forge, quick=dict(V=1, C=0, NI=1, TSTEP=3, timeout=70, reach_timeout=120),
         thorough=dict(V=3, C=1, NI=4, TSTEP=1, timeout=1400, reach_timeout=300),
         nshards=dict(quick=12, thorough=48),
         reach=["accepted_unmodified", "rejected_edit", "rejected_other_name", "rejected_expired",
                "rejected_min_version"],
         classify=classify_forge,
         units=["web.create_signed_value", "web.decode_signed_value", "web._get_version",
                "web._decode_signed_value_v1", "web._decode_signed_value_v2", "web._decode_fields_v2"],
         stubs=STUBS + ["attacker = one edit of an issued value: 0 none, 1 replace byte, 2 insert byte, 3 delete "
                        "byte (symbolic position/byte), 4 delete a prefix of 1..8 bytes, 5 swap two '|' fields; "
                        "presented under a symbolic name, secret form/index (= key version), time, min_version"],
         outside=OUTSIDE)
def h_forge(ver: int, ni: int, cp: str, value: bytes, ti: int, dictsec: bool, si: int,
            op: int, pos: int, b: int, ni2: int, cp2: str, dnow: int, dictsec2: bool, si2: int, minv: int):
    name, name2 = mkname(ni, cp), mkname(ni2, cp2)
    s0 = issue(ver, name, value, ti, dictsec, si)
    s = edit(s0, op, pos, b)
    now = TIMES[ti] + dnow
    try:
        got = web.decode_signed_value(secret_for(dictsec2, si2), name2, s, clock=lambda: now,
                                      min_version=minv)
    except Exception as e:
        raise AssertionError("decode_signed_value raised %r" % (e,))
    # reference: the reader's effective secret for the issued value
    if ver == 2 and dictsec2:
        eff = KEYDICT.get(si if dictsec else 0)
    else:
        eff = SECRETS[si2]
    issued_secret = SECRETS[si]
    legit = (s == s0 and name2 == name and eff == issued_secret and ver >= minv
             and 0 <= dnow <= MAXAGE)
    if legit:
        reached("accepted_unmodified")
        assert got == value, "legitimate value rejected/garbled: %r" % (got,)
        return
    if s != s0:
        reached("rejected_edit")
    elif name2 != name:
        reached("rejected_other_name")
    elif ver < minv:
        reached("rejected_min_version")
    elif dnow > MAXAGE:
        reached("rejected_expired")
    if got is not None:
        # not a legitimate presentation: statement demands None, except that a value presented
        # before its creation time (clock skew, dnow<0) is not covered by the statement
        if s == s0 and name2 == name and eff == issued_secret and ver >= minv and dnow < 0:
            return
        raise AssertionError(
            "FORGERY: %r (issued for name %r as %r) decodes to %r under name %r" % (s, name, s0, got, name2))


# ------------------------------------------------------------------------------------------ 3
def classify_total(pi, free, asstr, dictsec, ni, minv):
    if dictsec and minv == 1 and web._get_version(TPFX[pi] + bytes(free)) == 1:
        return "dict-secret-v1-assert"
    return None


TPFX = [b"", b"2|", b"2|1:0|", b"2|1:0|1:1|0:|", b"2|1:0|1:1|0:|0:|", b"1|", b"|", b"YQ==|1|"]


def pre_total(pi: int, free: bytes, asstr: bool, dictsec: bool, ni: int, minv: int) -> bool:
    if not (0 <= pi < len(TPFX) and len(free) <= P.L and 0 <= ni < len(NAMES) and 1 <= minv <= 2):
        return False
    if "dict-secret-v1-assert" in P.exclude and dictsec and minv == 1 and web._get_version(TPFX[pi] + free) == 1:
        return False
    return in_shard(pi + len(TPFX) * len(free))


@harness(pre=pre_total, quick=dict(L=2, timeout=70, reach_timeout=200), thorough=dict(L=5, timeout=1200, reach_timeout=300),
         nshards=dict(quick=24, thorough=48), reach=["v2_fields_parsed", "v1_three_parts"],
         classify=classify_total,
         units=["web.decode_signed_value", "web._get_version", "web._decode_signed_value_v1",
                "web._decode_signed_value_v2", "web._decode_fields_v2", "web.get_signature_key_version"],
         stubs=STUBS + ["input = pooled prefix (empty, 2|, 2|1:0|, 2|1:0|1:1|0:|, 2|1:0|1:1|0:|0:|, '1|', '|', "
                        "'YQ==|1|') + any free bytes up to L (also presented as latin-1 str)"],
         outside=OUTSIDE + ["free part longer than L"])
def h_total(pi: int, free: bytes, asstr: bool, dictsec: bool, ni: int, minv: int):
    s = TPFX[pi] + free
    v = s.decode("latin1") if asstr else s
    secret = KEYDICT if dictsec else "k1"
    try:
        got = web.decode_signed_value(secret, NAMES[ni], v, clock=lambda: 1600000000, min_version=minv)
        kv = web.get_signature_key_version(v)
    except Exception as e:
        raise AssertionError("reader raised %r on %r" % (e, s))
    if pi == 4 and len(free) == 0:
        assert kv == 0, "well-formed v2 field block must yield its key version"
        reached("v2_fields_parsed")
    if len(s.split(b"|")) == 3:
        reached("v1_three_parts")
    assert got is None, "short arbitrary string decoded to %r" % (got,)
