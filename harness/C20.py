"""C20 - Template autoescaping never emits unescaped data.

Real code driven: template.Template / DictLoader / _parse (autoescape directive) / _Expression.generate /
_CodeWriter.include / _NamedBlock / _IncludeBlock / _ApplyBlock and the exec'd generated code, with
escape.xhtml_escape / utf8 / to_unicode.  Template texts are concrete (a pool crossing every way of
setting autoescape with plain / included / extended / applied tags); the VALUE is symbolic (str, the
UTF-8 bytes of it, or an object whose __str__ returns it) and flows through the generated code.
Oracle (from the statement): a tag written in a file whose autoescape function is F emits F(value);
with the default / xhtml_escape that is the HTML-escaped text (no < > quote apostrophe, & only as an
entity); only {% raw %} and an explicit None emit the value verbatim; the setting of one file never
changes the output of a tag written in another file.
"""
from typing import List, Tuple

from vp.api import P, harness, in_shard, reached

from tornado import escape
from tornado import template as T

from harness._text_tmpl import ref_escape, PRINT_STUB

TECHNIQUE = "CrossHair symbolic execution of generated template code on symbolic values"

_DEF = "__default__"


def _myesc(b):
    # a second escaping function, distinguishable from xhtml_escape, to see WHICH file's setting applied
    return "\xab" + escape.xhtml_escape(b) + "\xbb"


def _wrap(b):
    return b"[" + b + b"]"


_ESC = {}      # per-call cache: the reference escaping of the value is computed once per path


def E(v):
    if _ESC.get("v") is not v:
        _ESC["v"] = v
        _ESC["e"] = ref_escape(v)
    return _ESC["e"]


def M(v):
    return "\xab" + E(v) + "\xbb"


def R(v):
    return v


# (loader autoescape, direct Template(autoescape=) or _DEF, files (first = main), expected(v) , has_raw)
SC = [
    (_DEF, _DEF, {"m": "{{ v }}"}, lambda v: E(v)),
    (_DEF, _DEF, {"m": "a{% raw v %}b{{ v }}"}, lambda v: "a" + R(v) + "b" + E(v)),
    (None, _DEF, {"m": "{{ v }}"}, lambda v: R(v)),
    ("myesc", _DEF, {"m": "{{ v }}|{% raw v %}"}, lambda v: M(v) + "|" + R(v)),
    (_DEF, None, {"m": "{{ v }}"}, lambda v: R(v)),
    (_DEF, "myesc", {"m": "{{ v }}"}, lambda v: M(v)),
    (_DEF, _DEF, {"m": "{% autoescape myesc %}{{ v }}"}, lambda v: M(v)),
    (_DEF, _DEF, {"m": "{{ v }}{% autoescape None %}{{ v }}"}, lambda v: R(v) + R(v)),
    (_DEF, _DEF, {"m": "{% autoescape None %}{{ v }}{% include 'b' %}", "b": "{{ v }}"},
     lambda v: R(v) + E(v)),
    (_DEF, _DEF, {"m": "{{ v }}{% include 'b' %}{{ v }}", "b": "{% autoescape None %}{{ v }}"},
     lambda v: E(v) + R(v) + E(v)),
    (_DEF, _DEF, {"m": "{% extends 'base' %}{% block t %}[{{ v }}]{% end %}",
                  "base": "{% autoescape None %}<{% block t %}{{ v }}{% end %}>"},
     lambda v: "<[" + E(v) + "]>"),
    (_DEF, _DEF, {"m": "{% autoescape None %}{% extends 'base' %}{% block t %}[{{ v }}]{% end %}",
                  "base": "<{% block t %}{{ v }}{% end %}|{{ v }}>"},
     lambda v: "<[" + R(v) + "]|" + E(v) + ">"),
    (_DEF, _DEF, {"m": "{% extends 'base' %}",
                  "base": "{% autoescape myesc %}{% block t %}{{ v }}{% end %}"},
     lambda v: M(v)),
    (_DEF, _DEF, {"m": "{% apply wrap %}{{ v }}{% end %}"}, lambda v: "[" + E(v) + "]"),
    (_DEF, _DEF, {"m": "{% autoescape None %}{% apply wrap %}{{ v }}{% raw v %}{% end %}"},
     lambda v: "[" + R(v) + R(v) + "]"),
    (_DEF, _DEF, {"m": "{% apply wrap %}{% include 'b' %}{{ v }}{% end %}",
                  "b": "{% autoescape myesc %}{{ v }}"},
     lambda v: "[" + M(v) + E(v) + "]"),
    (None, _DEF, {"m": "{{ v }}{% include 'b' %}",
                  "b": "{% autoescape xhtml_escape %}{{ v }}{% raw v %}"},
     lambda v: R(v) + E(v) + R(v)),
    (_DEF, _DEF, {"m": "{% if 1 %}{{ v }}{% end %}{% for i in range(2) %}{{ v }}{% end %}"},
     lambda v: E(v) + E(v) + E(v)),
    (_DEF, _DEF, {"m": "{% extends 'base' %}", "base": "{% block t %}{% include 'inc' %}{{ v }}{% end %}",
                  "inc": "{% autoescape None %}{{ v }}"},
     lambda v: R(v) + E(v)),
    ("myesc", _DEF, {"m": "{% autoescape xhtml_escape %}{{ v }}{% include 'b' %}", "b": "{{ v }}"},
     lambda v: E(v) + M(v)),
    (_DEF, _DEF, {"m": "{% extends 'base' %}{% block t %}{% apply wrap %}{{ v }}{% end %}{% end %}",
                  "base": "{% autoescape None %}{% block t %}{% end %}{% include 'm2' %}",
                  "m2": "{% autoescape escape %}{{ v }}"},
     lambda v: "[" + E(v) + "]" + E(v)),
    # ---- nested includes / blocks of depth >= 2: expression tags BEFORE and AFTER each include at every
    # level; the intermediate files have a different setting than the files around them
    (_DEF, _DEF, {"page.html": "{{ v }}{% include 'outer.html' %}{{ v }}",
                  "outer.html": "{% autoescape None %}{{ v }}{% include 'inner.html' %}{{ v }}",
                  "inner.html": "{{ v }}"},
     lambda v: E(v) + R(v) + E(v) + R(v) + E(v)),
    (_DEF, _DEF, {"p": "{{ v }}{% include 'a' %}{{ v }}",
                  "a": "{% autoescape myesc %}{{ v }}{% include 'b' %}{{ v }}",
                  "b": "{% autoescape None %}{{ v }}{% include 'c' %}{{ v }}",
                  "c": "{{ v }}"},
     lambda v: E(v) + M(v) + R(v) + E(v) + R(v) + M(v) + E(v)),
    (_DEF, _DEF, {"p": "{{ v }}{% block t %}{{ v }}{% include 'o' %}{{ v }}{% end %}{{ v }}",
                  "o": "{% autoescape None %}{{ v }}{% include 'i' %}{{ v }}", "i": "{{ v }}"},
     lambda v: E(v) + E(v) + R(v) + E(v) + R(v) + E(v) + E(v)),
    (_DEF, _DEF, {"m": "{% extends 'base' %}{% block t %}{{ v }}{% include 'inner' %}{{ v }}{% end %}",
                  "base": "{% autoescape None %}{{ v }}{% block t %}{% end %}{{ v }}",
                  "inner": "{% autoescape myesc %}{{ v }}{% include 'leaf' %}{{ v }}",
                  "leaf": "{% autoescape None %}{{ v }}"},
     lambda v: R(v) + E(v) + M(v) + R(v) + M(v) + E(v) + R(v)),
    (_DEF, _DEF, {"p": "{% apply wrap %}{{ v }}{% include 'o' %}{{ v }}{% end %}{{ v }}",
                  "o": "{% autoescape None %}{{ v }}{% include 'i' %}{{ v }}", "i": "{{ v }}"},
     lambda v: "[" + E(v) + R(v) + E(v) + R(v) + E(v) + "]" + E(v)),
    (_DEF, _DEF, {"p": "{% include 'n' %}{{ v }}{% include 'n' %}{{ v }}{% include 'w' %}{{ v }}",
                  "n": "{% autoescape None %}{{ v }}", "w": "{% include 'n' %}{{ v }}"},
     lambda v: R(v) + E(v) + R(v) + E(v) + R(v) + E(v) + E(v)),
    (None, _DEF, {"p": "{{ v }}{% include 'a' %}{{ v }}",
                  "a": "{% autoescape xhtml_escape %}{{ v }}{% block k %}{{ v }}{% include 'b' %}{{ v }}{% end %}{{ v }}",
                  "b": "{{ v }}{% include 'c' %}{{ v }}", "c": "{% autoescape myesc %}{{ v }}"},
     lambda v: R(v) + E(v) + E(v) + R(v) + M(v) + R(v) + E(v) + E(v) + R(v)),
    (_DEF, _DEF, {"m": "{% extends 'mid' %}{% block t %}{{ v }}{% include 'n' %}{{ v }}{% end %}",
                  "mid": "{% autoescape None %}{% extends 'base' %}{% block u %}{{ v }}{% include 'e' %}{{ v }}{% end %}",
                  "base": "{% autoescape myesc %}{{ v }}{% block t %}{% end %}{{ v }}{% block u %}{% end %}{{ v }}",
                  "n": "{% autoescape None %}{{ v }}", "e": "{{ v }}"},
     lambda v: M(v) + E(v) + R(v) + E(v) + M(v) + R(v) + E(v) + R(v) + M(v)),
]
# scenarios whose every tag is escaping (no raw / None anywhere reachable): the output must be free of
# raw markup characters altogether
ALL_ESCAPED = (0, 13, 17)


class _Obj:
    def __init__(self, s):
        self.s = s

    def __str__(self):
        return self.s


def pre_auto(sc: int, kind: int, s: str) -> bool:
    if not (0 <= sc < len(SC) and 0 <= kind <= 2 and len(s) <= P.L):
        return False
    for c in s:
        if 0xD800 <= ord(c) <= 0xDFFF:
            return False
    return in_shard(sc)


@harness(pre=pre_auto, quick=dict(L=1, timeout=120, reach_timeout=90), thorough=dict(L=2, timeout=900, reach_timeout=90),
         nshards=dict(quick=len(SC), thorough=len(SC)),
         reach=["markup_value_escaped", "bytes_value", "object_value", "include_scoped", "extends_scoped",
                "include_depth2_page_tag_after", "include_depth3", "extends_chain_with_includes"],
         units=["template._Expression.generate", "template._CodeWriter.include", "template._NamedBlock.generate",
                "template._IncludeBlock.generate", "template._ApplyBlock.generate", "template._parse (autoescape)",
                "template.Template.__init__", "template.Template.generate", "template.DictLoader",
                "escape.xhtml_escape", "escape.utf8", "escape.to_unicode", "generated code (exec'd, traced)"],
         stubs=[PRINT_STUB,
                "template texts concrete: %d scenarios crossing {default, loader-level, Template(autoescape=), "
                "{%% autoescape f %%}, {%% autoescape None %%}} x {plain, included, extended + block override, "
                "inside apply, inside control blocks, nested includes/blocks of depth 2 and 3 with tags before and "
                "after every include} x {{{ }}, {%% raw %%}}" % len(SC),
                "value symbolic: str <= L cp without lone surrogates, given as str / UTF-8 bytes / object "
                "whose __str__ returns it",
                "second escaping function myesc(v) = '\\xab' + xhtml_escape(v) + '\\xbb' in the namespace"],
         outside=["symbolic template text", "{% module %} output (documented as unescaped)",
                  "values longer than L", "invalid UTF-8 bytes values (raise UnicodeDecodeError)"])
def h_auto(sc: int, kind: int, s: str):
    """every expression tag emits exactly F(value) for the autoescape F of the file it is written in."""
    lauto, tauto, files, want_fn = SC[sc]
    hit_markup = s == "<"                 # decided before the real call so that the twin finds them
    hit_bytes = kind == 1 and len(s) > 0
    hit_obj = kind == 2 and len(s) > 0
    v = s if kind == 0 else s.encode("utf-8") if kind == 1 else _Obj(s)
    main = list(files)[0]
    ns = {"wrap": _wrap, "myesc": _myesc}
    if tauto is not _DEF:
        t = T.Template(files[main], name=main, autoescape=tauto)
        out = t.generate(v=v, **ns)
    else:
        if lauto is _DEF:
            loader = T.DictLoader(files, namespace=ns)
        else:
            loader = T.DictLoader(files, namespace=ns, autoescape=lauto)
        out = loader.load(main).generate(v=v)
    want = want_fn(s).encode("utf-8")
    if hit_markup and b"&lt;" in out:
        reached("markup_value_escaped")
    if hit_bytes:
        reached("bytes_value")
    if hit_obj:
        reached("object_value")
    if sc == 8:
        reached("include_scoped")
    if sc == 10:
        reached("extends_scoped")
    if sc == 21:
        reached("include_depth2_page_tag_after")
    if sc == 22:
        reached("include_depth3")
    if sc == 28:
        reached("extends_chain_with_includes")
    assert out == want, "scenario %d %r kind %d: generated %r, statement demands %r" % (
        sc, files, kind, out, want)
    if sc in ALL_ESCAPED:
        text = out.decode("utf-8")
        if sc == 13:
            text = text[1:-1]
        for ch in "<>\"'":
            assert ch not in text, "raw %r from the value in escaped output %r" % (ch, out)
        assert "&" not in (text.replace("&amp;", "").replace("&lt;", "").replace("&gt;", "")
                           .replace("&quot;", "").replace("&#x27;", ""))


# ------------------------------------------------------------------ precedence of autoescape sources
# Template(text, loader=L, autoescape=X) with L built with its own setting, optionally a directive in the
# text.  The effective function for tags written in that text is derived from the documented precedence:
# {% autoescape %} directive  >  explicit Template(autoescape=) argument  >  loader default  >  module
# default (xhtml_escape).  An included file is loaded through the loader and so gets the LOADER default,
# whatever the including Template was given.
_SRC = [_DEF, None, "xhtml_escape", "myesc"]        # _DEF = not given


def _fn(name):
    return R if name is None else M if name == "myesc" else E


def _effective(la, ta, di):
    loader_default = "xhtml_escape" if la is _DEF else la
    if di is not _DEF:
        return di
    if ta is not _DEF:
        return ta
    return loader_default


def pre_prec(la: int, ta: int, di: int, kind: int, s: str) -> bool:
    if not (0 <= la <= 3 and 0 <= ta <= 3 and 0 <= di <= 3 and 0 <= kind < P.K and len(s) <= P.L):
        return False
    for c in s:
        if 0xD800 <= ord(c) <= 0xDFFF:
            return False
    return in_shard(la * 4 + ta)


@harness(pre=pre_prec, quick=dict(L=1, K=2, timeout=100, reach_timeout=100), thorough=dict(L=2, K=3, timeout=900),
         nshards=dict(quick=16, thorough=16),
         reach=["explicit_beats_loader_none", "explicit_none_beats_loader", "directive_beats_both",
                "omitted_takes_loader_default"],
         units=["template.Template.__init__ (autoescape / loader precedence)", "template._parse (autoescape)",
                "template._Expression.generate", "template.DictLoader", "template._IncludeBlock.generate"],
         stubs=[PRINT_STUB,
                "loader setting la, Template argument ta and directive di each chosen by symbolic index from "
                "{not given, None, 'xhtml_escape', 'myesc'} (all 64 combinations); text = [directive] + "
                "'{{ v }}|{% raw v %}|{% include \"b\" %}' with b = '{{ v }}' loaded through the loader; value "
                "symbolic as in h_auto"],
         outside=["values longer than L"])
def h_prec(la: int, ta: int, di: int, kind: int, s: str):
    """directive > explicit Template(autoescape=) > loader default > module default; an included file
    takes the loader default."""
    lv, tv, dv = _SRC[la], _SRC[ta], _SRC[di]
    v = s if kind == 0 else _Obj(s) if kind == 1 else s.encode("utf-8")
    text = "{{ v }}|{% raw v %}|{% include 'b' %}"
    if dv is not _DEF:
        text = "{% autoescape " + ("None" if dv is None else dv) + " %}" + text
    files = {"b": "{{ v }}"}
    ns = {"wrap": _wrap, "myesc": _myesc}
    loader = T.DictLoader(files, namespace=ns) if lv is _DEF else T.DictLoader(files, namespace=ns, autoescape=lv)
    if tv is _DEF:
        t = T.Template(text, name="m", loader=loader)
    else:
        t = T.Template(text, name="m", loader=loader, autoescape=tv)
    out = t.generate(v=v)
    eff = _effective(lv, tv, dv)
    inc = "xhtml_escape" if lv is _DEF else lv
    want = (_fn(eff)(s) + "|" + s + "|" + _fn(inc)(s)).encode("utf-8")
    assert out == want, "loader=%r Template(autoescape=%r) directive=%r: generated %r, precedence demands %r" % (
        lv, tv, dv, out, want)
    if la == 1 and ta == 2 and di == 0:
        reached("explicit_beats_loader_none")
    if la == 2 and ta == 1 and di == 0:
        reached("explicit_none_beats_loader")
    if di != 0 and ta != 0 and ta != di:
        reached("directive_beats_both")
    if ta == 0 and di == 0 and la != 0:
        reached("omitted_takes_loader_default")
