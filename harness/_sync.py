"""Helpers shared by the sync-agent harnesses (C34, C35, C36, C41, C42).

vinstall()  = vp.env.install() plus one local work-around: VEnv._call only catches `Exception`, but
              a real asyncio loop (Handle._run) also routes BaseException subclasses other than
              SystemExit/KeyboardInterrupt - in particular asyncio.CancelledError - to
              call_exception_handler and keeps running.  The wrapper catches CancelledError *by
              name* (never a bare except: CrossHair steers with BaseException subclasses) and
              records it in env.v.exc_contexts exactly like any other escaped exception.
conc3(a)    concrete 0/1/2 copy of a small symbolic int (branching), for clock steps/timedeltas.
"""
import asyncio

from vp.env import install


def vinstall(start=1000):
    inst = install(start)
    v = inst.v
    orig = v._call

    def _call(h):
        try:
            orig(h)
        except asyncio.CancelledError as e:
            v.exc_contexts.append({"message": "CancelledError escaped a callback", "exception": e})

    v._call = _call
    return inst


def conc3(a):
    return 0 if a == 0 else 1 if a == 1 else 2


def conc4(a):
    return 0 if a == 0 else 1 if a == 1 else 2 if a == 2 else 3


# ----------------------------------------------------------------------------------------------
# POSIX wait-status models (STUBS, pure Python arithmetic so they stay symbolic; Linux/glibc encoding:
# low 7 bits = terminating signal (0 = exited, 0x7f = stopped), bit 7 = core flag, bits 8..15 = exit
# code).  Cross-checked against the real os.W* functions on all 65536 statuses by validate_wmodels().

def w_ifexited(s):
    return s % 128 == 0


def w_exitstatus(s):
    return (s // 256) % 256


def w_ifsignaled(s):
    return s % 128 != 0 and s % 128 != 127


def w_termsig(s):
    return s % 128


def w_ifstopped(s):
    return s % 256 == 127


def validate_wmodels():
    import os
    bad = []
    for s in range(65536):
        if (os.WIFEXITED(s) != w_ifexited(s) or os.WIFSIGNALED(s) != w_ifsignaled(s)
                or os.WIFSTOPPED(s) != w_ifstopped(s) or os.WTERMSIG(s) != w_termsig(s)
                or os.WEXITSTATUS(s) != w_exitstatus(s)):
            bad.append(s)
    return bad


class FakeModule:
    """Proxy for a module object bound to a name inside tornado.process (os / sys): overridden
    attributes come from `over`, everything else from the real module."""

    def __init__(self, real, **over):
        self.__dict__["_real"] = real
        self.__dict__.update(over)

    def __getattr__(self, k):
        return getattr(self.__dict__["_real"], k)


class NullLog:
    def __init__(self):
        self.records = []

    def info(self, msg, *a, **kw):
        self.records.append(("info", msg))

    def warning(self, msg, *a, **kw):
        self.records.append(("warning", msg))

    def error(self, msg, *a, **kw):
        self.records.append(("error", msg))

    debug = info


def tick_nodrain(v, dt):
    """Timer phase of ONE loop iteration on a vp.env.VEnv: advance the clock by dt and run every due
    timer callback in (deadline, insertion) order WITHOUT draining the callback queue in between (a real
    asyncio iteration runs all due timers before the callbacks they enqueue).  The caller may then act
    'inside the iteration' before calling v.run_ready()."""
    v.run_ready()
    target = v.now + dt
    while True:
        v.timers = [h for h in v.timers if not h.cancelled]
        h = v._next_timer(target)
        if h is None:
            break
        v.timers.remove(h)
        if h.when > v.now:
            v.now = h.when
        v._call(h)
    v.now = target
