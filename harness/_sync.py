"""Helpers shared by the sync-agent harnesses (C34, C35, C36, C41, C42).

vinstall()  = vp.env.install() plus one local work-around: VEnv._call only catches `Exception`, but
              a real asyncio loop (Handle._run) also routes BaseException subclasses other than
              SystemExit/KeyboardInterrupt - in particular asyncio.CancelledError - to
              call_exception_handler and keeps running.  The wrapper catches CancelledError *by
              name* (never a bare except: CrossHair steers with BaseException subclasses) and
              records it in env.v.exc_contexts exactly like any other escaped exception.
conc3(a)    concrete 0/1/2 copy of a small symbolic int (branching), for clock steps/timedeltas.
"""
import asyncio

from vp.env import install


def vinstall(start=1000):
    inst = install(start)
    v = inst.v
    orig = v._call

    def _call(h):
        try:
            orig(h)
        except asyncio.CancelledError as e:
            v.exc_contexts.append({"message": "CancelledError escaped a callback", "exception": e})

    v._call = _call
    return inst


def conc3(a):
    return 0 if a == 0 else 1 if a == 1 else 2


def conc4(a):
    return 0 if a == 0 else 1 if a == 1 else 2 if a == 2 else 3
