"""C10 - TCP connection racing resolves exactly once and leaks no sockets.

Real code driven: tornado.tcpclient._Connector (split / start / try_connect / on_connect_done /
set_timeout / on_timeout / set_connect_timeout / on_connect_timeout / clear_timeouts /
close_streams) on the virtual loop.  The `connect` callable handed to the connector is the
environment: it returns (fake stream, Future) and a symbolic schedule decides when each Future
succeeds / fails and how the virtual clock advances.

Oracle (from the statement, not from the code): see `_Rig.check`.
"""
import socket
from typing import List, Tuple

from vp.api import P, harness, in_shard, reached
from vp.env import install

from tornado.concurrent import Future
from tornado.iostream import StreamClosedError
from tornado.tcpclient import _Connector


HE = 2   # happy-eyeballs fallback delay in virtual ticks (production: 0.3 s); ct in {None,1,2,3} gives <,=,>


class FakeConnStream:
    """Environment stub for an IOStream that is connecting.  Contract copied from IOStream:
    close() is idempotent; closing while the connect is pending fails the connect future with
    StreamClosedError (BaseIOStream._signal_closed)."""

    def __init__(self, idx):
        self.idx = idx
        self._closed = False
        self.fut = None

    def close(self, exc_info=False):
        if self._closed:
            return
        self._closed = True
        if self.fut is not None and not self.fut.done():
            self.fut.set_exception(StreamClosedError())

    def closed(self):
        return self._closed


class _Att:
    __slots__ = ("idx", "af", "addr", "stream", "fut", "state", "err")

    def __init__(self, idx, af, addr, stream, fut):
        self.idx, self.af, self.addr, self.stream, self.fut = idx, af, addr, stream, fut
        self.state = "inflight"      # inflight | ok | failed | syncfailed
        self.err = None


class _Rig:
    def __init__(self, env, addrs, he, ct):
        self.env = env
        self.addrs = addrs
        self.t0 = env.v.now
        self.he = he
        self.ct = ct
        self.atts = []               # in order of connect() calls
        self.first_success = None    # first attempt the schedule completed OK while the connect was unresolved
        self.seen = None             # first observed outcome of the connector future
        self.violations = []
        self.sync_fails = 0
        self.sync_oks = 0
        self.timers_after_sync_ok = 0
        self.addrinfo = [((socket.AF_INET if f else socket.AF_INET6), ("h", i))
                         for i, (f, s) in enumerate(addrs)]
        self.conn = _Connector(self.addrinfo, self.connect)
        self.fut = self.conn.future
        self.primary_af = self.addrinfo[0][0]

    # ---- the environment's connect()
    def connect(self, af, addr):
        # (may run inside a loop callback, where exceptions are swallowed by the loop: record, and
        # assert from check())
        i = addr[1]
        if self.fut.done():
            self.violations.append("a new socket was opened after the connect had already completed")
        for r in self.atts:
            if r.af == af and not r.fut.done():
                self.violations.append("two attempts of one address family in flight at the same time")
        st = FakeConnStream(i)
        f = Future()
        st.fut = f
        a = _Att(i, af, addr, st, f)
        self.atts.append(a)
        imm = self.addrs[i][1]       # 0 pending | 1 already failed | 2 already succeeded when connect() returns
        if imm == 1:
            # synchronous failure: the future is already failed when connect() returns and the
            # failed connect has closed its own stream
            self.sync_fails += 1
            a.state = "failed"
            a.err = ConnectionRefusedError("sync %d" % i)
            st._closed = True
            f.set_exception(a.err)
        elif imm == 2:
            # synchronous success (loopback / in-memory transport): the future already holds the stream
            self.sync_oks += 1
            a.state = "ok"
            if self.first_success is None and not self.fut.done():
                self.first_success = a
            f.set_result(st)
        return st, f

    def inflight(self):
        return [a for a in self.atts if a.state == "inflight" and not a.fut.done()]

    def succeed(self, a):
        a.state = "ok"
        if self.first_success is None and not self.fut.done():
            self.first_success = a
        a.fut.set_result(a.stream)

    def fail(self, a):
        a.state = "failed"
        a.err = ConnectionRefusedError("async %d" % a.idx)
        a.stream._closed = True      # environment contract: a failed connect closes its own stream
        a.fut.set_exception(a.err)

    # ---- the property, evaluated whenever the loop is quiescent
    def check(self):
        env, fut = self.env, self.fut
        assert not env.v.exc_contexts, "exception escaped a callback: %r" % (env.v.exc_contexts,)
        assert not self.violations, self.violations[0]
        if self.sync_fails:
            reached("sync_fail")
        if self.sync_oks and self.first_success is not None and self.first_success.fut is self.atts[0].fut \
                and self.timers_after_sync_ok:
            reached("sync_ok_first_then_timer")
        if self.sync_oks and len(self.atts) > 1 and self.first_success is self.atts[-1] \
                and self.timers_after_sync_ok:
            reached("sync_ok_later_then_timer")
        now = env.v.now
        n = len(self.addrs)
        failed = [a for a in self.atts if a.state == "failed"]
        all_failed = len(failed) == n
        timed_out = self.ct != 0 and now >= self.t0 + self.ct
        # ---------- completion: when it must have happened
        if self.first_success is not None:
            assert fut.done(), "an attempt succeeded but the connect is still pending"
        if all_failed:
            assert fut.done(), "every address failed but the connect is still pending"
        if timed_out:
            assert fut.done(), "connect_timeout passed but the connect is still pending"
        winner = None
        if fut.done():
            assert not fut.cancelled()
            exc = fut.exception()
            cur = ("exc", exc) if exc is not None else ("res", fut.result())
            if self.seen is None:
                self.seen = cur
            assert self.seen[0] == cur[0] and self.seen[1] is cur[1], "the connect completed twice"
            # ---------- completion: with what
            if exc is None:
                fs = self.first_success
                assert fs is not None, "connect resolved with a stream although no attempt succeeded"
                af, addr, stream = fut.result()
                assert stream is fs.stream and af == fs.af and addr == fs.addr, \
                    "connect must resolve with the FIRST successful connection"
                winner = fs
                assert not stream.closed(), "the winning stream was closed by the connector"
            else:
                assert self.first_success is None, \
                    "an attempt succeeded before anything else resolved the connect, yet it failed"
                if type(exc).__name__ == "TimeoutError":
                    reached("timeout_error")
                    assert timed_out, "TimeoutError before connect_timeout elapsed"
                else:
                    reached("all_failed_error")
                    assert all_failed, "connect failed although not every address has failed"
                    assert any(exc is a.err for a in failed), "error is not one of the attempts' errors"
            # ---------- no leaks: every other opened socket is closed
            for a in self.atts:
                if a is not winner:
                    assert a.stream.closed(), "socket %d opened by the connector was left open" % a.idx
                    if a.state == "ok":
                        reached("late_success_closed")
        else:
            # ---------- progress: no address is lost while the connect is unresolved
            for fam_primary in (True, False):
                fam = [i for i in range(n) if (self.addrinfo[i][0] == self.primary_af) == fam_primary]
                if not fam:
                    continue
                if not fam_primary and now < self.t0 + self.he:
                    continue         # the secondary family may still wait for the fallback timer
                busy = any(a.idx in fam for a in self.inflight())
                tried = [a.idx for a in self.atts]
                assert busy or all(i in tried for i in fam), \
                    "unresolved connect with an idle family that still has untried addresses"
                if not fam_primary and busy:
                    reached("secondary_started")
        # at most one attempt per family in flight
        for a in self.inflight():
            for b in self.inflight():
                assert a is b or a.af != b.af, "two attempts of one family in flight"


def pre_conn(addrs: List[Tuple[bool, int]], ct: int, steps: List[Tuple[int, int]]) -> bool:
    if not (1 <= len(addrs) <= P.N and len(steps) <= P.S):
        return False
    if len(addrs) >= 3 and len(steps) > P.S3:
        return False
    if not (0 <= ct <= 3):
        return False
    if P.SYM and addrs[0][0]:
        # quick tier: family labels are interchangeable (mirror image lists); first address is AF_INET6
        return False
    for k, a in steps:
        if not (0 <= k <= 3 and 0 <= a <= 1):
            return False
    for fam, imm in addrs:
        if not 0 <= imm <= 2:
            return False
    f0 = addrs[0][1]
    k0 = steps[0][0] if len(steps) > 0 else 0
    return in_shard((len(addrs) - 1) + P.N * (f0 + 3 * k0))


@harness(
    pre=pre_conn,
    quick=dict(N=3, S=3, S3=2, SYM=1, timeout=300, reach_timeout=150),
    thorough=dict(N=4, S=4, S3=4, SYM=0, timeout=1500, reach_timeout=300),
    nshards=dict(quick=36, thorough=48),
    reach=["sync_fail", "sync_ok_first_then_timer", "sync_ok_later_then_timer", "timeout_error", "all_failed_error", "late_success_closed", "secondary_started"],
    units=["tcpclient._Connector.__init__", "tcpclient._Connector.split", "tcpclient._Connector.start",
           "tcpclient._Connector.try_connect", "tcpclient._Connector.on_connect_done",
           "tcpclient._Connector.set_timeout", "tcpclient._Connector.on_timeout",
           "tcpclient._Connector.set_connect_timeout", "tcpclient._Connector.on_connect_timeout",
           "tcpclient._Connector.clear_timeouts", "tcpclient._Connector.close_streams",
           "concurrent.future_add_done_callback", "ioloop.IOLoop.add_timeout"],
    stubs=["VLoop/FakeAio virtual loop and clock (vp/env.py): timers never early, (deadline, insertion) order, "
           "callbacks FIFO",
           "per address the connect() outcome at return time is three-valued (symbolic): pending / already failed / "
           "already succeeded (synchronous success, e.g. loopback transport) - for the attempt started from start() "
           "as well as those started from on_timeout / on_connect_done; timers armed after a synchronous success "
           "are fired by the schedule and by the final drain",
           "connect() callable = environment: FakeConnStream (close idempotent; close while connecting fails "
           "the connect future with StreamClosedError, as BaseIOStream does); a failed connect closes its own "
           "stream (as IOStream._handle_connect/close does)",
           "time unit: the happy-eyeballs fallback delay is passed as start(timeout=2) virtual ticks (production "
           "default 0.3 s) and connect_timeout as an absolute deadline t0+ct, symbolic ct in 1..3 or None (all "
           "orders connect_timeout <, ==, > fallback delay); a clock step jumps to the next pending timer "
           "deadline (time is observable by the connector only through its timers)",
           "step = (kind: succeed one / fail one / fire next timer / BOTH in-flight attempts succeed in one loop "
           "iteration, in either order -> late arrivals)",
           "after the schedule every still-running attempt is failed and the clock is advanced (drain) so that "
           "'completes' is checked for all schedules in which every attempt eventually finishes"],
    outside=["quick tier only: the first address is AF_INET6 (lists that differ only by swapping the two family "
             "labels are mirror images); the thorough tier runs both labellings",
             "TCPClient.connect / _create_stream (resolver, real sockets, source_ip bind, TLS handshake)",
             "more than N addresses / S schedule steps (lists of 3 or more addresses: S3 steps - quick 2, thorough 4 - plus the drain, which fails everything still running and fires every armed timer)", "more than two address families",
             "attempts that never finish AND no connect_timeout (then nothing completes by design)"],
)
def h_connector(addrs: List[Tuple[bool, int]], ct: int, steps: List[Tuple[int, int]]):
    with install() as env:
        he = HE
        rig = _Rig(env, addrs, he, ct)
        t0 = rig.t0
        ret = rig.conn.start(timeout=he, connect_timeout=(None if ct == 0 else t0 + ct))
        assert ret is rig.fut
        env.run_ready()
        rig.check()
        for k, a in steps:
            if k == 2:
                # the clock jumps to the next pending timer deadline (time is observable only through timers)
                pend = env.v.pending_timers()
                if not pend:
                    return             # covered by the shorter schedule
                nxt = pend[0].when
                for h in pend:
                    if h.when < nxt:
                        nxt = h.when
                env.advance(nxt - env.v.now)
                if rig.sync_oks:
                    rig.timers_after_sync_ok += 1
            else:
                fl = rig.inflight()
                if not fl or (k == 3 and len(fl) < 2):
                    return             # nothing to complete: covered by the shorter schedule
                # `a` is only inspected when two attempts are in flight (keeps the path count down)
                if len(fl) == 1 or a == 0:
                    att, other = fl[0], fl[-1]
                else:
                    att, other = fl[1], fl[0]
                if k == 0:
                    rig.succeed(att)
                elif k == 1:
                    rig.fail(att)
                else:
                    # both in-flight attempts SUCCEED within one loop iteration (callbacks run back to
                    # back, in either order): this is how late arrivals happen.  (The other same-iteration
                    # pairs are event-for-event identical to two consecutive single steps: a failure
                    # callback after the winner does nothing, one before it behaves as when run alone.)
                    rig.succeed(att)
                    rig.succeed(other)
                env.run_ready()
            rig.check()
        # ---- drain: everything still running fails, all timers fire -> the connect must be complete
        for _ in range(len(addrs) + 1):
            for att in rig.inflight():
                rig.fail(att)
            env.advance(4)             # always at least once: every timer still armed fires (also after completion)
            if not rig.inflight() and rig.fut.done():
                break
        rig.check()
        assert rig.fut.done(), "connect never completed although every attempt finished"
        assert not rig.inflight()
