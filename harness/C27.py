"""C27 - Static range and conditional responses match the file exactly.

Real code driven: tornado.web.StaticFileHandler.get/head (through RequestHandler._execute, set_status,
set_header, write, flush, finish), httputil._parse_request_range/_int_or_none/_get_content_range,
should_return_304/check_etag_header.  The filesystem is replaced through the DOCUMENTED override
points only (get_content_size, get_content, get_absolute_path, validate_absolute_path,
get_modified_time, get_content_type, get_content_version).

Oracle (statement + RFC 9110 section 14.1): the Range value is honoured only if it is exactly
  "bytes=" 1*DIGIT "-" [1*DIGIT]   or   "bytes=-" 1*DIGIT          (ASCII digits, nothing else)
then:  first >= size, or suffix-length 0            -> 416, Content-Range "bytes */size", empty body
       last < first                                 -> 416 or ignored (RFC lets the server choose)
       suffix on an empty file                      -> 416 or 200 (corner; either accepted)
       selected range == whole file                 -> 200 whole file, no Content-Range
       otherwise                                    -> 206, "bytes a-b/size", body == file[a:b+1]
anything else -> header ignored: 200 with the whole file (a unit name in another letter case may be
either ignored or honoured: range units are case-insensitive, ignoring Range is always allowed).
Content-Length == len(body) (for HEAD: the length GET would send, and an empty body).
"""
import datetime
from typing import List, Tuple

from vp.api import P, harness, in_shard, reached
from vp.env import install

from tornado import httputil, web

from harness._sec_rig import QuietMixin, make_app, make_request

DATA = b"abcdefgh"
MTIME = datetime.datetime(2020, 1, 2, 3, 4, 5, tzinfo=datetime.timezone.utc)
ETAG = '"v1"'


class MemStatic(QuietMixin, web.StaticFileHandler):
    """StaticFileHandler with the filesystem replaced via the documented override points."""
    SIZE = 0

    @classmethod
    def get_absolute_path(cls, root, path):
        return "/mem/" + "f"

    def validate_absolute_path(self, root, absolute_path):
        return absolute_path

    def get_content_size(self):
        return self.SIZE

    @classmethod
    def get_content(cls, abspath, start=None, end=None):
        return DATA[:cls.SIZE][start:end]

    @classmethod
    def get_content_version(cls, abspath):
        return "v1"

    def get_modified_time(self):
        return MTIME

    def get_content_type(self):
        return "application/octet-stream"


def run_static(size, head, headers):
    """Drive the real handler; returns the recording connection."""
    MemStatic.SIZE = size
    MemStatic._static_hashes = {}
    with install() as env:
        app = make_app()
        req, conn = make_request("HEAD" if head else "GET", "/static/f", headers)
        handler = MemStatic(app, req, path="/mem")
        t = env.spawn(handler._execute([], b"f"))
        env.run_ready()
        assert t.done() and t.exception() is None, "handler did not complete: %r" % (t,)
        assert not env.v.exc_contexts, "exception escaped: %r" % (env.v.exc_contexts,)
    assert conn.finished, "response not finished"
    return conn


def _num(t):
    """1*DIGIT (ASCII) -> int, else None.  Arithmetic on code points: no per-digit forking."""
    if t == "":
        return None
    v = 0
    for ch in t:
        if not ("0" <= ch <= "9"):
            return None
        v = v * 10 + (ord(ch) - 48)
    return v


def ref_parse(value):
    """RFC 9110 single byte-range: returns None (not valid) | ('int', first, last|None) | ('suffix', n)."""
    if not value.startswith("bytes="):
        return None
    spec = value[6:]
    i = spec.find("-")
    if i < 0:
        return None
    a, b = spec[:i], spec[i + 1:]
    if a == "":
        n = _num(b)
        return None if n is None else ("suffix", n)
    first = _num(a)
    if first is None:
        return None
    if b == "":
        return ("int", first, None)
    last = _num(b)
    if last is None:
        return None
    return ("int", first, last)


def expected(value, size):
    """List of acceptable (status, content_range, a, b) outcomes; a..b inclusive body slice, or None."""
    whole = (200, None, 0, size - 1)
    r416 = (416, f"bytes */{size}", 0, -1)
    if value is None:
        return [whole]
    p = ref_parse(value)
    if p is None:
        return [whole]
    if p[0] == "suffix":
        n = p[1]
        if n == 0:
            return [r416]
        if size == 0:
            return [r416, whole]
        a = size - n if n < size else 0
        b = size - 1
    else:
        a, last = p[1], p[2]
        if last is not None and last < a:
            return [r416, whole]
        if a >= size:
            return [r416]
        b = size - 1 if (last is None or last >= size) else last
    if a == 0 and b == size - 1:
        return [whole]
    return [(206, f"bytes {a}-{b}/{size}", a, b)]


def check_response(conn, head, size, outcomes):
    st = conn.status
    cr = conn.header("Content-Range")
    cl = conn.header("Content-Length")
    body = conn.body()
    ok = False
    for (est, ecr, a, b) in outcomes:
        if st == est and cr == ecr:
            want = DATA[:size][a:b + 1]
            if cl == str(len(want)) and body == (b"" if head else want):
                ok = True
    return ok


PFX = ["bytes=", "", "bytes= ", "Bytes=", "bytes=0-", "bytes=-", "bytes=1"]
CASEPFX = 3


DASHLESS_KEY = "range-without-dash-honoured"


def _is_dashless(pi, free):
    """Recorded known finding: 'bytes=N' (digits only, no dash) is honoured like 'bytes=N-'. The existing
    test suite pins this (web_test test_static_unsatisfiable_range_invalid_start expects 416 for
    'bytes=26'), so it cannot be repaired without editing the suite."""
    v = PFX[pi] + free
    if not v.startswith("bytes="):
        return False
    spec = v[len("bytes="):]
    return len(spec) > 0 and all("0" <= c <= "9" for c in spec)


def classify_range(size, head, pi, free):
    return DASHLESS_KEY if _is_dashless(pi, free) else None


def pre_range(size: int, head: bool, pi: int, free: str) -> bool:
    if not (0 <= size <= P.S and 0 <= pi < len(PFX)):
        return False
    if len(free) > (P.L if pi != 1 else P.LW):
        return False
    if DASHLESS_KEY in P.exclude and _is_dashless(pi, free):
        return False
    return in_shard(pi + len(PFX) * len(free))


@harness(
    pre=pre_range,
    quick=dict(S=3, L=2, LW=3, timeout=150, reach_timeout=90),
    thorough=dict(S=5, L=4, LW=7, timeout=1400, reach_timeout=120),
    nshards=dict(quick=14, thorough=28),
    reach=["r206", "r416", "ignored_invalid"],
    classify=classify_range,
    units=["web.StaticFileHandler.get", "web.StaticFileHandler.head", "httputil._parse_request_range",
           "httputil._int_or_none", "httputil._get_content_range", "web.StaticFileHandler.set_headers",
           "web.StaticFileHandler.should_return_304", "web.RequestHandler.check_etag_header",
           "web.RequestHandler._execute", "web.RequestHandler.flush", "web.RequestHandler.finish"],
    stubs=["filesystem replaced via the documented StaticFileHandler override points (get_content_size = "
           "symbolic size, get_content slices an in-memory bytes object, get_absolute_path/"
           "validate_absolute_path/get_modified_time/get_content_type/get_content_version constant)",
           "recording HTTPConnection (harness/_sec_rig.RecConn): status line, header object and body "
           "chunks are observed before wire formatting",
           "Range value = pooled prefix (bytes= / empty / 'bytes= ' / Bytes= / bytes=0- / bytes=- / bytes=1) "
           "+ free symbolic str; request header object filled with HTTPHeaders.__setitem__ (any str, a "
           "superset of what the HTTP/1 parser delivers)",
           "VLoop/FakeAio virtual loop (vp/env.py); access/exception logging switched off"],
    outside=["files larger than S bytes (arithmetic harness h_arith covers all sizes)",
             "free part longer than L code points", "multi-chunk get_content generators (open() based default)"],
)
def h_range(size: int, head: bool, pi: int, free: str):
    value = PFX[pi] + free
    headers = [("Range", value)]
    conn = run_static(size, head, headers)
    outcomes = expected(value if value != "" else None, size)
    if pi == CASEPFX:
        outcomes = outcomes + expected("bytes=" + free, size)
    if conn.status == 206:
        reached("r206")
    if conn.status == 416:
        reached("r416")
    if len(free) > 0 and conn.status == 200 and pi == 0:
        reached("ignored_invalid")
    assert check_response(conn, head, size, outcomes), \
        "Range %r size %d head=%r: got status=%r Content-Range=%r Content-Length=%r body=%r, acceptable=%r" % (
            value, size, head, conn.status, conn.header("Content-Range"), conn.header("Content-Length"),
            conn.body(), outcomes)
    assert conn.header("Accept-Ranges") == "bytes" and conn.header("Etag") == ETAG


# ----------------------------------------------------------------------------------------------
INM = [None, '"v1"', '"zz"', "*", 'W/"v1"', '"zz", "v1"', "garbage"]
INM_MATCH = [False, True, False, True, True, True, False]
# If-Modified-Since pool.  MTIME is Thu, 02 Jan 2020 03:04:05 GMT.  Entries 6.. carry a NON-ZERO numeric zone:
# the decision must be taken on the absolute instant (304 iff mtime <= instant), which for four of them is the
# opposite of what the same wall clock read as GMT would give.
IMS = [None, "Wed, 01 Jan 2020 00:00:00 GMT", "Thu, 02 Jan 2020 03:04:05 GMT",
       "Fri, 03 Jan 2020 00:00:00 GMT", "garbage", "Thu, 02 Jan 2020 03:04:04 GMT",
       "Thu, 02 Jan 2020 03:04:05 +0200",     # 01:04:05Z  earlier  (as GMT: equal   -> would be 304)
       "Thu, 02 Jan 2020 05:00:00 +0200",     # 03:00:00Z  earlier  (as GMT: later   -> would be 304)
       "Thu, 02 Jan 2020 01:00:00 -0500",     # 06:00:00Z  later    (as GMT: earlier -> would be 200)
       "Wed, 01 Jan 2020 22:04:05 -0500",     # 03:04:05Z  equal    (as GMT: earlier -> would be 200)
       "Thu, 02 Jan 2020 05:04:05 +0200",     # 03:04:05Z  equal    (as GMT: later, same verdict)
       "Thu, 02 Jan 2020 03:04:05 -0500"]     # 08:04:05Z  later    (as GMT: equal, same verdict)
IMS_NOTMOD = [False, False, True, True, False, False,
              False, False, True, True, True, True]
IMS_ZONE_DISAGREES = (6, 7, 8, 9)


def _selfcheck_ims():
    """The hand-written verdicts equal 'mtime <= true instant' under email.utils.parsedate_to_datetime."""
    import email.utils
    for i, v in enumerate(IMS):
        if v is None or v == "garbage":
            continue
        d = email.utils.parsedate_to_datetime(v)
        if d.tzinfo is None:
            d = d.replace(tzinfo=datetime.timezone.utc)
        assert (d >= MTIME) == IMS_NOTMOD[i], (i, v)
        as_gmt = d.replace(tzinfo=datetime.timezone.utc) if i < 6 else \
            datetime.datetime(d.year, d.month, d.day, d.hour, d.minute, d.second, tzinfo=datetime.timezone.utc)
        assert ((as_gmt >= MTIME) != IMS_NOTMOD[i]) == (i in IMS_ZONE_DISAGREES), (i, v)


_selfcheck_ims()
RNG = [None, "bytes=1-", "bytes=-1", "bytes=0-0", "bytes=9-", "bytes=x"]


def _pick(pool, i):
    """pool[i] through one branch per index: the chosen header value is a concrete str on each path."""
    for k in range(len(pool)):
        if i == k:
            return k
    raise IndexError(i)


def pre_cond(size: int, head: bool, inm: int, ims: int, rng: int) -> bool:
    if not (0 <= size <= P.S and 0 <= inm < len(INM) and 0 <= ims < len(IMS) and 0 <= rng < len(RNG)):
        return False
    if INM[inm] is not None and ims >= 3:
        return False      # If-None-Match present: If-Modified-Since is ignored; 3 values suffice to show that
    return in_shard(inm)


@harness(
    pre=pre_cond,
    quick=dict(S=3, timeout=150, reach_timeout=60),
    thorough=dict(S=8, timeout=900),
    nshards=dict(quick=7, thorough=7),
    reach=["c304_etag", "c304_ims", "c200_after_cond", "c206_after_cond", "c304_zone_offset", "c200_zone_offset"],
    units=["web.StaticFileHandler.get", "web.StaticFileHandler.should_return_304",
           "web.RequestHandler.check_etag_header", "web.RequestHandler.finish",
           "web.RequestHandler._clear_representation_headers"],
    stubs=["as h_range; If-None-Match / If-Modified-Since / Range from concrete pools chosen by symbolic "
           "index, file size symbolic; If-Modified-Since pool = absent, GMT earlier/equal/later/one second earlier, "
           "garbage, and six values with zone +0200 / -0500 (four of them on the other side of the mtime than the same "
           "wall clock read as GMT); oracle = 304 iff mtime <= the absolute instant (email.utils.parsedate_to_datetime)"],
    outside=["If-None-Match / If-Modified-Since values outside the pools (their parsers are email.utils / a regex; "
             "not this property's subject)"],
)
def h_cond(size: int, head: bool, inm: int, ims: int, rng: int):
    inm, ims, rng = _pick(INM, inm), _pick(IMS, ims), _pick(RNG, rng)
    headers = []
    if INM[inm] is not None:
        headers.append(("If-None-Match", INM[inm]))
    if IMS[ims] is not None:
        headers.append(("If-Modified-Since", IMS[ims]))
    if RNG[rng] is not None:
        headers.append(("Range", RNG[rng]))
    conn = run_static(size, head, headers)
    want304 = INM_MATCH[inm] if INM[inm] is not None else IMS_NOTMOD[ims]
    if want304:
        if INM[inm] is not None:
            reached("c304_etag")
        else:
            reached("c304_ims")
            if ims in IMS_ZONE_DISAGREES:
                reached("c304_zone_offset")
        assert conn.status == 304, "expected 304 (mtime <= the instant named by If-Modified-Since=%r), got %r" % (
            IMS[ims], conn.status)
        assert conn.body() == b"", "304 must not carry a body"
        assert conn.header("Content-Range") is None and conn.header("Content-Type") is None
        assert conn.header("Etag") == ETAG
        return
    if INM[inm] is None and ims in IMS_ZONE_DISAGREES:
        reached("c200_zone_offset")
    assert conn.status != 304, "unexpected 304 for If-None-Match=%r If-Modified-Since=%r" % (INM[inm], IMS[ims])
    if len(headers) > (1 if RNG[rng] is not None else 0):
        if conn.status == 200:
            reached("c200_after_cond")
        if conn.status == 206:
            reached("c206_after_cond")
    assert check_response(conn, head, size, expected(RNG[rng], size)), \
        "Range %r size %d: status=%r Content-Range=%r Content-Length=%r body=%r" % (
            RNG[rng], size, conn.status, conn.header("Content-Range"), conn.header("Content-Length"), conn.body())


# ----------------------------------------------------------------------------------------------
# Arithmetic harness: the start/end arithmetic of StaticFileHandler.get for UNBOUNDED requested positions
# (first/last/suffix any non-negative int) and sizes 0..S.  _parse_request_range is replaced by a function that returns the symbolic
# (start, end) pair in the shapes the real parser can produce:
#   (s>=0, None)  (s>=0, e+1 with e>=0)  (-n, None) n>0  (None, 0)  (None, None)
# Values are observed as INTEGERS (before str()): set_header is overridden to record the raw value,
# _get_content_range is wrapped to record its arguments, get_content records its (start, end).
# The rendering of _get_content_range itself is checked by h_content_range.

class ArithStatic(MemStatic):
    LOG = None
    RAW = None
    CR = None

    @classmethod
    def get_content(cls, abspath, start=None, end=None):
        cls.LOG.append((start, end))
        return b""

    def set_header(self, name, value):
        if name == "Content-Length":
            ArithStatic.RAW.append(value)
            value = "0"
        elif name == "Content-Range":
            ArithStatic.CR = value        # header-character validation of str(unbounded int) forks per digit
            value = "x"
        super().set_header(name, value)


def pre_arith(size: int, shape: int, x: int, y: int) -> bool:
    return 0 <= size <= P.S and 0 <= shape <= 4 and x >= 0 and y >= 0 and in_shard(shape)


@harness(
    pre=pre_arith,
    quick=dict(S=6, timeout=120, reach_timeout=60),
    thorough=dict(S=40, timeout=900),
    nshards=dict(quick=5, thorough=5),
    reach=["a206", "a416", "a200"],
    units=["web.StaticFileHandler.get (range arithmetic block)"],
    stubs=["httputil._parse_request_range replaced by a function returning the symbolic (start,end) pair "
           "(shapes: first- / first-last / -suffix / -0 / empty) so that the integers are unbounded solver "
           "variables (the parser itself is covered by h_range)",
           "integers observed before rendering: set_header('Content-Length', n) records n; set_header('Content-Range', s) "
           "records s without the header-character regex (str of an unbounded int forks per digit); "
           "httputil._get_content_range wrapped to record (start,end,total) (its rendering: h_content_range); "
           "get_content records its (start,end) arguments"],
    outside=["sizes above S (the 416 branch renders f'bytes */{size}', which makes CrossHair enumerate size); "
             "first/last/suffix positions are unbounded"],
)
def h_arith(size: int, shape: int, x: int, y: int):
    if shape == 0:
        rr = (x, None); first, last, suffix = x, None, None
    elif shape == 1:
        rr = (x, y + 1); first, last, suffix = x, y, None
    elif shape == 2:
        rr = (-(x + 1), None); first, last, suffix = None, None, x + 1
    elif shape == 3:
        rr = (None, 0); first, last, suffix = None, None, 0
    else:
        rr = (None, None); first, last, suffix = None, None, None
    ArithStatic.LOG = []
    ArithStatic.RAW = []
    ArithStatic.CR = None
    crargs = []

    def rec_cr(start, end, total):
        crargs.append((start, end, total))
        return "bytes 0-0/1"

    saved = (httputil._parse_request_range, httputil._get_content_range)
    httputil._parse_request_range = lambda v: rr
    httputil._get_content_range = rec_cr
    try:
        MemStatic.SIZE = size
        MemStatic._static_hashes = {}
        with install() as env:
            app = make_app()
            req, conn = make_request("GET", "/static/f", [("Range", "bytes=sym")])
            handler = ArithStatic(app, req, path="/mem")
            t = env.spawn(handler._execute([], b"f"))
            env.run_ready()
            assert t.done() and t.exception() is None
    finally:
        httputil._parse_request_range, httputil._get_content_range = saved
    st = conn.status
    # reference selection
    if suffix is not None:
        if suffix == 0:
            sel = None
        elif size == 0:
            sel = "either"
        else:
            sel = (size - suffix if suffix < size else 0, size - 1)
    elif first is not None:
        if last is not None and last < first:
            sel = "either"
        elif first >= size:
            sel = None
        else:
            sel = (first, size - 1 if (last is None or last >= size) else last)
    else:
        sel = (0, size - 1)
    if st == 206:
        reached("a206")
        assert sel is not None and sel != "either", "206 for an unsatisfiable/invalid range"
        a, b = sel
        assert 0 <= a <= b < size, "206 outside the file"
        assert not (a == 0 and b == size - 1), "206 for the whole file"
        assert len(crargs) == 1
        cs, ce, ct = crargs[0]
        assert (cs or 0) == a and (ce or ct) - 1 == b and ct == size, "Content-Range arguments"
        assert ArithStatic.RAW == [b - a + 1], "Content-Length != b-a+1"
        (gs, ge) = ArithStatic.LOG[0]
        assert (gs or 0) == a and (size if ge is None else ge) == b + 1, "slice != [a:b+1]"
    elif st == 416:
        reached("a416")
        assert sel is None or sel == "either", "416 for a satisfiable range"
        assert ArithStatic.LOG == [] and crargs == []
        cr = ArithStatic.CR
        assert cr == f"bytes */{size}", "416 Content-Range"
    else:
        reached("a200")
        assert st == 200 and crargs == []
        assert sel == "either" or (sel is not None and sel[0] == 0 and sel[1] == size - 1), \
            "range ignored although a proper sub-range was selected"
        assert ArithStatic.RAW == [size]
        (gs, ge) = ArithStatic.LOG[0]
        assert (gs or 0) == 0 and (size if ge is None else ge) == size


def pre_cr(start: int, end: int, total: int, sn: bool, en: bool) -> bool:
    return 0 <= start <= P.M and 1 <= end <= P.M and 0 <= total <= P.M


@harness(
    pre=pre_cr,
    quick=dict(M=6, timeout=120),
    thorough=dict(M=16, timeout=900),
    nshards=1,
    reach=["cr_none_end"],
    units=["httputil._get_content_range"],
    stubs=["output parsed back with split/int by the harness"],
    outside=["integers above M (the f-string rendering makes CrossHair enumerate the integers)"],
)
def h_content_range(start: int, end: int, total: int, sn: bool, en: bool):
    s = None if sn else start
    e = None if en else end
    out = httputil._get_content_range(s, e, total)
    if en:
        reached("cr_none_end")
    assert out.startswith("bytes ")
    rng, _, tot = out[6:].partition("/")
    a, _, b = rng.partition("-")
    assert int(tot) == total and int(a) == (0 if sn else start) and int(b) == (total if en else end) - 1
