"""C28 - Framework-generated redirects never point to another site.

Real code driven: tornado.web.removeslash / addslash wrappers, StaticFileHandler.validate_absolute_path
(directory redirect), authenticated, RequestHandler.redirect, all through RequestHandler._execute on a
handler over a fake request whose path is a symbolic str starting with "/".

Oracle on the Location header, read the way browsers do (WHATWG URL): TAB/LF/CR removed, leading
C0-control/space stripped, "\\" treated as "/".  It must then be a path on the same host: start with
exactly one "/" (not "//", hence not "/\\"), and carry no "scheme:".  For `authenticated`: Location is
the configured login URL + "?next=" + the percent-encoded original URL and nothing else.
"""
import posixpath
import urllib.parse
from typing import List, Tuple

from vp.api import P, harness, in_shard, reached
from vp.env import install

from tornado import web

from harness._sec_rig import QuietMixin, make_app, make_request
from harness.C26 import _py_normpath, _py_abspath

ROOT = "/r/root"


class _AnyDirPath:
    """Every path is an existing directory (so the static handler reaches its directory redirect for
    every request path that passes the real root-containment check)."""
    sep = "/"

    def isdir(self, p):
        return True

    def exists(self, p):
        return True

    def isfile(self, p):
        return False

    def normpath(self, p):
        return _py_normpath(p)

    def abspath(self, p):
        return _py_abspath(p)

    def __getattr__(self, k):
        return getattr(posixpath, k)


class _Os:
    path = _AnyDirPath()
    sep = "/"

    def __getattr__(self, k):
        import os as _os
        return getattr(_os, k)


web.os = _Os()


class RmSlash(QuietMixin, web.RequestHandler):
    ran = False

    @web.removeslash
    def get(self, *a):
        self.ran = True

    head = get


class AddSlash(QuietMixin, web.RequestHandler):
    ran = False

    @web.addslash
    def get(self, *a):
        self.ran = True

    head = get


class Auth(QuietMixin, web.RequestHandler):
    ran = False

    def get_current_user(self):
        return None

    @web.authenticated
    def get(self, *a):
        self.ran = True

    head = get


class DirStatic(QuietMixin, web.StaticFileHandler):
    pass


def same_host_path(loc):
    """WHATWG-style reading of a Location value: True iff it is a path-absolute reference on the same host."""
    t = loc.replace("\t", "").replace("\n", "").replace("\r", "")
    i = 0
    while i < len(t) and t[i] <= " ":
        i += 1
    t = t[i:].replace("\\", "/")
    return t.startswith("/") and not t.startswith("//")


def drive(cls, method, uri, capture, settings, kw):
    with install() as env:
        app = make_app(**settings)
        req, conn = make_request(method, uri)
        h = cls(app, req, **kw)
        t = env.spawn(h._execute([], *([capture] if capture is not None else [])))
        env.run_ready()
        assert t.done() and t.exception() is None
    assert conn.finished
    return h, conn


QUERIES = ["", "?a=1", "?//h"]
STUBS = ["request = real HTTPServerRequest over a recording connection with uri = symbolic path (starts with '/', "
         "code points <= U+00FF as HTTP1Connection's latin-1 decoding delivers them, no CTL/space: the request-target "
         "grammar, C01) + pooled query; virtual loop, fixed clock, logging off",
         "static: tornado.web.os shim where every path is an existing directory (maximises the directory redirect), "
         "normpath/abspath = CPython's pure-Python fallback (see C26); root /r/root, default_filename set; the routing "
         "capture is path[1:] (catch-all pattern '/(.*)')"]


def classify_slash(kind, head, path, qi):
    if len(path) > 1 and path[1] == "/" and kind in (0, 1):
        return "slash-decorator-protocol-relative"
    if len(path) > 1 and path[1] == "\\":
        return "backslash-protocol-relative"
    return None


def shard_table(L):
    """(kind, len(path), query index or None, head or None) per shard.  Long paths fork most (every free
    code point forks in utf8(), the header-character regex and lstrip), so they are split further."""
    t = []
    for kind in range(3):
        for n in range(1, L + 1):
            if n <= 3:
                t.append((kind, n, None, None))
            elif n == 4:
                for qi in range(len(QUERIES)):
                    t.append((kind, n, qi, None))
            else:
                for qi in range(len(QUERIES)):
                    for hd in (False, True):
                        t.append((kind, n, qi, hd))
    return t


def pre_slash(kind: int, head: bool, path: str, qi: int) -> bool:
    if len(P.exclude) > 0 and len(path) > 1:
        if "slash-decorator-protocol-relative" in P.exclude and path[1] == "/" and kind in (0, 1):
            return False
        if "backslash-protocol-relative" in P.exclude and path[1] == "\\":
            return False
    if P.nshards > 1:
        # pinned per shard by equality with concrete values (see shard_table)
        sk, sn, sq, sh = shard_table(P.L)[P.shard]
        if kind != sk or len(path) != sn:
            return False
        if sq is not None and qi != sq:
            return False
        if sh is not None and head != sh:
            return False
    if not (0 <= kind <= 2 and 0 <= qi < len(QUERIES) and 1 <= len(path) <= P.L and path[0] == "/"):
        return False
    for ch in path:
        # request-target as HTTP1Connection delivers it: latin-1 decoded bytes, no CTL/space (C01)
        if ch <= " " or ch == "\x7f" or ch == "?" or ch == "#" or ch > "\xff":
            return False
    return True


@harness(pre=pre_slash, quick=dict(L=4, timeout=150, reach_timeout=90), thorough=dict(L=6, timeout=1400),
         nshards=dict(quick=len(shard_table(4)), thorough=len(shard_table(6))),
         reach=["rm_redirect", "add_redirect", "static_redirect", "no_redirect"],
         classify=classify_slash,
         units=["web.removeslash", "web.addslash", "web.StaticFileHandler.validate_absolute_path",
                "web.RequestHandler.redirect", "web.RequestHandler._execute"],
         stubs=STUBS, outside=["paths longer than L code points", "redirects issued by application code"])
def h_slash(kind: int, head: bool, path: str, qi: int):
    uri = path + QUERIES[qi]
    method = "HEAD" if head else "GET"
    if kind == 0:
        h, conn = drive(RmSlash, method, uri, None, {}, {})
    elif kind == 1:
        h, conn = drive(AddSlash, method, uri, None, {}, {})
    else:
        h, conn = drive(DirStatic, method, uri, path[1:].encode("utf-8"), {},
                        dict(path=ROOT, default_filename="index.html"))
    st = conn.status
    loc = conn.header("Location")
    if st in (301, 302):
        reached(["rm_redirect", "add_redirect", "static_redirect"][kind])
        assert loc is not None
        assert same_host_path(loc), "redirect leaves the site: %s %r -> Location %r" % (
            ["removeslash", "addslash", "static"][kind], uri, loc)
    else:
        reached("no_redirect")
        assert loc is None


# ----------------------------------------------------------------------------------------------
# Request targets that are NOT in origin form.  The request-line parser accepts any VCHAR target, so
# `GET http://evil.example/x HTTP/1.1` (absolute form), `*`, `x:y`, `\\e` ... reach a catch-all route with
# request.path == that string.  The redirects derived from it must still be same-host paths.
APFX = ["", "http://e", "//e", "\\e", "x:"]


def pre_abs(kind: int, head: bool, pf: int, free: str, qi: int) -> bool:
    if P.nshards > 1:
        # pinned per shard by equality: decorator/static kind and target prefix
        if kind != P.shard % 3 or pf != P.shard // 3:
            return False
    if not (0 <= kind <= 2 and 0 <= pf < len(APFX) and 0 <= qi < len(QUERIES) and len(free) <= P.LA):
        return False
    if pf == 0 and (len(free) < 1 or free[0] == "/"):
        return False              # origin-form targets are h_slash's domain
    for ch in free:
        if ch <= " " or ch == "\x7f" or ch == "?" or ch == "#" or ch > "\xff":
            return False
    return True


@harness(pre=pre_abs, quick=dict(LA=2, timeout=150, reach_timeout=90), thorough=dict(LA=3, timeout=1400),
         nshards=dict(quick=3 * len(APFX), thorough=3 * len(APFX)),
         reach=["abs_rm_redirect", "abs_add_redirect", "abs_static_redirect", "abs_scheme_prefix_redirect"],
         units=["web.removeslash", "web.addslash", "web.StaticFileHandler.validate_absolute_path",
                "web.RequestHandler.redirect", "web.RequestHandler._execute", "httputil.HTTPServerRequest.__init__"],
         stubs=STUBS + ["request target = pooled prefix {empty, http://e, //e, \\e, x:} + up to LA free code "
                        "points (VCHAR, latin-1, no ?/#), not starting with '/' when the prefix is empty; catch-all route: "
                        "the static capture is the target with one leading '/' removed if present (pattern '/?(.*)')"],
         outside=["free part longer than LA code points", "redirects issued by application code"])
def h_slash_abs(kind: int, head: bool, pf: int, free: str, qi: int):
    path = APFX[pf] + free if len(free) > 0 else APFX[pf]
    uri = path + QUERIES[qi]
    method = "HEAD" if head else "GET"
    if kind == 0:
        h, conn = drive(RmSlash, method, uri, None, {}, {})
    elif kind == 1:
        h, conn = drive(AddSlash, method, uri, None, {}, {})
    else:
        cap = path[1:] if path.startswith("/") else path
        h, conn = drive(DirStatic, method, uri, cap.encode("utf-8"), {},
                        dict(path=ROOT, default_filename="index.html"))
    assert h.request.path == path, "request.path %r != target %r" % (h.request.path, path)
    st = conn.status
    loc = conn.header("Location")
    if st in (301, 302):
        reached(["abs_rm_redirect", "abs_add_redirect", "abs_static_redirect"][kind])
        if pf in (1, 4):
            reached("abs_scheme_prefix_redirect")
        assert loc is not None
        assert same_host_path(loc), "redirect leaves the site: %s %r -> Location %r" % (
            ["removeslash", "addslash", "static"][kind], uri, loc)
    else:
        assert loc is None, "Location %r on a %r response" % (loc, st)


URIS = ["/a", "//evil.com/", "/\\evil.com", "/a?x=1&next=//e", "/%2f%2fe", "/a#frag", "/a b", "/é"]


def pre_auth(ui: int, head: bool, post: bool) -> bool:
    return 0 <= ui < len(URIS)


@harness(pre=pre_auth, quick=dict(timeout=60), thorough=dict(timeout=120), nshards=1,
         reach=["login_redirect", "post_403"],
         units=["web.authenticated", "web.RequestHandler.get_login_url", "web.RequestHandler.redirect"],
         stubs=["original URL from a concrete pool chosen by symbolic index (urlencode realises symbolic strings); "
                "login_url = '/login'"],
         outside=["absolute login URLs (next = full_url())", "login URLs that already carry a query"])
def h_auth(ui: int, head: bool, post: bool):
    uri = URIS[ui]
    method = "POST" if post else ("HEAD" if head else "GET")

    class A(Auth):
        post = Auth.get

    h, conn = drive(A, method, uri, None, dict(login_url="/login"), {})
    assert not h.ran, "unauthenticated request reached the handler"
    if post:
        reached("post_403")
        assert conn.status == 403 and conn.header("Location") is None
        return
    reached("login_redirect")
    loc = conn.header("Location")
    assert conn.status == 302 and loc is not None
    assert loc.startswith("/login?next="), "not the configured login URL: %r" % (loc,)
    enc = loc[len("/login?next="):]
    for ch in enc:
        assert ch not in "/&#?\\ :", "original URL leaks outside the encoded next= value: %r" % (loc,)
    assert urllib.parse.unquote_plus(enc) == uri
    assert same_host_path(loc)
