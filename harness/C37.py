"""C37 - Decorated generator coroutines behave like native coroutines.

One interpreter written twice - `@gen.coroutine def run_g` (yield) and `async def run_n` (await) - executes the
same SYMBOLIC program over two external futures under a symbolic completion schedule; the side-effect traces
and the final results/exceptions of the two forms must be identical.
Units: the real gen.coroutine wrapper (fast path + Runner), Runner.run / handle_yield, convert_yielded,
_wrap_awaitable, multi / multi_future, gen.moment handling - on the virtual loop.
"""
import contextvars
from typing import List, Tuple

from vp.api import P, harness, in_shard, reached
from vp.env import install, outcome

from tornado import gen

_var = contextvars.ContextVar("c37", default="unset")


class _Log:
    def __init__(self):
        self.errors = []

    def error(self, msg, *args, **kw):
        self.errors.append(msg)

    warning = info = debug = exception = error


async def _sub_n(f, log):
    log.append("sub-in")
    v = await f
    log.append("sub-out")
    return v + 10


@gen.coroutine
def run_g(prog, futs, log, trace_cv=False):
    log.append(("ctx", _var.get()))
    tok = None
    i = 0
    n = len(prog)
    while i < n:
        op, a = prog[i]
        in_try = False
        if op == 7 and i + 1 < n:
            in_try = True
            i += 1
            op, a = prog[i]
        try:
            if op == 0:
                v = yield futs[a % 2]
                log.append(("got", v))
            elif op == 1:
                v = yield [futs[0], futs[1]]
                log.append(("list", v[0], v[1]))
            elif op == 2:
                v = yield {"x": futs[0], "y": futs[1]}
                log.append(("dict", v["x"], v["y"]))
            elif op == 3:
                if a == 0:
                    yield gen.moment
                else:
                    yield None
                log.append("tick")
            elif op == 4:
                v = yield _sub_n(futs[a % 2], log)
                log.append(("sub", v))
            elif op == 5:
                raise ValueError(a)
            elif op == 6:
                return a
            elif op == 8:
                _var.set("set-%d-%d" % (i, a))
            elif op == 9:
                log.append(("cv", _var.get()))
            elif op == 10:
                tok = _var.set("tok-%d" % i)
            elif op == 11:
                if tok is None:
                    log.append("no-token")
                else:
                    t, tok = tok, None
                    _var.reset(t)
                    log.append("reset-ok")
        except Exception as e:
            if not in_try:
                raise
            log.append(("caught", type(e).__name__))
        finally:
            if in_try:
                log.append("fin")
        if trace_cv:
            log.append(("cv@", i, _var.get()))
        i += 1
    log.append(("ctx2", _var.get()))
    return "end"


async def run_n(prog, futs, log, trace_cv=False):
    import asyncio
    log.append(("ctx", _var.get()))
    tok = None
    i = 0
    n = len(prog)
    while i < n:
        op, a = prog[i]
        in_try = False
        if op == 7 and i + 1 < n:
            in_try = True
            i += 1
            op, a = prog[i]
        try:
            if op == 0:
                v = await futs[a % 2]
                log.append(("got", v))
            elif op == 1:
                v = await gen.multi([futs[0], futs[1]])
                log.append(("list", v[0], v[1]))
            elif op == 2:
                v = await gen.multi({"x": futs[0], "y": futs[1]})
                log.append(("dict", v["x"], v["y"]))
            elif op == 3:
                await asyncio.sleep(0)
                log.append("tick")
            elif op == 4:
                v = await _sub_n(futs[a % 2], log)
                log.append(("sub", v))
            elif op == 5:
                raise ValueError(a)
            elif op == 6:
                return a
            elif op == 8:
                _var.set("set-%d-%d" % (i, a))
            elif op == 9:
                log.append(("cv", _var.get()))
            elif op == 10:
                tok = _var.set("tok-%d" % i)
            elif op == 11:
                if tok is None:
                    log.append("no-token")
                else:
                    t, tok = tok, None
                    _var.reset(t)
                    log.append("reset-ok")
        except Exception as e:
            if not in_try:
                raise
            log.append(("caught", type(e).__name__))
        finally:
            if in_try:
                log.append("fin")
        if trace_cv:
            log.append(("cv@", i, _var.get()))
        i += 1
    log.append(("ctx2", _var.get()))
    return "end"


def pre_eq(prog: List[Tuple[int, int]], r0: int, r1: int, e0: bool, e1: bool) -> bool:
    if len(prog) > P.N or not (0 <= r0 <= 2 and 0 <= r1 <= 2):
        return False
    for op, a in prog:
        if not (0 <= op <= 7 and 0 <= a <= 1):
            return False
    return in_shard((prog[0][0] if len(prog) > 0 else 0) + 8 * (1 if e0 else 0))


@harness(
    pre=pre_eq,
    quick=dict(N=2, timeout=140, reach_timeout=60),
    thorough=dict(N=3, timeout=1500, reach_timeout=90),
    nshards=dict(quick=16, thorough=16),
    reach=["caught_in_try", "resumed_after_wait", "future_exception_propagates"],
    units=["gen.coroutine (wrapper)", "gen.Runner.run", "gen.Runner.handle_yield", "gen.convert_yielded",
           "gen._wrap_awaitable", "gen.multi_future", "gen.moment"],
    stubs=["VLoop/FakeAio virtual loop (vp/env.py): callbacks FIFO", "tornado.gen.app_log replaced by a recorder",
           "program instructions: 0 await future a | 1 await list of both | 2 await dict of both | 3 moment (a=0) / "
           "None (a=1) vs asyncio.sleep(0) | 4 await native sub-coroutine awaiting future a | 5 raise ValueError(a) | "
           "6 return a | 7 put the next instruction in try/except Exception/finally (ops 8-11, the context-variable "
           "instructions, are exercised by h_ctx)",
           "schedule: future i completes before the start (0), after the first loop turn (1) or after the second (2), "
           "with a result or a KeyError"],
    outside=["programs longer than N instructions", "more than two external futures", "cancellation of the coroutine",
             "generators garbage-collected while suspended", "yield inside finally"],
)
def h_equiv(prog: List[Tuple[int, int]], r0: int, r1: int, e0: bool, e1: bool):
    saved = gen.app_log
    gen.app_log = _Log()
    try:
        with install() as env:
            tok = _var.set("caller-value")
            try:
                logs = ([], [])
                futs = ([env.aio.create_future(), env.aio.create_future()],
                        [env.aio.create_future(), env.aio.create_future()])

                def complete(i):
                    for fs in futs:
                        if (e0 if i == 0 else e1):
                            fs[i].set_exception(KeyError("f%d" % i))
                        else:
                            fs[i].set_result(100 * (i + 1))

                if r0 == 0:
                    complete(0)
                if r1 == 0:
                    complete(1)
                fg = run_g(prog, futs[0], logs[0])
                fn_ = env.spawn(run_n(prog, futs[1], logs[1]))
                env.run_ready()
                for rnd in (1, 2):
                    if r0 == rnd:
                        complete(0)
                    if r1 == rnd:
                        complete(1)
                    env.run_ready()
                    env.advance(0)
            finally:
                _var.reset(tok)
            og, on = outcome(fg), outcome(fn_)
            assert og[0] != "pending" and on[0] != "pending", "a form never finished: %r / %r" % (og, on)
            assert logs[0] == logs[1], "side-effect traces differ: generator %r, native %r" % (logs[0], logs[1])
            assert og == on, "final states differ: generator %r, native %r" % (og, on)
            if og[0] == "exc":
                eg, en = fg.exception(), fn_.exception()
                assert type(eg) is type(en) and eg.args == en.args, "exceptions differ: %r / %r" % (eg, en)
            assert logs[0][0] == ("ctx", "caller-value"), "caller's context variable not visible inside"
            if any(isinstance(x, tuple) and x[0] == "caught" for x in logs[0]):
                reached("caught_in_try")
            if (r0 > 0 or r1 > 0) and any(isinstance(x, tuple) and x[0] in ("got", "list", "dict", "sub")
                                          for x in logs[0]):
                reached("resumed_after_wait")
            if og == ("exc", "KeyError"):
                reached("future_exception_propagates")
            # exceptions of futures nobody awaited may remain unretrieved; nothing else may escape to the loop
            assert not env.v.exc_contexts, "exception escaped to the loop: %r" % (env.v.exc_contexts,)
    finally:
        gen.app_log = saved


# ----------------------------------------------------------------------------------------------
# Context variables ACROSS RESUMES: the coroutine modifies a ContextVar (set / token = set / reset(token)) before
# and after suspension points (pending future, already-done future, gen.moment / None vs asyncio.sleep(0)); the
# value is read after EVERY instruction and at the end.  Both forms must agree (trace and result/exception):
# in the native form every resume runs in the task's one Context, so a set is visible after the next resume and
# reset() of a pre-suspension token succeeds.
CTX_OPS = ((10, 0), (8, 0), (11, 0), (0, 0), (3, 0))     # T token=set | S set | R reset(token) | W await f0 | M moment


def pre_ctx(prog: List[int], pending: bool, use_none: bool, in_try: bool) -> bool:
    if len(prog) > P.N:
        return False
    for c in prog:
        if not 0 <= c <= 4:
            return False
    return in_shard((prog[0] if len(prog) > 0 else 0) + 5 * (prog[1] if len(prog) > 1 else 0))


@harness(
    pre=pre_ctx,
    quick=dict(N=4, timeout=140, reach_timeout=60),
    thorough=dict(N=5, timeout=1200, reach_timeout=90),
    nshards=dict(quick=25, thorough=25),
    reach=["reset_after_pending_wait", "set_then_moment_then_read", "reset_after_moment"],
    units=["gen.coroutine (wrapper: copy_context, ctx_run)", "gen.Runner.__init__", "gen.Runner.run",
           "gen.Runner.handle_yield (moment branch, pending-future branch `inner`)", "gen.convert_yielded"],
    stubs=["VLoop/FakeAio virtual loop (vp/env.py); VLoop.add_callback copies the current context at scheduling time "
           "(as asyncio call_soon does)",
           "program alphabet: T token = cv.set | S cv.set | R cv.reset(token) (logs no-token when none is held) | "
           "W await future 0 | M gen.moment (use_none: None) vs asyncio.sleep(0); the variable is read and logged "
           "after every instruction and at the end; in_try wraps the LAST instruction in try/except/finally",
           "future 0 is already done before the start or completes after the first loop turn (pending)"],
    outside=["programs longer than N instructions", "several context variables", "contexts of sub-coroutines"],
)
def h_ctx(prog: List[int], pending: bool, use_none: bool, in_try: bool):
    saved = gen.app_log
    gen.app_log = _Log()
    try:
        with install() as env:
            tok = _var.set("caller-value")
            try:
                full = []
                for j, c in enumerate(prog):
                    op = CTX_OPS[0] if c == 0 else CTX_OPS[1] if c == 1 else CTX_OPS[2] if c == 2 else \
                        CTX_OPS[3] if c == 3 else CTX_OPS[4]
                    if op[0] == 3 and use_none:
                        op = (3, 1)
                    if in_try and j == len(prog) - 1:
                        full.append((7, 0))
                    full.append(op)
                logs = ([], [])
                futs = ([env.aio.create_future(), env.aio.create_future()],
                        [env.aio.create_future(), env.aio.create_future()])
                if not pending:
                    for fs in futs:
                        fs[0].set_result(100)
                fg = run_g(full, futs[0], logs[0], True)
                fn_ = env.spawn(run_n(full, futs[1], logs[1], True))
                env.run_ready()
                if pending:
                    for fs in futs:
                        fs[0].set_result(100)
                for _ in range(2):
                    env.run_ready()
                    env.advance(0)
                assert _var.get() == "caller-value", "the coroutine's changes leaked into the caller's context"
            finally:
                _var.reset(tok)
            og, on = outcome(fg), outcome(fn_)
            assert og[0] != "pending" and on[0] != "pending", "a form never finished: %r / %r" % (og, on)
            assert logs[0] == logs[1], "side-effect traces differ: generator %r, native %r" % (logs[0], logs[1])
            assert og == on, "final states differ: generator %r, native %r" % (og, on)
            if og[0] == "exc":
                eg, en = fg.exception(), fn_.exception()
                assert type(eg) is type(en), "exceptions differ: %r / %r" % (eg, en)
            # vacuity witnesses: a suspension point lies between the modification and the read / reset
            ks = list(prog)
            first_w = ks.index(3) if 3 in ks else -1
            for r in range(len(ks)):
                if ks[r] != 2:
                    continue
                held = [t for t in range(r) if ks[t] == 0 and 2 not in ks[t:r] and 0 not in ks[t + 1:r]]
                for t in held:
                    if pending and t < first_w < r:
                        reached("reset_after_pending_wait")
                    if 4 in ks[t:r]:
                        reached("reset_after_moment")
            for m_ in range(len(ks)):
                if ks[m_] == 4 and 1 in ks[:m_]:
                    reached("set_then_moment_then_read")
            assert not env.v.exc_contexts, "exception escaped to the loop: %r" % (env.v.exc_contexts,)
    finally:
        gen.app_log = saved
