"""C19 - Compiled templates produce what the template language defines.

Split at the compile()/exec boundary (the solver cannot see through compile()):
 1. h_parse_sym / h_parse_tok : REAL template._parse + _TemplateReader on symbolic template text
    (free characters over a small alphabet / pooled directive tokens by symbolic index) against a
    reference recursive-descent parser (harness/_text_tmpl.py): same node tree (text byte-for-byte,
    expressions, statements, block structure, tag line numbers, whitespace mode, autoescape setting),
    or both reject and the real ParseError names a line inside the offending construct.
 2. h_ws : REAL filter_whitespace against a character-level reference.
 3. h_gen : REAL Template / DictLoader code generation + exec of the generated code with SYMBOLIC
    expression values (str/int/list) flowing through it, for a pool of concrete templates covering
    every directive; expected output = direct interpretation of each template written as a Python
    function of the values.
"""
from typing import List, Tuple

from vp.api import P, harness, in_shard, reached

from tornado import template as T

from harness._text_tmpl import (compare_parse, ref_escape, ref_filter_whitespace, WS_MODES, PRINT_STUB)

TECHNIQUE = ("CrossHair symbolic execution of the real template scanner/parser on symbolic text, of "
             "filter_whitespace on symbolic text, and of the exec'd generated code on symbolic values")

ALPHA = '{}%#!aend \n"\\\xe9'


def pre_parse_sym(text: str) -> bool:
    if len(text) > P.L:
        return False
    for c in text:
        if c not in ALPHA:
            return False
    k = 0
    if len(text) > 0:
        k = 0 if text[0] == "{" else 1 if text[0] == "\n" else 2
    if len(text) > 1:
        k += 3 * (0 if text[1] == "{" else 1 if text[1] == "%" else 2 if text[1] == "#" else 3)
    return in_shard(k)


@harness(pre=pre_parse_sym, quick=dict(L=5, timeout=150), thorough=dict(L=7, timeout=1400),
         nshards=dict(quick=2, thorough=12),
         reach=["expr_node", "parse_error_line2", "escaped_brace", "triple_curly", "comment"],
         units=["template._parse", "template._TemplateReader.find", "template._TemplateReader.consume",
                "template._TemplateReader.__getitem__", "template._TemplateReader.raise_parse_error"],
         stubs=["template text = free symbolic str over the alphabet %r" % ALPHA,
                "the Template object handed to _parse is a bare namespace (only .autoescape is used)",
                "correct line = any line spanned by the offending construct (tag start..tag end, or "
                "opening tag..EOF for a missing end)"],
         outside=["texts longer than L", "characters outside the alphabet (directive names cannot be "
                  "spelled: see h_parse_tok)"])
def h_parse_sym(text: str):
    """real scanner/parser == reference parser on free symbolic text."""
    r = compare_parse(text)
    if r == "err" and "\n" in text[:2]:
        reached("parse_error_line2")
    if r == "ok":
        if "{{a}}" in text:
            reached("expr_node")
        if text[:3] == "{{!" or text[:3] == "{%!":
            reached("escaped_brace")
        if text[:3] == "{{{":
            reached("triple_curly")
        if text[:2] == "{#":
            reached("comment")


TOK = ["{% if x %}", "{% else %}", "{% end %}", "{% for i in r %}", "{% break %}", "{{ v }}", "\n", "t",
       "{% apply f %}", "{% try %}", "{% except %}", "{% elif y %}", "{% while x %}", "{% continue %}",
       "{% block b %}", "{% finally %}", "{# #}", "{% set a = 1 %}", "{% raw v %}", "{{", "{% bogus %}",
       "{% apply %}", "{% whitespace oneline %}", "{% autoescape None %}", "{% include 'f' %}",
       "{% extends \"g\" %}", "{% comment c %}", "{% module M() %}", "{%", "{{!", " \t ", "{% block %}",
       "{% set %}", "{{ }}", "{% from a import b %}", "{% autoescape e %}", "{%end%}", "{"]


def pre_parse_tok(idx: List[int]) -> bool:
    if len(idx) > P.N:
        return False
    for i in idx:
        if not 0 <= i < P.NT:
            return False
    return in_shard(idx[0] if len(idx) > 0 else 0)


@harness(pre=pre_parse_tok, quick=dict(N=3, NT=12, timeout=100, reach_timeout=100), thorough=dict(N=4, NT=len(TOK), timeout=1400),
         nshards=dict(quick=4, thorough=38),
         reach=["nested_ok", "break_outside_loop", "else_wrong_parent", "missing_end", "break_in_if_in_for"],
         units=["template._parse", "template._TemplateReader"],
         stubs=["template text = concatenation of <= N tokens chosen by symbolic index from %r "
                "(first NT in quick)" % (TOK,),
                "correct line = any line spanned by the offending construct"],
         outside=["more than N tokens", "directive spellings outside the pool"])
def h_parse_tok(idx: List[int]):
    """nesting / intermediate-block / break-outside-loop rules on pooled directive tokens."""
    text = "".join([TOK[i] for i in idx])
    r = compare_parse(text)
    if r == "ok" and len(idx) == 3 and (idx[0] == 0 or idx[0] == 3 or idx[0] == 8 or idx[0] == 9) and idx[2] == 2:
        reached("nested_ok")
    if len(idx) == 1 and idx[0] == 4:
        assert r == "err"
        reached("break_outside_loop")
    if len(idx) >= 2 and (idx[0] == 0 or idx[0] == 3) and idx[1] == 10:
        assert r == "err", "except attached to if/for must be rejected"
        reached("else_wrong_parent")
    if len(idx) == 2 and idx[0] == 6 and idx[1] == 0:
        assert r == "err"
        reached("missing_end")
    if len(idx) == 3 and idx[0] == 3 and idx[1] == 0 and idx[2] == 4:
        reached("break_in_if_in_for")


# Well-nested blocks around break/continue: an optional outer wrapper, <= D opening tokens chosen by
# symbolic index (non-loop AND loop openers), an inner statement, and all the matching {% end %}s, so the
# "missing end" error can never mask the break/continue rule.  A newline may precede the inner statement
# (so the reported line matters).  The text also goes through the real Template() constructor: a
# malformed template must surface as ParseError there, never as a SyntaxError from compile().
OUTER = [("", "", []), ("{% for i in r %}", "{% end %}", ["loop"]), ("{% while x %}", "{% end %}", ["loop"]),
         ("{% for i in r %}{% apply f %}", "{% end %}{% end %}", ["loop", "apply"]),
         ("{% apply f %}{% for i in r %}", "{% end %}{% end %}", ["apply", "loop"])]
OPEN = [("{% if a %}", "{% end %}", "if"), ("{% try %}", "{% finally %}{% end %}", "try"),
        ("{% apply f %}", "{% end %}", "apply"), ("{% block b %}", "{% end %}", "block"),
        ("{% for j in r %}", "{% end %}", "loop"), ("{% while y %}", "{% end %}", "loop")]
INNER = ["{% break %}", "{% continue %}", "{{ v }}", "{% else %}{% break %}"]


def _chain(outer, opens):
    return OUTER[outer][2] + [OPEN[o][2] for o in opens]


def _in_loop(chain):
    """break/continue is legal iff, walking outwards from the statement, a for/while is met before any
    apply (an apply body becomes a nested function) - stated independently of the parser."""
    for k in reversed(chain):
        if k == "loop":
            return True
        if k == "apply":
            return False
    return False


def _nest_legal(outer, opens, inner):
    chain = _chain(outer, opens)
    if inner == 2:
        return True
    if inner == 3:
        # {% else %} must attach to the innermost if/for/while; what follows the else of a LOOP is no
        # longer inside that loop (Python: "break" in a for-else clause belongs to the enclosing loop)
        if not chain or chain[-1] not in ("if", "loop"):
            return False
        if chain[-1] == "loop":
            chain = chain[:-1]
    return _in_loop(chain)


def classify_nest(outer, opens, inner, nl):
    chain = _chain(outer, opens)
    if inner == 3 and chain and chain[-1] == "loop" and not _in_loop(chain[:-1]):
        return "break_in_loop_else"
    return None


def pre_parse_nest(outer: int, opens: List[int], inner: int, nl: bool) -> bool:
    if not (0 <= outer < len(OUTER) and len(opens) <= P.D and 0 <= inner < P.NI):
        return False
    for o in opens:
        if not 0 <= o < len(OPEN):
            return False
    if inner == 3 and len(opens) > 0 and opens[-1] == 1:
        return False          # try/else without except: a Python-level matter, not claimed
    if P.exclude and classify_nest(outer, opens, inner, nl) in P.exclude:
        return False
    return in_shard(outer + len(OUTER) * (opens[0] if len(opens) > 0 else 0))


@harness(pre=pre_parse_nest, quick=dict(D=2, NI=4, timeout=100, reach_timeout=100),
         thorough=dict(D=3, NI=4, timeout=1400),
         nshards=dict(quick=6, thorough=30), classify=classify_nest,
         reach=["break_two_deep_no_loop", "break_under_apply_in_loop", "break_two_deep_in_loop_ok",
                "error_on_line_2", "else_then_break_in_if_in_loop"],
         units=["template._parse", "template._TemplateReader", "template.Template.__init__"],
         stubs=["text = OUTER[outer] + OPEN[o] for o in opens (<= D) + optional newline + INNER[inner] + the "
                "matching closers (well nested, so 'missing end' can never mask the rule); OUTER=%r OPEN=%r "
                "INNER=%r" % ([x[:2] for x in OUTER], [x[:2] for x in OPEN], INNER),
                PRINT_STUB],
         outside=["nesting deeper than D + 2", "openers outside the pool", "try/else without except"])
def h_parse_nest(outer: int, opens: List[int], inner: int, nl: bool):
    """break/continue legality through >= 2 levels of well-nested blocks (decided for the class: every
    combination of openers): real parser == reference parser == the independent loop/apply rule, and the
    public Template() constructor raises ParseError on the statement's line (never SyntaxError)."""
    # block names are made unique per nesting position (duplicate names are outside the claim)
    text = (OUTER[outer][0] + "".join([OPEN[o][0].replace(" b ", " b%d " % k) for k, o in enumerate(opens)])
            + ("\n" if nl else "") + INNER[inner]
            + "".join([OPEN[o][1] for o in reversed(opens)]) + OUTER[outer][1])
    legal = _nest_legal(outer, opens, inner)
    try:
        T.Template(text, name="t.txt")
        made = None
    except T.ParseError as e:
        made = e
    except SyntaxError as e:
        raise AssertionError("Template(%r): %s from compile() instead of ParseError" % (text, type(e).__name__))
    if legal:
        assert made is None, "Template(%r) raised %r" % (text, made)
    else:
        assert made is not None, "malformed %r compiled without ParseError" % (text,)
        want_line = 2 if nl else 1
        assert made.lineno == want_line, "ParseError names line %r, statement is on line %d: %r" % (
            made.lineno, want_line, text)
        if nl:
            reached("error_on_line_2")
    r = compare_parse(text)
    assert (r == "ok") == legal, "%r: parser says %s, loop/apply rule says legal=%r" % (text, r, legal)
    if inner <= 1 and len(opens) == 2 and outer == 0 and opens[0] < 4 and opens[1] < 4:
        assert not legal
        reached("break_two_deep_no_loop")
    chain = _chain(outer, opens)
    if inner <= 1 and not legal and "loop" in chain and "apply" in chain and len(chain) >= 3:
        reached("break_under_apply_in_loop")
    if inner <= 1 and legal and len(opens) == 2:
        reached("break_two_deep_in_loop_ok")
    if inner == 3 and outer == 1 and len(opens) == 1 and opens[0] == 0:
        assert legal
        reached("else_then_break_in_if_in_loop")


# Line numbers after constructs that SPAN LINES.  <= M leading tokens chosen by symbolic index from a pool
# of comments / expressions / directives / escapes / literal text with 0..2 newlines INSIDE them, then a
# final token that is malformed (or a valid tag, whose recorded line is then compared), then an optional
# trailer.  All error tokens but one sit on a single line, so the reference interval is one exact line.
ML = ["{#\n\n#}", "{# #}", "{{ v\n }}", "{{\nv\n}}", "{% set a = (\n1) %}", "{% raw v\n %}", "t\n\nt", "\n",
      "{% if x\n %}t\n{% end\n %}", "{{!\n", "{% comment\n\n %}", "{#\n#}{#\n#}", "{% apply f\n %}{# #}{% end %}",
      "{{{ v\n}}}", "t"]
ERRTOK = ["{% end %}", "{% bogus %}", "{{", "{% else %}", "{{ }}", "{#", "{% break %}", "{% set %}", "{{ w }}",
          "{%\n%}", "{% if y %}", "{%"]
TRAIL = ["", "\n\nt", "\nt{ }\n"]


def pre_parse_lines(pre: List[int], err: int, trail: int) -> bool:
    if not (len(pre) <= P.M and 0 <= err < P.NE and 0 <= trail < P.NTR):
        return False
    for i in pre:
        if not 0 <= i < P.NML:
            return False
    return in_shard(err)


@harness(pre=pre_parse_lines, quick=dict(M=2, NML=10, NE=9, NTR=2, timeout=100, reach_timeout=100),
         thorough=dict(M=3, NML=len(ML), NE=len(ERRTOK), NTR=len(TRAIL), timeout=1400),
         nshards=dict(quick=9, thorough=12),
         reach=["error_after_multiline_comment", "error_after_multiline_expr", "error_on_line_5_or_later",
                "valid_tag_line_after_multiline"],
         units=["template._parse", "template._TemplateReader.consume", "template._TemplateReader.raise_parse_error",
                "template.Template.__init__"],
         stubs=["text = ML[i] for i in pre (<= M) + ERRTOK[err] + TRAIL[trail]; ML=%r ERRTOK=%r TRAIL=%r "
                "(first NML / NE / NTR entries in quick)" % (ML, ERRTOK, TRAIL), PRINT_STUB],
         outside=["more than M leading tokens", "constructs outside the pools"])
def h_parse_lines(pre: List[int], err: int, trail: int):
    """ParseError names the line the malformed construct is really on, after comments / expressions /
    directives / text that span several lines (and valid tags record their own line)."""
    head = "".join([ML[i] for i in pre])
    text = head + ERRTOK[err] + TRAIL[trail]
    line = 1 + head.count("\n")              # the line the final token starts on, counted independently
    r = compare_parse(text)
    if err <= 7:
        # single-line malformed token: exact line, through the public constructor as well
        assert r == "err", "malformed %r accepted" % (text,)
        try:
            T.Template(text, name="t.txt")
            made = None
        except T.ParseError as e:
            made = e
        assert made is not None and made.lineno == line, \
            "ParseError names line %r, the malformed tag is on line %d of %r" % (
                made.lineno if made else None, line, text)
        if len(pre) > 0 and pre[-1] == 0:
            reached("error_after_multiline_comment")
        if len(pre) > 0 and (pre[-1] == 2 or pre[-1] == 3):
            reached("error_after_multiline_expr")
        if line >= 5:
            reached("error_on_line_5_or_later")
    if err == 8 and r == "ok" and line >= 3:
        reached("valid_tag_line_after_multiline")


WSA = " \t\nab<"


def pre_ws(mode: int, text: str) -> bool:
    if not (0 <= mode <= 2 and len(text) <= P.L):
        return False
    for c in text:
        if c not in WSA:
            return False
    return in_shard(mode)


@harness(pre=pre_ws, quick=dict(L=4, timeout=120), thorough=dict(L=6, timeout=1400),
         nshards=dict(quick=3, thorough=3), reach=["newline_run", "space_run"],
         units=["template.filter_whitespace"],
         stubs=["text over the alphabet %r (whitespace = space, tab, newline)" % WSA],
         outside=["other whitespace characters (\\r \\f \\v, Unicode spaces): the documentation does not "
                  "define their treatment", "texts longer than L"])
def h_ws(mode: int, text: str):
    """filter_whitespace(mode, text) == character-level reference for all / single / oneline."""
    m = WS_MODES[mode]
    got = T.filter_whitespace(m, text)
    want = ref_filter_whitespace(m, text)
    if mode == 1 and text[:3] == " \n ":
        reached("newline_run")
    if mode == 2 and text[:2] == "  ":
        reached("space_run")
    assert got == want, "filter_whitespace(%r, %r) = %r, reference %r" % (m, text, got, want)


# ----------------------------------------------------------------------------------- generation
def _wrap(b):
    return b"[" + b + b"]"


E = ref_escape


def _t_for_break(s, n, r):
    out = ""
    for i in range(4):
        if i == n:
            break
        if i == 1:
            continue
        out += str(i)
    return out


def _t_while(s, n, r):
    out = ""
    i = 0
    while i < n:
        if i == 2:
            break
        out += str(i)
        i += 1
    return out


# (files, main name, expected(s, n, r) -> str)
GEN = [
    ({"m": "a{{ s }}b"}, lambda s, n, r: "a" + E(s) + "b"),
    ({"m": "{% raw s %}|{{ n }}"}, lambda s, n, r: s + "|" + str(n)),
    ({"m": "{% set y = n + 1 %}{{ y }}"}, lambda s, n, r: str(n + 1)),
    ({"m": "{% if n > 1 %}A{% elif n == 1 %}B{{ s }}{% else %}C{% end %}D"},
     lambda s, n, r: ("A" if n > 1 else "B" + E(s) if n == 1 else "C") + "D"),
    ({"m": "{% for i in range(n) %}{{ i }},{% end %}"},
     lambda s, n, r: "".join([str(i) + "," for i in range(n)])),
    ({"m": "{% for c in s %}[{{ c }}]{% end %}"}, lambda s, n, r: "".join(["[" + E(c) + "]" for c in s])),
    ({"m": "{% for i in range(4) %}{% if i == n %}{% break %}{% end %}{% if i == 1 %}{% continue %}{% end %}"
           "{{ i }}{% end %}"}, _t_for_break),
    ({"m": "{% set i = 0 %}{% while i < n %}{% if i == 2 %}{% break %}{% end %}{{ i }}{% set i = i + 1 %}"
           "{% end %}"}, _t_while),
    ({"m": "{% try %}{{ 1 // n }}{% except ZeroDivisionError %}Z{% else %}E{% finally %}F{% end %}"},
     lambda s, n, r: "ZF" if n == 0 else str(1 // n) + "EF"),
    ({"m": "{% apply wrap %}a{{ s }}{% end %}!"}, lambda s, n, r: "[a" + E(s) + "]!"),
    ({"m": "{% apply wrap %}{% if n %}1{% else %}{{ s }}{% end %}{% end %}"},
     lambda s, n, r: "[" + ("1" if n else E(s)) + "]"),
    ({"m": "a{# {{ s }} #}b{% comment {{ s }} %}c"}, lambda s, n, r: "abc"),
    ({"m": "{{!x}} {%!y%} {#!z#}{{ n }}"}, lambda s, n, r: "{{x}} {%y%} {#z#}" + str(n)),
    ({"m": "{{{ s }}}"}, lambda s, n, r: "{" + E(s) + "}"),
    ({"m": "q\"'\\\n\t\xe9€{ }%#}}{{ n }}\\n"}, lambda s, n, r: "q\"'\\\n\t\xe9€{ }%#}}" + str(n) + "\\n"),
    ({"m": "{% autoescape None %}{{ s }}"}, lambda s, n, r: s),
    ({"m": "{% whitespace oneline %}a \n b{{ s }}  c"}, lambda s, n, r: "a b" + E(s) + " c"),
    ({"m.html": " a  \n  b {{ s }}"}, lambda s, n, r: " a\nb " + E(s)),
    ({"m.html": "<pre>a  \n b</pre>{{ n }}"}, lambda s, n, r: "<pre>a  \n b</pre>" + str(n)),
    ({"m": "A{% include 'b' %}C", "b": "{{ s }}{% if n %}y{% end %}"},
     lambda s, n, r: "A" + E(s) + ("y" if n else "") + "C"),
    ({"m": "{% extends 'base' %}{% block t %}child{{ n }}{% end %}junk",
      "base": "<{% block t %}base{{ s }}{% end %}|{% block u %}u{{ s }}{% end %}>"},
     lambda s, n, r: "<child" + str(n) + "|u" + E(s) + ">"),
    ({"m": "{% extends 'mid' %}{% block u %}M{{ s }}{% end %}",
      "mid": "{% extends 'base' %}{% block t %}mid{% end %}",
      "base": "<{% block t %}base{% end %}|{% block u %}u{% end %}>"},
     lambda s, n, r: "<mid|M" + E(s) + ">"),
    ({"m": "{% import operator %}{{ operator.add(n, 1) }}{% from operator import mul %}{{ mul(n, 2) }}"},
     lambda s, n, r: str(n + 1) + str(n * 2)),
    ({"m": "{% for v in r %}{% if v %}{{ v }}{% else %}-{% end %}{% end %}."},
     lambda s, n, r: "".join([(str(v) if v else "-") for v in r]) + "."),
    ({"m": "{% for v in r %}{{ v }}{% else %}E{% end %}"},
     lambda s, n, r: "".join([str(v) for v in r]) + "E"),
    ({"m": "{% try %}a{{ s }}{% finally %}b{% end %}"}, lambda s, n, r: "a" + E(s) + "b"),
    ({"m": "{{ s.encode('utf-8') }}{{ n == 1 }}{{ None }}"}, lambda s, n, r: E(s) + str(n == 1) + "None"),
    ({"m": "{% block a %}x{% block b %}{{ s }}{% end %}y{% end %}"}, lambda s, n, r: "x" + E(s) + "y"),
    ({"m": "{% if n %}{% for i in range(n) %}{% apply wrap %}{{ i }}{% end %}{% end %}{% else %}0{% end %}"},
     lambda s, n, r: "".join(["[" + str(i) + "]" for i in range(n)]) if n else "0"),
    ({"m": "{% raw len(s) %}{% set t = s + s %}{{ t }}"}, lambda s, n, r: str(len(s)) + E(s + s)),
]


def pre_gen(ti: int, s: str, n: int, r: List[int]) -> bool:
    if not (0 <= ti < len(GEN) and len(s) <= P.L and 0 <= n <= 3 and len(r) <= P.R):
        return False
    for c in s:
        if 0xD800 <= ord(c) <= 0xDFFF:
            return False
    for v in r:
        if not 0 <= v <= 2:
            return False
    return in_shard(ti)


@harness(pre=pre_gen, quick=dict(L=1, R=2, timeout=120, reach_timeout=100), thorough=dict(L=2, R=3, timeout=400),
         nshards=dict(quick=len(GEN), thorough=len(GEN)),
         reach=["escaped_value", "extends_override", "included", "loop_broken"],
         units=["template.Template.__init__", "template.Template.generate", "template.Template._generate_python",
                "template._CodeWriter", "template._File.generate", "template._Text.generate",
                "template._Expression.generate", "template._ControlBlock.generate",
                "template._IntermediateControlBlock.generate", "template._ApplyBlock.generate",
                "template._NamedBlock.generate", "template._IncludeBlock.generate",
                "template.DictLoader.load", "the generated code (exec'd, traced by CrossHair)"],
         stubs=[PRINT_STUB, "template texts are CONCRETE (pool of %d, every directive except module); the values "
                "s (str <= L, no lone surrogates), n (0..3), r (list of 0..2, len <= R) are symbolic" % len(GEN),
                "expected output = hand-written direct interpretation of each pool template"],
         outside=["symbolic template text through compile()", "{% module %}", "file-system Loader",
                  "arbitrary Python expressions"])
def h_gen(ti: int, s: str, n: int, r: List[int]):
    """generate() output == direct interpretation, symbolic values through the generated code."""
    files, want_fn = GEN[ti]
    main = list(files)[0]
    loader = T.DictLoader(files, namespace={"wrap": _wrap})
    out = loader.load(main).generate(s=s, n=n, r=r)
    want = want_fn(s, n, r).encode("utf-8")
    if s == "<" and b"&lt;" in out:
        reached("escaped_value")
    if ti == 20:
        reached("extends_override")
    if ti == 19:
        reached("included")
    if ti == 6 and n == 2:
        reached("loop_broken")
    assert type(out) is bytes
    assert out == want, "template %r generated %r, direct interpretation gives %r" % (files, out, want)
