"""Handler rig shared by the `sec` batch (C23/C24/C26/C27/C28).

ENVIRONMENT STUBS (part of every claim that uses them):
* RecConn        recording HTTPConnection: write_headers/write/finish return done futures and
                 record (start_line, headers, chunks, finished).  No wire formatting.
* make_request   real httputil.HTTPServerRequest over a RecConn (start_line given directly;
                 the request-line/URI grammar is C01's claim, not repeated here).
* make_app       real tornado.web.Application with request logging switched off
                 (log_function no-op) so that "%s" formatting of symbolic values in the access
                 log does not realise them.
* FixedTime     tornado.web.time / tornado.httputil.time replaced by a settable constant clock
                 (Date header / request start time are not under test).
* QuietMixin     overrides the documented hook RequestHandler.log_exception with a no-op
                 (logging is not part of the observed response).
"""
import warnings

from tornado import httputil, web
from tornado.concurrent import Future

warnings.simplefilter("ignore", DeprecationWarning)


class FixedTime:
    """Stand-in for the `time` module inside tornado.web / tornado.httputil: time() is a settable
    value (CrossHair models the real time.time() as a fresh symbolic float on every call, which makes
    the Date header formatting explode).  Everything else delegates to the real module."""

    def __init__(self, now=1600000000):
        self.now = now

    def time(self):
        return self.now

    def __getattr__(self, k):
        import time as _t
        return getattr(_t, k)


CLOCK = FixedTime()
web.time = CLOCK
httputil.time = CLOCK


def _done():
    f = Future()
    f.set_result(None)
    return f


class RecConn:
    """Recording connection object (HTTPConnection interface used by RequestHandler)."""

    def __init__(self):
        self.start_line = None
        self.headers = None
        self.chunks = []
        self.finished = False
        self.close_callback = None
        self.context = None

    def set_close_callback(self, cb):
        self.close_callback = cb

    def write_headers(self, start_line, headers, chunk=None):
        assert self.start_line is None, "headers written twice"
        self.start_line = start_line
        self.headers = headers
        if chunk:
            self.chunks.append(chunk)
        return _done()

    def write(self, chunk):
        assert self.start_line is not None, "body before headers"
        assert not self.finished, "write after finish"
        if chunk:
            self.chunks.append(chunk)
        return _done()

    def finish(self):
        assert not self.finished, "finish twice"
        self.finished = True

    # observations
    @property
    def status(self):
        return self.start_line.code if self.start_line is not None else None

    def body(self):
        return b"".join(self.chunks)

    def header(self, name):
        return self.headers.get(name) if self.headers is not None else None

    def header_list(self, name):
        return self.headers.get_list(name) if self.headers is not None else []


def make_app(handlers=None, **settings):
    settings.setdefault("log_function", lambda handler: None)
    return web.Application(handlers or [], **settings)


def make_request(method, uri, headers=None, body=b"", version="HTTP/1.1", conn=None):
    conn = conn if conn is not None else RecConn()
    h = httputil.HTTPHeaders()
    h["Host"] = "example.com"
    for k, v in (headers or []):
        h[k] = v          # no validation: any str (superset of what the HTTP/1 parser delivers)
    req = httputil.HTTPServerRequest(
        headers=h, body=body, connection=conn,
        start_line=httputil.RequestStartLine(method, uri, version))
    return req, conn


class QuietMixin:
    def log_exception(self, typ, value, tb):  # documented override point
        self._sec_exc = value
