"""Shared helpers for the HTTP/1.x input-side harnesses (C01, C04, C05)  [agent: httpin].

* RecConn / Rec      recording HTTPServerConnectionDelegate / HTTPMessageDelegate
* LogTrap            captures tornado.application / tornado.general records >= WARNING
* percent-format model: CrossHair's stock model of `"fmt" % args` REALISES symbolic arguments
  (a fork per concrete value => rejection paths that build an error message from the offending
  header value would enumerate every string).  When this module is imported inside the CrossHair
  worker, the model is replaced by one that returns the *unformatted* format string whenever an
  argument is symbolic (exact formatting otherwise).  Only exception / log message TEXTS are
  built that way in the code driven here and no oracle looks at message text.  (ENGINE ASSUMPTION,
  listed in every harness' stubs as FMT.)  Plain replay is unaffected (CrossHair not loaded).
"""
import logging
import sys

from tornado import httputil

FMT = ("CrossHair model of str %-formatting replaced: with a symbolic argument the format string is "
       "returned unformatted (only exception/log message texts are built this way; never inspected)")


def _under_worker() -> bool:
    m = sys.modules.get("__main__")
    spec = getattr(m, "__spec__", None)
    return bool(spec is not None and spec.name == "vp.worker")


def _install_fmt_model():
    import crosshair.core_and_libs  # noqa: F401
    from crosshair import core
    from crosshair.tracers import NoTracing
    from crosshair.util import CrossHairValue
    from crosshair.core import deep_realize

    def _is_sym(x, depth=0):
        if isinstance(x, CrossHairValue):
            return True
        if depth < 2 and type(x) in (tuple, list):
            for i in x:
                if _is_sym(i, depth + 1):
                    return True
        if isinstance(x, BaseException):
            for i in x.args:
                if _is_sym(i, depth + 1):
                    return True
        return False

    def _str_percent_format_nosym(self, other):
        if not isinstance(self, str):
            raise TypeError
        with NoTracing():
            sym = _is_sym(other)
            selfsym = isinstance(self, CrossHairValue)
        if sym and not selfsym:
            return self
        return self.__mod__(deep_realize(other))

    core._PATCH_REGISTRATIONS[str.__mod__] = _str_percent_format_nosym


if _under_worker():
    _install_fmt_model()


class LogTrap:
    """Collects (logger name, level, msg) of records >= WARNING from tornado's loggers."""

    def __init__(self):
        self.records = []
        outer = self

        class H(logging.Handler):
            def emit(self, record):
                outer.records.append((record.name, record.levelno, record.msg,
                                      record.exc_info[0].__name__ if record.exc_info else None))

        self.h = H(level=logging.WARNING)
        self.saved = []

    def __enter__(self):
        for n in ("tornado.application", "tornado.general", "tornado.access"):
            lg = logging.getLogger(n)
            self.saved.append((lg, lg.propagate, lg.level))
            lg.addHandler(self.h)
            lg.propagate = False
        return self

    def __exit__(self, *exc):
        for lg, prop, lvl in self.saved:
            lg.removeHandler(self.h)
            lg.propagate = prop
        return False

    def uncaught(self):
        return [r for r in self.records if r[1] >= logging.ERROR]


class Rec(httputil.HTTPMessageDelegate):
    """Recording message delegate.  events: ('H', start_line, [(name, value)...]) / ('D', bytes) /
    ('F',) / ('C',)."""

    def __init__(self, owner, conn):
        self.owner = owner
        self.conn = conn
        self.events = []
        owner.events_by_req.append(self.events)

    def headers_received(self, start_line, headers):
        self.events.append(("H", tuple(start_line), list(headers.get_all())))
        self.owner.log.append("H")
        hook = self.owner.on_headers
        if hook is not None:
            return hook(self, start_line, headers)
        return None

    def data_received(self, chunk):
        self.events.append(("D", bytes(chunk)))
        self.owner.log.append("D")
        hook = self.owner.on_data
        if hook is not None:
            return hook(self, chunk)
        return None

    def finish(self):
        self.events.append(("F",))
        self.owner.log.append("F")
        hook = self.owner.on_finish
        if hook is not None:
            hook(self)

    def on_connection_close(self):
        self.events.append(("C",))
        self.owner.log.append("C")


class RecConn(httputil.HTTPServerConnectionDelegate):
    def __init__(self, on_headers=None, on_data=None, on_finish=None):
        self.events_by_req = []
        self.delegates = []
        self.log = []
        self.closed = 0
        self.on_headers = on_headers
        self.on_data = on_data
        self.on_finish = on_finish

    def start_request(self, server_conn, request_conn):
        d = Rec(self, request_conn)
        self.delegates.append(d)
        return d

    def on_close(self, server_conn):
        self.closed += 1


def body_of(events):
    return b"".join(e[1] for e in events if e[0] == "D")


def count(events, kind):
    return sum(1 for e in events if e[0] == kind)


# --------------------------------------------------------------------------------------------
# Structured stream: header blocks are handed over PRE-DELIMITED (the read_until_regex contract of
# BaseIOStream is C11's subject), each followed by its own body buffer on which the real body
# readers operate (read_bytes / read_until).  Bytes of a body that the protocol code leaves
# unread when it asks for the next header block = framing desynchronisation (`desync`).
from tornado.concurrent import Future as _Future  # noqa: E402
from tornado.iostream import StreamClosedError as _SCE, UnsatisfiableReadError as _URE  # noqa: E402
from vp.fakestream import FakeStream  # noqa: E402

HDR_STREAM = ("HdrStream (harness/_httpin.py) over vp.fakestream.FakeStream: a header block is returned "
              "pre-delimited by read_until_regex (honouring max_bytes as BaseIOStream does: C11), the body "
              "readers then work on that message's body bytes; partial reads return min(n, seg, available)")


class HdrStream(FakeStream):
    def __init__(self, io_loop, msgs, eof=True, seg=None):
        FakeStream.__init__(self, io_loop, b"", eof=eof, seg=seg)
        self.msgs = list(msgs)
        self.desync = False
        self.hdr_reads = 0
        self.hdr_max = []

    def read_until_regex(self, regex, max_bytes=None):
        assert regex == b"\r?\n\r?\n", regex
        assert self._pending is None, "Already reading"
        self.hdr_max.append(max_bytes)
        if len(self.buf) > 0:
            self.desync = True
            self.close()
            fut = _Future()
            fut.set_exception(_SCE())
            fut.exception()
            return fut
        if self._closed or not self.msgs:
            return FakeStream.read_until_regex(self, regex, max_bytes)
        hdr, body = self.msgs.pop(0)
        self.hdr_reads += 1
        fut = _Future()
        if max_bytes is not None and len(hdr) > max_bytes:
            e = _URE("delimiter not found within %d bytes" % max_bytes)
            self.close(exc=e)
            fut.set_exception(e)
            fut.exception()
            return fut
        self.buf = body
        self.read_log.append(hdr)
        fut.set_result(hdr)
        return fut


def respond_ok(rec):
    """on_finish hook: the application answers 200 with an empty body and finishes."""
    rec.conn.write_headers(httputil.ResponseStartLine("HTTP/1.1", 200, "OK"),
                           httputil.HTTPHeaders({"Content-Length": "0"}))
    rec.conn.finish()
