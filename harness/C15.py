"""C15 - WebSocket peers that violate the protocol are cut off without bad data.

Real code driven: tornado.websocket.WebSocketProtocol13._receive_frame_loop/_receive_frame/_handle_message/
_abort/close and _PerMessageDeflateDecompressor.decompress over FakeStream on the virtual loop.
Oracle: `ref_run`, a reference validator/reassembler written from the property statement (RFC 6455 5.2-5.5,
5.6 UTF-8, RFC 7692 6): it marks the FIRST violating frame; the real connection must then be closed, nothing
derived from that frame or later ones delivered, and every message completed before it delivered intact.
"""
from typing import List, Tuple

from vp.api import P, harness, in_shard, reached
from vp.env import install
from vp.fakestream import FakeStream

from harness import _ws_rig as R

KNOWN = (1, 2, 8, 9, 10)
# pools by symbolic index (tier parameter POOL): quick = one representative per class of reserved / unknown values
OPS = {0: [0, 1, 2, 3, 9, 10, 11], 1: [0, 1, 2, 3, 4, 5, 6, 7, 9, 10, 11, 12, 13, 14, 15]}
RSVS = {0: [0, 4, 1, 2, 5], 1: [0, 4, 1, 2, 3, 5, 6, 7]}


def utf8_ok(bs):
    """RFC 3629 well-formedness over a sequence of ints (Unicode table 3-7)."""
    i = 0
    n = len(bs)
    while i < n:
        c = bs[i]
        if c < 0x80:
            i += 1
            continue
        if c < 0xC2:
            return False
        if c <= 0xDF:
            need, lo, hi = 1, 0x80, 0xBF
        elif c == 0xE0:
            need, lo, hi = 2, 0xA0, 0xBF
        elif c == 0xED:
            need, lo, hi = 2, 0x80, 0x9F
        elif c <= 0xEF:
            need, lo, hi = 2, 0x80, 0xBF
        elif c == 0xF0:
            need, lo, hi = 3, 0x90, 0xBF
        elif c <= 0xF3:
            need, lo, hi = 3, 0x80, 0xBF
        elif c == 0xF4:
            need, lo, hi = 3, 0x80, 0x8F
        else:
            return False
        if i + need > n - 1:
            return False          # truncated sequence
        c1 = bs[i + 1]
        if not (lo <= c1 <= hi):
            return False
        for k in range(2, need + 1):
            if not (0x80 <= bs[i + k] <= 0xBF):
                return False
        i += need + 1
    return True


def ref_run(comp, mm, open_msg, nz, frames):
    """Reference receiver.  frames: list of (fin, rsv, opcode, wire_payload, long_form).
    open_msg: None or [opcode, compressed, [wire fragments]] (state before the first frame).
    Returns (delivered, viol_index or None, reason): delivered = list of (opcode, payload bytes AFTER
    decompression) completed before the first violation."""
    delivered = []
    cur = open_msg
    for idx, (fin, rsv, opcode, payload, long_form) in enumerate(frames):
        control = opcode >= 8
        if rsv & 3:
            return delivered, idx, "rsv2/3"
        if rsv & 4 and (not comp or control or opcode == 0):
            return delivered, idx, "rsv1 without extension / on control or continuation frame"
        if opcode not in KNOWN and opcode != 0:
            return delivered, idx, "unknown opcode"
        if control:
            if not fin:
                return delivered, idx, "fragmented control frame"
            if long_form or len(payload) > 125:
                return delivered, idx, "oversized control frame"
            continue
        if opcode == 0:
            if cur is None:
                return delivered, idx, "continuation without a start"
            cur[2].append(payload)
        else:
            if cur is not None:
                return delivered, idx, "new data frame inside a fragmented message"
            cur = [opcode, bool(rsv & 4), [payload]]
        total = 0
        for f in cur[2]:
            total += len(f)
        if total > mm:
            return delivered, idx, "message above max_message_size"
        if fin:
            data = b"".join(cur[2])
            if cur[1]:
                rep = data[1]
                body = data[2:]
                data = body if rep == 0 else (body + body if rep == 1 else body + body + body)
                if len(data) > mm:
                    return delivered, idx, "message above max_message_size after decompression"
            if cur[0] == 1 and not utf8_ok(data):
                return delivered, idx, "invalid UTF-8 in a text message"
            delivered.append((cur[0], data))
            cur = None
    return delivered, None, None


def classify_viol(comp: int, prestate: int, fl: int, mm: int, fin: bool, rsv: int, opcode: int, form: int, n: int,
                  rep: int, pb: Tuple[int, int, int]):
    if not fin and RSVS[1][rsv] in (0, 4) and OPS[1][opcode] in (3, 4, 5, 6, 7) and prestate < 2 and P.POOL == 1:
        return "unknown_opcode_nonfinal_abort_deferred"
    if not fin and RSVS[0][rsv] in (0, 4) and OPS[0][opcode] == 3 and prestate < 2 and P.POOL == 0:
        return "unknown_opcode_nonfinal_abort_deferred"
    return None


def pre_viol(comp: int, prestate: int, fl: int, mm: int, fin: bool, rsv: int, opcode: int, form: int, n: int,
             rep: int, pb: Tuple[int, int, int]) -> bool:
    for i in range(3):
        if not 0 <= pb[i] < 128:
            return False
    if not (0 <= comp <= 1 and 0 <= prestate <= 3 and 2 <= mm <= 4 and 0 <= rsv < len(RSVS[P.POOL])
            and 0 <= opcode < len(OPS[P.POOL]) and 0 <= form <= 2 and 0 <= n <= P.L and 0 <= rep <= 2
            and 0 <= fl <= 1):
        return False
    if prestate == 3 and comp == 0:
        return False
    if prestate < 2 and fl != 0:
        return False            # fl = payload length of the already received first fragment (pre-states 2, 3)
    if not in_shard(prestate + 4 * comp + 8 * fl):
        return False
    cop = OPS[P.POOL][R.pick(opcode, len(OPS[P.POOL]))]
    crsv = RSVS[P.POOL][R.pick(rsv, len(RSVS[P.POOL]))]
    starts_compressed = comp == 1 and cop in (1, 2) and (crsv & 4) != 0
    if rep != 0 and not starts_compressed:
        return False
    if cop >= 8 and form == 0:
        # reference exempts control frames from max_message_size; tornado counts them (see `outside`)
        openlen = fl if prestate == 2 else 2 * fl if prestate == 3 else 0
        if n + openlen > mm:
            return False
    if classify_viol(comp, prestate, fl, mm, fin, rsv, opcode, form, n, rep, pb) in P.exclude:
        return False
    # reach twins only: steer the witness search into the neighbourhood of the tag (a subset of the bounds above)
    if P.reach == "rsv1_on_control_with_compression":
        return comp == 1 and crsv == 4 and cop >= 8 and fin and form == 0
    if P.reach == "too_big_after_decompression":
        return starts_compressed and rep > 0
    if P.reach == "too_big_fragmented":
        return prestate >= 2 and cop == 0 and fl == 1
    if P.reach == "new_data_after_empty_fragment":
        return prestate >= 2 and fl == 0 and cop in (1, 2) and form == 0 and (crsv == 0 or (crsv == 4 and comp == 1))
    if P.reach == "continuation_after_empty_fragment_delivered":
        return prestate >= 2 and fl == 0 and cop == 0 and crsv == 0 and fin and form == 0
    if P.reach == "continuation_without_start":
        return prestate < 2 and cop == 0 and crsv == 0
    if P.reach == "unknown_opcode":
        return cop in (3, 11) and crsv == 0
    return True


@harness(
    pre=pre_viol,
    quick=dict(L=2, POOL=0, timeout=200, reach_timeout=60),
    thorough=dict(L=3, POOL=1, timeout=1400, reach_timeout=120),
    nshards=dict(quick=16, thorough=16),
    reach=["rsv1_on_control_with_compression", "too_big_after_decompression", "too_big_fragmented",
           "valid_then_later_delivered", "continuation_without_start", "unknown_opcode",
           "new_data_after_empty_fragment", "continuation_after_empty_fragment_delivered"],
    classify=classify_viol,
    units=["websocket.WebSocketProtocol13._receive_frame", "websocket.WebSocketProtocol13._handle_message",
           "websocket.WebSocketProtocol._abort", "websocket.WebSocketProtocol13.close",
           "websocket._PerMessageDeflateDecompressor.decompress"],
    stubs=["VLoop/FakeAio virtual loop; FakeStream (read contracts = C11)",
           "tornado.websocket.zlib -> _ws_rig.ZShim (tagged stand-in; second byte = repeat count 0..2 so a peer can "
           "send a message that EXPANDS past max_message_size; honours max_length/unconsumed_tail)",
           "tornado.websocket.struct -> pure-Python B/H/Q shim; _websocket_mask -> python version (frames unmasked)",
           "pre-state through the real loop: 0 fresh, 1 one complete message already delivered (compressed if "
           "compression is on), 2 inside an uncompressed fragmented text message, 3 inside a compressed fragmented "
           "binary message - in both the already received first fragment (FIN=0) carries fl in {0, 1} payload units "
           "(uncompressed: b'' or b'a'; compressed: b'' or the 2-byte deflate stand-in header, the rest of the "
           "compressed stream then travels in the first continuation frame), so a fragmented message whose buffered "
           "payload is EMPTY is a pre-state; then ONE arbitrary frame (fin, 3 RSV bits, opcode 0..15 except 8, length form 7/16/64, "
           "0..L symbolic ASCII payload bytes, expansion count), then a concrete valid tail (completes an open "
           "message, then a text message 'L8')",
           "max_message_size symbolic in 2..4", "quick: opcode from {0,1,2,3,9,10,11} and RSV from {0,4,1,2,5} by symbolic index; thorough: all 15 opcodes (8 = close is C16) and all 8 RSV combinations"],
    outside=["close frames (C16)", "control frames whose payload (plus the bytes of an open fragmented message) "
             "exceeds max_message_size: tornado counts control payloads against max_message_size and answers 1009; "
             "excluded by pre, reported as an observation",
             "corrupt deflate data (zlib.error)", "invalid UTF-8 (h_utf8)", "masked frames (C14 h_rx_len)"],
)
def h_viol(comp: int, prestate: int, fl: int, mm: int, fin: bool, rsv: int, opcode: int, form: int, n: int,
           rep: int, pb: Tuple[int, int, int]):
    R.apply_shims(symbolic_mask=False)
    with install() as env:
        st = FakeStream(env.loop)
        p, rec = R.make_proto(env, st, comp=comp, max_message_size=mm)
        task = env.spawn(p._receive_frame_loop())
        nz = 0
        prior = []
        open_msg = None
        if prestate == 1:
            if comp:
                st.feed(R.frame(True, 4, 2, R.z_compress(0, b"")))
                nz = 1
            else:
                st.feed(R.frame(True, 0, 2, b""))
            prior.append((2, b""))
        pending = b""        # rest of the open message's compressed stream: goes into its first continuation frame
        cfl = R.pick(fl, 2)
        if prestate == 2:
            first = b"a"[:cfl]
            st.feed(R.frame(False, 0, 1, first))
            open_msg = [1, False, [first]]
        elif prestate == 3:
            z = R.z_compress(0, b"")
            first, pending = z[:2 * cfl], z[2 * cfl:]
            st.feed(R.frame(False, 4, 2, first))
            open_msg = [2, True, [first]]
            nz = 1
        env.run_ready()
        assert not st.closed() and rec.msgs == [m for _, m in prior]
        # ---- the arbitrary frame
        crsv = RSVS[P.POOL][R.pick(rsv, len(RSVS[P.POOL]))]
        cop = OPS[P.POOL][R.pick(opcode, len(OPS[P.POOL]))]
        cform = R.pick(form, 3)
        payload = bytes([pb[0], pb[1], pb[2]][:R.pick(n, 4)])
        if comp == 1 and cop in (1, 2) and crsv & 4:
            payload = R.z_compress(nz, payload, rep=R.pick(rep, 3))
        if cop == 0 and open_msg is not None:
            payload, pending = pending + payload, b""
        sym = (fin, crsv, cop, payload, cform != 0)
        # ---- concrete valid tail
        opens = (cop in (1, 2) and not fin) or (open_msg is not None and not (cop == 0 and fin))
        tail = []
        if opens:
            tail.append((True, 0, 0, (pending if open_msg is not None else b"") + b"!", False))
        tail.append((True, 0, 1, b"L8", False))
        delivered, vidx, reason = ref_run(comp, mm, open_msg, nz, [sym] + tail)
        st.feed(R.frame(fin, crsv, cop, payload, form=cform))
        env.run_ready()
        closed_after_frame = st.closed()
        if not st.closed():
            for f in tail:
                st.feed(R.frame(f[0], f[1], f[2], f[3]))
                env.run_ready()
                if st.closed():
                    break
        got = [(1, m.encode("utf-8")) if isinstance(m, str) else (2, m) for m in rec.msgs]
        if vidx is None:
            reached("valid_then_later_delivered")
            if open_msg is not None and cfl == 0 and cop == 0 and fin:
                reached("continuation_after_empty_fragment_delivered")
            assert not st.closed() and not task.done(), "valid sequence but the connection was aborted"
            assert got == prior + delivered, "delivered %r, reference %r" % (got, prior + delivered)
        else:
            if reason.startswith("rsv1") and comp and cop >= 8 and crsv == 4 and fin and cform == 0:
                reached("rsv1_on_control_with_compression")
            if reason == "message above max_message_size after decompression":
                reached("too_big_after_decompression")
            if reason == "message above max_message_size" and open_msg is not None and vidx == 0:
                reached("too_big_fragmented")
            if reason == "continuation without a start":
                reached("continuation_without_start")
            if reason == "new data frame inside a fragmented message" and vidx == 0 and cfl == 0:
                reached("new_data_after_empty_fragment")
            if reason == "unknown opcode":
                reached("unknown_opcode")
            assert got == prior + delivered, \
                "violation (%s at frame %d): delivered %r but only %r completed before it" % (
                    reason, vidx, got, prior + delivered)
            assert st.closed(), "violation (%s) but the connection is still open" % reason
            if vidx == 0:
                assert closed_after_frame, \
                    "violation (%s): connection not aborted when the violating frame was received" % reason
        assert not env.v.exc_contexts and not rec.logged, "exception escaped: %r %r" % (env.v.exc_contexts, rec.logged)


# ----------------------------------------------------------------------------------------------
# UTF-8: a text message of 0..3 arbitrary bytes, in one frame or split at any position into two fragments,
# compressed or not, optionally with a ping between the fragments.

# CrossHair's model of bytes.decode("utf-8") accepts UTF-16 surrogates encoded as ED A0..BF xx (the real codec
# rejects them) even for concrete data, which shows up as non-replaying counterexamples; those byte pairs are
# excluded (listed under `outside`).
def pre_utf8(comp: int, split: bool, cut: int, ping: bool, n: int, pb: Tuple[int, int, int]) -> bool:
    for i in range(3):
        if not 0 <= pb[i] <= 255:
            return False
    if pb[0] == 0xED and pb[1] >= 0xA0:
        return False
    if pb[1] == 0xED and pb[2] >= 0xA0:
        return False
    if not (0 <= comp <= 1 and 0 <= n <= P.L and 0 <= cut <= n):
        return False
    if not in_shard(comp + 2 * (1 if split else 0) + 4 * (1 if ping else 0)):
        return False
    if not split and (cut != 0 or ping):
        return False
    return True


@harness(
    pre=pre_utf8,
    quick=dict(L=3, timeout=150, reach_timeout=60),
    thorough=dict(L=3, timeout=600, reach_timeout=120),
    nshards=dict(quick=8, thorough=8),
    reach=["invalid_utf8_aborted", "multibyte_split_across_fragments_delivered"],
    units=["websocket.WebSocketProtocol13._receive_frame", "websocket.WebSocketProtocol13._handle_message"],
    stubs=["as h_viol; payload bytes are 3 symbolic ints 0..255, length and cut concrete per path",
           "reference = RFC 3629 well-formedness table written over ints (utf8_ok)"],
    outside=["text messages longer than 3 bytes", "encoded UTF-16 surrogates ED A0..BF xx (CrossHair's utf-8 decoder "
             "model accepts them, the real codec does not: engine artefact, excluded by pre)"],
)
def h_utf8(comp: int, split: bool, cut: int, ping: bool, n: int, pb: Tuple[int, int, int]):
    R.apply_shims(symbolic_mask=False)
    with install() as env:
        st = FakeStream(env.loop)
        p, rec = R.make_proto(env, st, comp=comp)
        task = env.spawn(p._receive_frame_loop())
        cn = R.pick(n, 4)
        ints = [pb[0], pb[1], pb[2]][:cn]
        data = bytes(ints)
        wire_data = R.z_compress(0, data) if comp else data
        off = 2 if comp else 0
        rsv = 4 if comp else 0
        if split:
            ccut = R.pick(cut, 4) + off
            wire = R.frame(False, rsv, 1, wire_data[:ccut])
            if ping:
                wire += R.frame(True, 0, 9, b"")
            wire += R.frame(True, 0, 0, wire_data[ccut:])
        else:
            wire = R.frame(True, rsv, 1, wire_data)
        wire += R.frame(True, 0, 2, b"LATER")
        st.feed(wire)
        env.run_ready()
        if utf8_ok(ints):
            if split and 0 < cut < cn and ints[cut] >= 0x80 and ints[cut - 1] >= 0x80:
                reached("multibyte_split_across_fragments_delivered")
            assert not st.closed(), "valid UTF-8 text message but the connection was aborted"
            assert len(rec.msgs) == 2 and isinstance(rec.msgs[0], str) and rec.msgs[0].encode("utf-8") == data \
                and rec.msgs[1] == b"LATER", "delivered %r for text payload %r" % (rec.msgs, data)
        else:
            reached("invalid_utf8_aborted")
            assert rec.msgs == [], "invalid UTF-8 text message, yet delivered %r" % (rec.msgs,)
            assert st.closed(), "invalid UTF-8 in a text message but the connection is still open"
        assert not env.v.exc_contexts and not rec.logged
