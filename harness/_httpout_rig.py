"""Shared rig of the `httpout` batch (C02, C03, C25, C29).

REAL code driven: tornado.web.Application (routing, _HandlerDelegate), a RequestHandler subclass whose
get/post/head/prepare interpret a *handler program* (list of (op, arg) tuples), the real
HTTP1ServerConnection / HTTP1Connection, over vp.fakestream.FakeStream on the virtual loop.
The bytes the server wrote (`st.wire()`) are parsed by the strict reference response reader below
(RFC 7230 section 3.3.3 message-length rules; no leniency: CRLF only, token header names, one
Content-Length, Transfer-Encoding exactly "chunked", no chunk extensions, no trailers).

ENVIRONMENT STUBS (part of every claim using the rig):
  * FakeStream (in-memory IOStream interface, writes complete immediately), VLoop/FakeAio virtual loop;
  * logging disabled (access/app/gen logs are not part of the properties);
  * time.time() as seen by tornado.web / tornado.httputil is a constant (Date header, request_time);
  * datetime.datetime.now() as seen by tornado.web is a constant (cookie Expires dates);
  * request bytes are concrete, chosen from a pool by (symbolic) index.
"""
import logging
import re

from vp.fakestream import FakeStream

import tornado.web
from tornado import httputil
from tornado.http1connection import (HTTP1Connection, HTTP1ConnectionParameters,
                                     HTTP1ServerConnection)

logging.disable(logging.CRITICAL)


class _FixedTime:
    """`time` module as seen by tornado.web / tornado.httputil: time() is a constant (CrossHair
    models time.time() as a nondeterministic contract-checked float, which is irrelevant here and
    breaks the Date header / request_time code); everything else is the real module."""

    def __init__(self, real):
        self._real = real

    def time(self):
        return 1790000000.0

    def __getattr__(self, k):
        return getattr(self._real, k)


import time as _time  # noqa: E402

tornado.web.time = _FixedTime(_time)
httputil.time = _FixedTime(_time)

import datetime as _dt  # noqa: E402


class _DatetimeClassProxy:
    """`datetime.datetime` as seen by tornado.web: now() is a constant (CrossHair models the clock as
    nondeterministic, which makes set_cookie(expires_days=) / clear_cookie() raise inside the engine);
    everything else (construction, isinstance, fromtimestamp, ...) is the real class."""

    def now(self, tz=None):
        return _dt.datetime(2026, 9, 21, 14, 13, 20, tzinfo=tz)

    def __call__(self, *a, **kw):
        return _dt.datetime(*a, **kw)

    def __instancecheck__(self, obj):
        return isinstance(obj, _dt.datetime)

    def __getattr__(self, k):
        return getattr(_dt.datetime, k)


class _FixedDatetimeModule:
    datetime = _DatetimeClassProxy()

    def __getattr__(self, k):
        return getattr(_dt, k)


tornado.web.datetime = _FixedDatetimeModule()

BASE = b"abcdefghijklmnop"
STATUS_POOL = (204, 304, 404, 200)   # index 0..2 = the non-default codes (default is 200)
XP_POOL = ("p0", "p1", "p2", "p3")

# ------------------------------------------------------------------ handler programs
# op kinds
W, FL, ST, CL, CLR, FIN, XP = 0, 1, 2, 3, 4, 5, 6
OPNAMES = ["write", "flush", "set_status", "set_cl", "clear_cl", "finish", "set_xp"]


def chunk_of(k):
    """k concrete bytes (k is realised by the slice: a fork over the stated finite domain)."""
    return BASE[:k]


def run_program(h, prog):
    """Interpret `prog` on the real RequestHandler `h`.  Exceptions propagate (tornado's
    _execute turns them into its error response)."""
    for kind, a in prog:
        if kind == W:
            h.write(chunk_of(a))
        elif kind == FL:
            h.flush()
        elif kind == ST:
            h.set_status(STATUS_POOL[a & 3])
        elif kind == CL:
            # concrete int per path (forked by the slice): a symbolic digit string inside the
            # header block would make every later regex/parse step a solver query
            h.set_header("Content-Length", len(chunk_of(a)))
        elif kind == CLR:
            h.clear_header("Content-Length")
        elif kind == FIN:
            if a == 0:
                h.finish()
            else:
                h.finish(chunk_of(a))
        elif kind == XP:
            h.set_header("X-P", XP_POOL[a & 3])
        else:
            raise AssertionError("bad op")


class ProgHandler(tornado.web.RequestHandler):
    """Runs self.application.settings['prog'] in get/post/head."""

    def _run(self):
        hook = self.application.settings.get("pre_hook")
        if hook is not None:
            hook(self)
        run_program(self, self.application.settings["prog"])

    def get(self):
        self._run()

    post = get
    head = get


@tornado.web.stream_request_body
class EarlyHandler(tornado.web.RequestHandler):
    """stream_request_body handler: runs the program in prepare() (= before the request body is
    read), i.e. 'the handler finished before the body was fully read' when the program finishes."""

    def prepare(self):
        run_program(self, self.application.settings["prog"])

    def data_received(self, chunk):
        pass

    def get(self):
        pass

    post = get
    head = get


class ZHandler(tornado.web.RequestHandler):
    """Canned handler for the second, pipelined request."""

    def get(self):
        self.set_header("Content-Type", "text/plain")
        self.write(b"Z")


SECOND_REQ = b"GET /z HTTP/1.1\r\nHost: x\r\n\r\n"


def _no_log(handler):
    pass


_APPS = {}


def make_app(prog, pre_hook=None, **settings):
    """The Application object is built once per settings shape (its construction is concrete and
    independent of the symbolic inputs); only the program is swapped per path."""
    key = tuple(sorted(settings.items()))
    app = _APPS.get(key)
    if app is None:
        app = _APPS[key] = tornado.web.Application(
            [("/a", ProgHandler), ("/e", EarlyHandler), ("/z", ZHandler)],
            log_function=_no_log, **settings)
    app.settings["prog"] = prog
    app.settings["pre_hook"] = pre_hook
    return app


def serve(env, app, incoming, no_keep_alive=False, eof=False, slow=False):
    """Feed `incoming` to a real HTTP1ServerConnection serving `app`; returns the FakeStream.
    slow=True: slow consumer - every stream.write() stays PENDING until the peer drains
    (FakeStream.flush_writes); the loop is run to quiescence between drains."""
    st = FakeStream(env.loop, incoming, eof=eof, seg=2, slow_writes=slow)
    conn = HTTP1ServerConnection(st, HTTP1ConnectionParameters(no_keep_alive=no_keep_alive))
    conn.start_serving(app)
    env.run_ready()
    if slow:
        rounds = 0
        while st.writing():
            st.flush_writes()
            env.run_ready()
            rounds += 1
            if rounds > 40:
                raise AssertionError("writes never quiesce")
    return st


# ------------------------------------------------------------------ header injection point
# A request that carries the marker header "X-Inject: 1" gets the headers in INJECT set on the
# parsed HTTPHeaders object right after the REAL HTTP1Connection._parse_headers ran on the concrete
# request bytes.  This hands a short *symbolic* header value (Connection, Accept-Encoding) to the real
# decision code without embedding symbolic bytes in the long request buffer (the request parser
# itself is the subject of C01).  ENVIRONMENT STUB, listed by the harnesses that use it.
INJECT = {}
_real_parse_headers = HTTP1Connection._parse_headers


def _parse_headers_with_injection(self, data):
    start_line, headers = _real_parse_headers(self, data)
    if INJECT and headers.get("X-Inject") == "1":
        for k, v in INJECT.items():
            headers[k] = v
    return start_line, headers


HTTP1Connection._parse_headers = _parse_headers_with_injection


# ------------------------------------------------------------------ strict reference response reader
class Malformed(Exception):
    """The bytes are not a well-formed HTTP/1.1 response (a strict client rejects them)."""


class Truncated(Exception):
    """The bytes are a proper prefix of a response (the client sees an incomplete message)."""


_STATUS_LINE = re.compile(rb"HTTP/1\.[01] ([0-9]{3}) ([\t \x21-\x7e\x80-\xff]*)")
_TOKEN = re.compile(rb"[!#$%&'*+\-.^_`|~0-9A-Za-z]+")
_VALUE = re.compile(rb"[\t \x21-\x7e\x80-\xff]*")
_DIGITS = re.compile(rb"[0-9]+")
_HEX = re.compile(rb"[0-9a-fA-F]+")


class Resp:
    def __init__(self):
        self.code = 0
        self.reason = b""
        self.headers = []      # (lower-case name, value) in wire order
        self.body = b""
        self.mode = ""         # none | chunked | length | close
        self.end = 0

    def get_all(self, name):
        return [v for n, v in self.headers if n == name]

    def get(self, name):
        vs = self.get_all(name)
        return vs[0] if vs else None


def _line(wire, pos):
    i = wire.find(b"\r\n", pos)
    if i < 0:
        if b"\n" in wire[pos:]:
            raise Malformed("bare LF")
        raise Truncated("no CRLF")
    line = wire[pos:i]
    if b"\n" in line or b"\r" in line:
        raise Malformed("bare CR/LF inside a line")
    return line, i + 2


def read_response(wire, pos, req_method, closed):
    """Strictly parse ONE response starting at wire[pos]; `closed` = the server closed the
    connection after the last byte of `wire`.  Returns a Resp (resp.end = index after it)."""
    r = Resp()
    if pos >= len(wire):
        raise Truncated("no bytes")
    line, pos = _line(wire, pos)
    m = _STATUS_LINE.fullmatch(line)
    if m is None:
        raise Malformed("bad status line %r" % line)
    r.code = int(m.group(1))
    r.reason = m.group(2)
    while True:
        line, pos = _line(wire, pos)
        if line == b"":
            break
        c = line.find(b":")
        if c <= 0:
            raise Malformed("header line without name %r" % line)
        name, value = line[:c], line[c + 1:]
        if _TOKEN.fullmatch(name) is None:
            raise Malformed("bad header name %r" % name)
        if _VALUE.fullmatch(value) is None:
            raise Malformed("bad header value %r" % value)
        r.headers.append((name.lower(), value.strip(b" \t")))
    te = r.get_all(b"transfer-encoding")
    cl = r.get_all(b"content-length")
    if te and cl:
        raise Malformed("both Transfer-Encoding and Content-Length")
    for v in cl:
        if _DIGITS.fullmatch(v) is None or v != cl[0]:
            raise Malformed("bad Content-Length %r" % cl)
    if te and (len(te) != 1 or te[0].lower() != b"chunked"):
        raise Malformed("unsupported Transfer-Encoding %r" % te)
    if req_method == "HEAD" or 100 <= r.code < 200 or r.code in (204, 304):
        r.mode = "none"
    elif te:
        r.mode = "chunked"
        parts = []
        while True:
            line, pos = _line(wire, pos)
            if _HEX.fullmatch(line) is None:
                raise Malformed("bad chunk size line %r" % line)
            n = int(line, 16)
            if n == 0:
                break
            if pos + n + 2 > len(wire):
                raise Truncated("chunk data")
            parts.append(wire[pos:pos + n])
            if wire[pos + n:pos + n + 2] != b"\r\n":
                raise Malformed("chunk data not followed by CRLF")
            pos += n + 2
        line, pos = _line(wire, pos)
        if line != b"":
            raise Malformed("trailers not expected")
        r.body = b"".join(parts)
    elif cl:
        r.mode = "length"
        n = int(cl[0])
        if pos + n > len(wire):
            raise Truncated("body shorter than Content-Length")
        r.body = wire[pos:pos + n]
        pos += n
    else:
        r.mode = "close"
        if not closed:
            raise Truncated("close-delimited body on a connection that stays open")
        r.body = wire[pos:]
        pos = len(wire)
    r.end = pos
    return r


def read_all(wire, methods, closed):
    """Parse as many complete responses as `wire` holds (at most len(methods)).
    Returns (responses, leftover_state) where leftover_state is
    'clean' (nothing left), 'truncated' (an incomplete response follows) or 'extra' (bytes left
    after the last expected response)."""
    out = []
    pos = 0
    for m in methods:
        if pos >= len(wire):
            return out, "clean"
        try:
            r = read_response(wire, pos, m, closed)
        except Truncated:
            return out, "truncated"
        out.append(r)
        pos = r.end
    return out, ("clean" if pos >= len(wire) else "extra")


def is_second_response(r):
    """The canned answer of ZHandler, nothing else."""
    return (r.code == 200 and r.body == b"Z" and r.mode == "length"
            and r.get(b"content-type") == b"text/plain")
