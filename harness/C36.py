"""C36 - Future combinators always settle and report the right outcome.

Real code driven: gen.multi / gen.multi_future (list and dict, duplicate children), gen.WaitIterator,
gen.with_timeout, concurrent.chain_future (asyncio and concurrent.futures sources) on the virtual loop.
Oracle: the statement, literally.  Every exception that escapes a callback (env.v.exc_contexts, or an
"Exception in callback" record of IOLoop._run_callback) or is raised synchronously by the combinator
counts as a failure; an output future that is still pending once all inputs are done is a failure.
A cancelled input must surface as cancellation: output future cancelled *or* failed with CancelledError.
"""
import asyncio
import concurrent.futures
import datetime
from typing import List, Tuple

from vp.api import P, harness, in_shard, reached
from vp.env import outcome
from harness._sync import vinstall, conc3, conc4

from tornado import gen, ioloop
from tornado import concurrent as tconc
from tornado.concurrent import Future

_STUBS = ["VLoop/FakeAio virtual loop and clock (vp/env.py): timers fire in (deadline, insertion) "
          "order and never early; callbacks FIFO",
          "harness/_sync.vinstall: CancelledError escaping a callback is recorded like asyncio does",
          "gen.app_log / ioloop.app_log / concurrent.app_log replaced by a recorder (no logging I/O); "
          "'Exception in callback' records count as escaped exceptions"]


class _Boom(Exception):
    """the failing inputs' exception"""


class _Log:
    def __init__(self):
        self.records = []

    def error(self, msg, *a, **kw):
        self.records.append(msg)

    warning = info = debug = exception = error

    def escaped(self):
        return [m for m in self.records if str(m).startswith("Exception in callback")]


class _Patched:
    def __enter__(self):
        self.log = _Log()
        self.saved = (gen.app_log, ioloop.app_log, tconc.app_log)
        gen.app_log = ioloop.app_log = tconc.app_log = self.log
        return self.log

    def __exit__(self, *exc):
        gen.app_log, ioloop.app_log, tconc.app_log = self.saved
        return False


def _complete(f, o, v):
    """o: 0 result v | 1 exception | 2 cancelled"""
    if o == 0:
        f.set_result(v)
    elif o == 1:
        f.set_exception(_Boom("boom"))
    else:
        f.cancel()


def _want(o, v):
    return ("result", v) if o == 0 else ("exc", "_Boom") if o == 1 else ("cancelled",)


def _same(real, want):
    """outcome comparison; cancellation may surface as a cancelled future or a CancelledError failure"""
    if want == ("cancelled",):
        return real == ("cancelled",) or real == ("exc", "CancelledError")
    return real == want


def _outs_ok(outs, order, kmax):
    if not (1 <= len(outs) <= kmax and len(order) == len(outs)):
        return False
    for o, v, pre in outs:
        if not 0 <= o <= 2:
            return False
    for s in range(len(order)):
        # order[s] indexes the inputs still pending at step s (at most k - s of them)
        if not 0 <= order[s] < len(outs) - s:
            return False
    return True


def _pick(pending, x):
    """x-th not-yet-done input (concrete index by branching); None when x is out of range"""
    for j in range(len(pending)):
        if x == j:
            return pending[j]
    return None


# ----------------------------------------------------------------------------------------------
# multi

def pre_multi(outs: List[Tuple[int, int, bool]], order: List[int], dup: int, as_dict: bool) -> bool:
    if not _outs_ok(outs, order, P.K):
        return False
    k = len(outs)
    if not -1 <= dup < k * (k + 1):
        return False
    if k > P.KD and (dup != -1 or as_dict):
        return False          # duplicates / dict form only up to KD inputs (path budget)
    return in_shard(outs[0][0] + 3 * (1 if as_dict else 0))


@harness(
    pre=pre_multi,
    quick=dict(K=3, KD=2, timeout=150),
    thorough=dict(K=4, KD=3, timeout=1500),
    nshards=dict(quick=6, thorough=6),
    reach=["multi_cancelled_child", "multi_first_failure_of_two", "multi_duplicate_child", "multi_all_results"],
    units=["gen.multi", "gen.multi_future", "concurrent.future_add_done_callback",
           "concurrent.future_set_exc_info", "concurrent.future_set_result_unless_cancelled"],
    stubs=_STUBS,
    outside=["more than K inputs", "more than one duplicated child", "duplicates and the dict form with more "
             "than KD inputs", "children that are coroutines/awaitables "
             "other than Futures", "quiet_exceptions"],
)
def h_multi(outs: List[Tuple[int, int, bool]], order: List[int], dup: int, as_dict: bool):
    """outs[i] = (outcome 0 result/1 exception/2 cancelled, value, already done before the call);
    order[s] = which of the still-pending inputs completes at step s; dup = -1 or d + k*p: input d
    appears a second time at child position p."""
    k = len(outs)
    with vinstall() as env, _Patched() as log:
        futs = [Future() for _ in range(k)]
        for i in range(k):
            if outs[i][2]:
                _complete(futs[i], outs[i][0], outs[i][1])
        env.run_ready()
        child = list(range(k))
        if dup >= 0:
            d, p = dup % k, dup // k
            cd = 0
            for j in range(k):           # keep indices concrete
                if d == j:
                    cd = j
            cp = 0
            for j in range(k + 1):
                if p == j:
                    cp = j
            child.insert(cp, cd)
            reached("multi_duplicate_child")
        if as_dict:
            arg = {"k%d" % pos: futs[i] for pos, i in enumerate(child)}
        else:
            arg = [futs[i] for i in child]
        try:
            m = gen.multi(arg)
        except asyncio.CancelledError:
            assert False, "gen.multi raised CancelledError synchronously for an already-cancelled child"
        env.run_ready()
        pending = [i for i in range(k) if not outs[i][2]]
        assert m.done() == (not pending), "multi must resolve once (and only once) all inputs are done"
        for s in range(k):
            if not pending:
                break
            i = _pick(pending, order[s])
            if i is None:
                return                       # not a valid schedule encoding
            pending.remove(i)
            _complete(futs[i], outs[i][0], outs[i][1])
            env.run_ready()
            assert m.done() == (not pending), \
                "multi must resolve exactly when all inputs are done (pending=%r, done=%r)" % (pending, m.done())
        # ---- expected outcome: first child in input order that failed, else the results in order
        want = None
        nfail = 0
        for i in child:
            if outs[i][0] != 0:
                nfail += 1
                if want is None:
                    want = _want(outs[i][0], None)
                    if outs[i][0] == 2:
                        reached("multi_cancelled_child")
        if nfail >= 2:
            reached("multi_first_failure_of_two")
        real = outcome(m)
        if want is None:
            reached("multi_all_results")
            if as_dict:
                exp = {"k%d" % pos: outs[i][1] for pos, i in enumerate(child)}
            else:
                exp = [outs[i][1] for i in child]
            assert real[0] == "result", "multi of successful inputs must succeed, got %r" % (real,)
            assert real[1] == exp, "multi result %r != inputs in order %r" % (real[1], exp)
        else:
            assert _same(real, want), "multi must fail with the first failed input's exception %r, got %r" % (
                want, real)
        assert not env.v.exc_contexts, "exception escaped a callback: %r" % (env.v.exc_contexts,)
        assert not log.escaped(), "exception escaped a callback: %r" % (log.escaped(),)


# ----------------------------------------------------------------------------------------------
# WaitIterator

def pre_wi(outs: List[Tuple[int, int, bool]], order: List[int], mode: int, kw: bool) -> bool:
    if not (_outs_ok(outs, order, P.K) and 0 <= mode <= 2):
        return False
    if len(outs) > P.KD and kw:
        return False          # keyword form only up to KD inputs (path budget)
    return in_shard(outs[0][0] + 3 * mode)


@harness(
    pre=pre_wi,
    quick=dict(K=3, KD=2, timeout=150),
    thorough=dict(K=4, KD=3, timeout=1500),
    nshards=dict(quick=9, thorough=9),
    reach=["wi_cancelled_input", "wi_queued_two", "wi_all_yielded"],
    units=["gen.WaitIterator.__init__", "gen.WaitIterator.next", "gen.WaitIterator.done",
           "gen.WaitIterator._done_callback", "gen.WaitIterator._return_result", "concurrent.chain_future"],
    stubs=_STUBS + ["consumer modes: 0 polls only after all inputs are done, 1 polls after every completion, "
                    "2 has one next() outstanding from the start and then polls only at the end"],
    outside=["more than K inputs", "duplicate inputs (WaitIterator keys its table by future)",
             "async-for protocol (__anext__ is done()+next())"],
)
def h_waititer(outs: List[Tuple[int, int, bool]], order: List[int], mode: int, kw: bool):
    k = len(outs)
    with vinstall() as env, _Patched() as log:
        futs = [Future() for _ in range(k)]
        for i in range(k):
            if outs[i][2]:
                _complete(futs[i], outs[i][0], outs[i][1])
        env.run_ready()
        try:
            if kw:
                it = gen.WaitIterator(**{"k%d" % i: futs[i] for i in range(k)})
            else:
                it = gen.WaitIterator(*futs)
        except asyncio.CancelledError:
            assert False, "WaitIterator() raised CancelledError for an already-cancelled input"
        seen = []          # (index, outcome, is-current-future-the-input)
        cur = [None]

        def poll(drain):
            for _ in range(k + 1):
                if cur[0] is None:
                    if it.done():
                        return
                    try:
                        cur[0] = it.next()
                    except asyncio.CancelledError:
                        assert False, "WaitIterator.next() raised CancelledError (cancelled input)"
                env.run_ready()
                if not cur[0].done():
                    return
                idx = it.current_index
                seen.append((idx, outcome(cur[0]), it.current_future))
                cur[0] = None      # a polling consumer immediately asks for the next one

        if mode == 2:
            poll(False)
        completion = [i for i in range(k) if outs[i][2]]
        npre = len(completion)
        pending = [i for i in range(k) if not outs[i][2]]
        for s in range(k):
            if not pending:
                break
            i = _pick(pending, order[s])
            if i is None:
                return
            pending.remove(i)
            completion.append(i)
            _complete(futs[i], outs[i][0], outs[i][1])
            env.run_ready()
            if mode == 1:
                poll(False)
        if len(it._finished) >= 2:
            reached("wi_queued_two")
        poll(True)
        assert cur[0] is None, "a next() future is still pending although every input is done (yielded %r of %d)" % (
            [s[0] for s in seen], k)
        assert it.done(), "iterator not exhausted after all inputs were yielded"
        assert len(seen) == k, "every input must be yielded exactly once: %r" % ([s[0] for s in seen],)
        # already-done inputs first (their mutual order is not observable: any order), the others in
        # completion order
        got_idx = [s[0] for s in seen]
        key = (lambda i: "k%d" % i) if kw else (lambda i: i)
        assert sorted(got_idx[:npre], key=str) == sorted([key(i) for i in completion[:npre]], key=str), \
            "already-done inputs must be yielded first, once each: %r" % (got_idx,)
        assert got_idx[npre:] == [key(i) for i in completion[npre:]], \
            "inputs must be yielded in completion order %r, got %r" % (completion, got_idx)
        for idx, oc, cf in seen:
            i = int(idx[1:]) if kw else idx
            assert cf is futs[i], "current_future does not match current_index"
            if outs[i][0] == 2:
                reached("wi_cancelled_input")
            assert _same(oc, _want(outs[i][0], outs[i][1])), \
                "input %r yielded outcome %r, its own outcome is %r" % (idx, oc, _want(outs[i][0], outs[i][1]))
        reached("wi_all_yielded")
        assert not env.v.exc_contexts, "exception escaped a callback: %r" % (env.v.exc_contexts,)
        assert not log.escaped(), "exception escaped a callback: %r" % (log.escaped(),)


# ----------------------------------------------------------------------------------------------
# with_timeout

def pre_wt(o: int, v: int, pre: bool, d: int, t: int, td: bool, never: bool) -> bool:
    return 0 <= o <= 2 and 0 <= d <= 2 and 0 <= t <= 3


@harness(
    pre=pre_wt,
    quick=dict(timeout=120),
    thorough=dict(timeout=600),
    nshards=1,
    reach=["wt_cancelled_before_deadline", "wt_timeout_then_late_failure", "wt_result_before_deadline"],
    units=["gen.with_timeout", "concurrent.chain_future", "ioloop.IOLoop.add_timeout",
           "ioloop.IOLoop.remove_timeout"],
    stubs=_STUBS,
    outside=["inputs that are not Futures (lists, coroutines, concurrent.futures)", "quiet_exceptions",
             "completion at exactly the deadline instant is ordered after the timer (t >= d => timeout)"],
)
def h_with_timeout(o: int, v: int, pre: bool, d: int, t: int, td: bool, never: bool):
    """input outcome o/v; `pre` = already done at the call; deadline now+d (absolute or timedelta);
    the input completes at now+t (after the timers due at that instant), or never."""
    with vinstall() as env, _Patched() as log:
        f = Future()
        if pre:
            _complete(f, o, v)
            env.run_ready()
        cd = conc3(d)
        now = env.v.now
        try:
            r = gen.with_timeout(datetime.timedelta(seconds=cd) if td else now + d, f)
        except asyncio.CancelledError:
            assert False, "with_timeout raised CancelledError synchronously for an already-cancelled input"
        env.run_ready()
        if pre:
            assert _same(outcome(r), _want(o, v)), "already-done input: with_timeout must carry its outcome, got %r" % (
                outcome(r),)
            env.advance(3)
            assert _same(outcome(r), _want(o, v))
        elif never:
            env.advance(conc4(t))
            if t >= d:
                assert outcome(r) == ("exc", "TimeoutError"), "deadline passed: must be TimeoutError, got %r" % (
                    outcome(r),)
            else:
                assert not r.done(), "settled before the deadline without an input outcome"
        else:
            env.advance(conc4(t))
            timed_out = t >= d
            if timed_out:
                assert outcome(r) == ("exc", "TimeoutError"), "deadline passed: must be TimeoutError, got %r" % (
                    outcome(r),)
            else:
                assert not r.done()
            _complete(f, o, v)
            env.run_ready()
            if not timed_out:
                assert not env.v.pending_timers(), "the timeout timer must be removed once the input is done"
            env.advance(3)
            if timed_out:
                if o == 1:
                    reached("wt_timeout_then_late_failure")
                assert outcome(r) == ("exc", "TimeoutError"), "late completion changed a timed-out result"
            else:
                if o == 2:
                    reached("wt_cancelled_before_deadline")
                if o == 0:
                    reached("wt_result_before_deadline")
                assert r.done(), "input finished before the deadline but with_timeout's future is pending forever"
                assert _same(outcome(r), _want(o, v)), "with_timeout must carry the input's outcome %r, got %r" % (
                    _want(o, v), outcome(r))
            assert not env.v.pending_timers(), "timer residue"
        assert not env.v.exc_contexts, "exception escaped a callback: %r" % (env.v.exc_contexts,)
        assert not log.escaped(), "exception escaped a callback: %r" % (log.escaped(),)


# ----------------------------------------------------------------------------------------------
# chain_future

def pre_chain(o: int, v: int, a_pre: bool, a_conc: bool, b_state: int, b_conc: bool) -> bool:
    return 0 <= o <= 2 and 0 <= b_state <= 2


@harness(
    pre=pre_chain,
    quick=dict(timeout=120),
    thorough=dict(timeout=600),
    nshards=1,
    reach=["chain_cancelled_source", "chain_target_already_done", "chain_concurrent_source"],
    units=["concurrent.chain_future", "concurrent.future_add_done_callback", "concurrent.future_set_exc_info",
           "ioloop.IOLoop.add_future"],
    stubs=_STUBS,
    outside=["concurrent.futures sources completed from another thread"],
)
def h_chain(o: int, v: int, a_pre: bool, a_conc: bool, b_state: int, b_conc: bool):
    """a = source (asyncio or concurrent.futures Future) with outcome o/v, done before or after chaining;
    b = target: 0 pending, 1 already has a result, 2 already cancelled."""
    with vinstall() as env, _Patched() as log:
        a = concurrent.futures.Future() if a_conc else Future()
        b = concurrent.futures.Future() if b_conc else Future()
        if a_conc:
            reached("chain_concurrent_source")
        if a_pre:
            _complete(a, o, v)
        if b_state == 1:
            b.set_result(99)
        elif b_state == 2:
            b.cancel()
        env.run_ready()
        try:
            tconc.chain_future(a, b)
        except asyncio.CancelledError:
            assert False, "chain_future raised CancelledError synchronously for an already-cancelled source"
        env.run_ready()
        if not a_pre:
            if b_state == 0:
                assert not b.done()
            _complete(a, o, v)
            env.run_ready()
        if b_conc:
            if not b.done():
                real = ("pending",)
            elif b.cancelled():
                real = ("cancelled",)
            elif b.exception() is not None:
                real = ("exc", type(b.exception()).__name__)
            else:
                real = ("result", b.result())
        else:
            real = outcome(b)
        if b_state == 0:
            if o == 2:
                reached("chain_cancelled_source")
            assert real != ("pending",), "source is done but the chained future is pending forever"
            assert _same(real, _want(o, v)), "chained future must copy the source outcome %r, got %r" % (
                _want(o, v), real)
        elif b_state == 1:
            reached("chain_target_already_done")
            assert real == ("result", 99), "an already-done target must be left alone"
        else:
            assert real == ("cancelled",), "an already-cancelled target must be left alone"
        assert not env.v.exc_contexts, "exception escaped a callback: %r" % (env.v.exc_contexts,)
        assert not log.escaped(), "exception escaped a callback: %r" % (log.escaped(),)
