"""C47 - The WSGI container presents requests and responses faithfully.

Real code driven: tornado.wsgi.WSGIContainer.environ (request built by the real
httputil.HTTPServerRequest constructor, i.e. a request the HTTP server accepts: Host validated by
_ABNF.host) and WSGIContainer.__call__/handle_request with the inline dummy executor on the virtual
loop, writing to a recording connection.
Oracle: PEP 3333 / CGI mapping written by hand; response = what the app produced + the three
default headers when absent.
"""
import logging
from typing import List, Tuple

from vp.api import P, harness, in_shard, reached
from vp.env import install
from harness._misc2 import DummyConnection, DummyContext, ref_unquote_to_bytes, fix_time

from tornado import httputil, wsgi
import tornado

fix_time(httputil)
logging.getLogger("tornado.access").disabled = True    # _log() formats with %: realises; not part of the claim

IDX = list(range(32))
# (Host header, SERVER_NAME, SERVER_PORT or None = scheme default)
HOSTS = [
    ("h", "h", None),
    ("h:8080", "h", "8080"),
    ("1.2.3.4:81", "1.2.3.4", "81"),
    ("H.example", "H.example", None),
    ("h:", "h", None),                 # empty port: accepted by the server's Host validation (uri_port = [0-9]*)
    ("[::1]", "[::1]", None),
    ("[::1]:8080", "[::1]", "8080"),
    (None, "h", "SYMBOLIC"),           # "h:" + symbolic digits pd (<= 2)
]
HDRS = [
    ("Content-Type", "text/plain"),
    ("Content-Length", "3"),
    ("X-Foo-Bar", "v 1"),
    ("Accept", "*/*"),
    ("Cookie", "a=b"),
]
METHODS = ["GET", "M-SEARCH"]
HSETS = [[], [HDRS[0], HDRS[1]], [HDRS[2], HDRS[4]], [HDRS[0], HDRS[3]]]
# (method index, header set, https, query) combinations chosen by ONE symbolic selector
MODES = [(0, 0, False, ""), (1, 1, True, "a=1&b"), (0, 2, False, "x"), (0, 3, True, "")]
ALPHA = "/+%2F"


def _norm(k: str) -> str:
    return "HTTP_" + k.replace("-", "_").upper()


def classify_env(**kw):
    hi = kw["hi"]
    if HOSTS[hi][0] == "h:" or (HOSTS[hi][0] is None and kw["pd"] == ""):
        return "host_empty_port"
    if HOSTS[hi][0] is not None and HOSTS[hi][0].startswith("["):
        return "host_ipv6_literal"
    return None


def pre_env(mode: int, path: str, hi: int, pd: str) -> bool:
    if not (0 <= hi < len(HOSTS) and in_shard(hi) and 0 <= mode < len(MODES)):
        return False
    if not (1 <= len(path) <= P.L and len(pd) <= (P.PD if HOSTS[IDX[hi]][0] is None else 0)):
        return False
    if path[0] != "/":
        return False
    if mode != 0 and len(path) > 2:
        return False     # long symbolic paths only with the first (method, headers, scheme, query) combination
    if HOSTS[IDX[hi]][0] is None and len(path) > 1:
        return False     # symbolic port digits: the path stays "/" (int()/str() of symbolic digits is slow)
    for c in path:
        if c not in ALPHA:
            return False
    for c in pd:
        if c not in "0123456789":
            return False
    if classify_env(hi=hi, pd=pd) in P.exclude:
        return False
    return True


@harness(
    pre=pre_env,
    quick=dict(L=4, PD=1, timeout=200, reach_timeout=200),
    thorough=dict(L=5, PD=2, timeout=900, reach_timeout=300),
    nshards=len(HOSTS),
    reach=["path_decoded", "explicit_port", "empty_port", "ipv6_literal", "content_headers", "symbolic_port"],
    classify=classify_env,
    units=["wsgi.WSGIContainer.environ", "wsgi.to_wsgi_str", "escape.url_unescape",
           "httputil.HTTPServerRequest.__init__ (Host validation, path/query split)"],
    stubs=["Host by symbolic index from HOSTS (name, name:port, v4:port, mixed case, empty port 'h:', [v6], [v6]:port, "
           "'h:'+<=PD symbolic digits); (method, request-header set, scheme, query) from 4 pooled combinations %r; "
           "path = symbolic str over %r" % (MODES, ALPHA),
           "connection.context supplies remote_ip/protocol", "constant clock"],
    outside=["raw non-ASCII bytes in the request target (observation: latin-1 decoded, then re-encoded as UTF-8 by "
             "url_unescape -> PATH_INFO is double-encoded)", "un-bracketed IPv6 Host values", "request bodies (wsgi.input)"],
)
def h_environ(mode: int, path: str, hi: int, pd: str):
    hi = IDX[hi]
    mi, hs, https, query = MODES[IDX[mode]]
    hv, name, port = HOSTS[hi]
    if hv is None:
        hv = "h:" + pd
        port = pd if pd != "" else None
        reached("symbolic_port") if pd != "" else None
    headers = httputil.HTTPHeaders()
    headers["Host"] = hv
    sel = HSETS[hs]
    for k, v in sel:
        headers[k] = v
    uri = path + ("?" + query if query != "" else "")
    conn = DummyConnection(DummyContext("10.0.0.9", "https" if https else "http"))
    req = httputil.HTTPServerRequest(
        start_line=httputil.RequestStartLine(METHODS[mi], uri, "HTTP/1.1"), headers=headers, connection=conn)
    # -> the HTTP server accepted this request (constructor did not raise HTTPInputError)
    if port is not None:
        reached("explicit_port")
    if HOSTS[hi][0] == "h:":
        reached("empty_port")
    if hv.startswith("["):
        reached("ipv6_literal")
    container = wsgi.WSGIContainer(lambda e, s: [])
    env = container.environ(req)       # must not raise
    # ---- oracle: CGI / PEP 3333
    assert env["REQUEST_METHOD"] == METHODS[mi]
    assert env["SCRIPT_NAME"] == ""
    qpos = uri.find("?")
    rawpath = uri if qpos < 0 else uri[:qpos]
    want_path = ref_unquote_to_bytes(rawpath).decode("latin-1")
    if want_path != rawpath:
        reached("path_decoded")
    assert env["PATH_INFO"] == want_path, "PATH_INFO %r != percent-decoded latin-1 path %r" % (env["PATH_INFO"], want_path)
    assert env["QUERY_STRING"] == ("" if qpos < 0 else uri[qpos + 1:])
    assert env["SERVER_NAME"] == name, "SERVER_NAME %r for Host %r (expected %r)" % (env["SERVER_NAME"], hv, name)
    want_port = port if port is not None else ("443" if https else "80")
    assert isinstance(env["SERVER_PORT"], str) and int(env["SERVER_PORT"]) == int(want_port), \
        "SERVER_PORT %r for Host %r (expected %s)" % (env["SERVER_PORT"], hv, want_port)
    assert env["SERVER_PROTOCOL"] == "HTTP/1.1"
    assert env["REMOTE_ADDR"] == "10.0.0.9"
    assert env["wsgi.url_scheme"] == ("https" if https else "http")
    assert env["wsgi.version"] == (1, 0) and env["wsgi.input"].read() == b""
    exp_http = {"HTTP_HOST": hv}
    for k, v in sel:
        if k == "Content-Type":
            reached("content_headers")
            assert env.get("CONTENT_TYPE") == v and "HTTP_CONTENT_TYPE" not in env
        elif k == "Content-Length":
            assert env.get("CONTENT_LENGTH") == v and "HTTP_CONTENT_LENGTH" not in env
        else:
            exp_http[_norm(k)] = v
    if ("Content-Type", "text/plain") not in sel:
        assert "CONTENT_TYPE" not in env
    got_http = {k: v for k, v in env.items() if k.startswith("HTTP_")}
    assert got_http == exp_http, "HTTP_* variables %r != %r" % (got_http, exp_http)


# ------------------------------------------------------------------------------------------------
# repeated header fields: the same field name on more than one line (also in different letter case)
HNAMES = ["X-Forwarded-For", "x-forwarded-for", "Via", "VIA", "Content-Type", "Content-Length", "Accept"]
HVALS = ["10.0.0.1", "10.0.0.2", "a b"]
CLVALS = ["3", "7", "11"]       # values used when the name is Content-Length


def pre_hdrs(n: int, n0: int, v0: int, n1: int, v1: int, n2: int, v2: int) -> bool:
    nn = len(HNAMES)
    if not (0 <= n <= P.NH and 0 <= n0 < (nn if n > 0 else 1) and in_shard(n0 + nn * (n1 if n > 1 else 0))):
        return False
    if not (0 <= n1 < (nn if n > 1 else 1) and 0 <= n2 < (nn if n > 2 else 1)):
        return False
    nv = P.NV
    if not (0 <= v0 < (nv if n > 0 else 1) and 0 <= v1 < (nv if n > 1 else 1) and 0 <= v2 < (nv if n > 2 else 1)):
        return False
    # requests the HTTP server accepts carry one Content-Length (HTTP1Connection rejects unequal repeats and
    # collapses equal ones)
    cl = HNAMES.index("Content-Length")
    ncl = (1 if n > 0 and n0 == cl else 0) + (1 if n > 1 and n1 == cl else 0) + (1 if n > 2 and n2 == cl else 0)
    return ncl <= 1


@harness(
    pre=pre_hdrs,
    quick=dict(NH=3, NV=2, timeout=150),
    thorough=dict(NH=3, NV=3, timeout=900),
    nshards=dict(quick=14, thorough=49),
    reach=["repeated_name_joined", "case_variants_joined", "three_lines_one_field", "content_type_special",
           "repeated_content_type", "distinct_fields"],
    units=["wsgi.WSGIContainer.environ (HTTP_* / CONTENT_* mapping)", "httputil.HTTPHeaders.add/items/pop/__contains__",
           "httputil.HTTPServerRequest.__init__"],
    stubs=["request header block = Host + a solver-chosen LIST of 0..NH (name index, value index) pairs added line by line "
           "with the real HTTPHeaders.add; names from %r (case variants and repeats), values from %r (Content-Length: %r)"
           % (HNAMES, HVALS, CLVALS),
           "reference: group the lines by case-insensitive field name in order, join the values with ',', "
           "HTTP_<NAME with - -> _ upper-cased>; Content-Type / Content-Length -> CONTENT_TYPE / CONTENT_LENGTH only",
           "constant clock; Host 'h', GET /"],
    outside=["more than NH extra header lines", "names/values outside the pools", "repeated Content-Length (rejected/collapsed by "
             "the HTTP/1 connection before the request exists)"],
)
def h_environ_headers(n: int, n0: int, v0: int, n1: int, v1: int, n2: int, v2: int):
    n = IDX[n]
    lines = []
    for ni, vi in [(n0, v0), (n1, v1), (n2, v2)][:n]:
        name = HNAMES[IDX[ni]]
        lines.append((name, CLVALS[IDX[vi]] if name == "Content-Length" else HVALS[IDX[vi]]))
    headers = httputil.HTTPHeaders()
    headers.add("Host", "h")
    for k, v in lines:
        headers.add(k, v)
    conn = DummyConnection(DummyContext("10.0.0.9", "http"))
    req = httputil.HTTPServerRequest(
        start_line=httputil.RequestStartLine("GET", "/", "HTTP/1.1"), headers=headers, connection=conn)
    env = wsgi.WSGIContainer(lambda e, s: []).environ(req)
    # ---- reference from the list of lines
    order, groups = [], {}
    for k, v in lines:
        lk = k.lower()
        if lk not in groups:
            groups[lk] = []
            order.append(lk)
        groups[lk].append(v)
    exp = {"HTTP_HOST": "h"}
    exp_ct = exp_cl = None
    for lk in order:
        joined = ",".join(groups[lk])
        if lk == "content-type":
            exp_ct = joined
            reached("content_type_special")
            if len(groups[lk]) > 1:
                reached("repeated_content_type")
        elif lk == "content-length":
            exp_cl = joined
        else:
            exp["HTTP_" + lk.upper().replace("-", "_")] = joined
            if len(groups[lk]) > 1:
                reached("repeated_name_joined")
                if len(set([k for k, v in lines if k.lower() == lk])) > 1:
                    reached("case_variants_joined")
                if len(groups[lk]) == 3:
                    reached("three_lines_one_field")
    if len(order) == 3:
        reached("distinct_fields")
    got = {k: v for k, v in env.items() if k.startswith("HTTP_")}
    assert got == exp, "HTTP_* variables %r, the header lines %r require %r" % (got, lines, exp)
    assert env.get("CONTENT_TYPE") == exp_ct, "CONTENT_TYPE %r != %r" % (env.get("CONTENT_TYPE"), exp_ct)
    assert env.get("CONTENT_LENGTH") == exp_cl, "CONTENT_LENGTH %r != %r" % (env.get("CONTENT_LENGTH"), exp_cl)


# ------------------------------------------------------------------------------------------------
STATUSES = ["200 OK", "404 Not Found", "304 Not Modified", "500 Internal Server Error", "201 Created Yes"]
RHDRS = [("Content-Type", "text/plain"), ("Content-Length", "7"), ("Server", "mine"), ("X-A", "1"), ("Set-Cookie", "a=b"),
         ("Set-Cookie", "c=d"), ("content-type", "x/y")]


RSETS = [[], [RHDRS[0]], [RHDRS[1], RHDRS[2]], [RHDRS[3], RHDRS[4], RHDRS[5]], [RHDRS[6], RHDRS[3]]]


def pre_resp(si: int, rs: int, chunks: List[bytes], viawrite: bool) -> bool:
    if not (0 <= si < len(STATUSES) and 0 <= rs < len(RSETS) and in_shard(si + len(STATUSES) * rs)):
        return False
    if len(chunks) > P.NC:
        return False
    for c in chunks:
        if len(c) > P.LC:
            return False
    return True


@harness(
    pre=pre_resp,
    quick=dict(NC=2, LC=2, timeout=120),
    thorough=dict(NC=3, LC=3, timeout=900),
    nshards=len(STATUSES) * 5,
    reach=["defaults_added", "no_defaults_304", "app_headers_kept", "two_chunks", "write_callable"],
    units=["wsgi.WSGIContainer.__call__", "wsgi.WSGIContainer.handle_request (start_response, body iteration, defaults)",
           "wsgi.WSGIContainer.environ", "ioloop.IOLoop.spawn_callback/run_in_executor (dummy executor)"],
    stubs=["VLoop/FakeAio virtual loop (vp/env.py), run_in_executor runs inline", "recording DummyConnection for "
           "write_headers/finish", "status from %r, one of 5 pooled response-header lists (<= 3 headers, incl. repeated Set-Cookie and lower-case names), body = <= NC chunks of <= LC symbolic bytes, optionally the first chunk through the write() callable"
           % (STATUSES,), "tornado.access logger disabled (log formatting is not part of the claim)", "constant clock"],
    outside=["apps that raise or never call start_response", "exc_info", "real thread-pool executors"],
)
def h_response(si: int, rs: int, chunks: List[bytes], viawrite: bool):
    si, rs = IDX[si], IDX[rs]
    app_headers = list(RSETS[rs])
    given = list(app_headers)
    closed = []

    class Body:
        def __init__(self, items):
            self.items = items

        def __iter__(self):
            return iter(self.items)

        def close(self):
            closed.append(1)

    def app(environ, start_response):
        w = start_response(STATUSES[si], app_headers)
        if viawrite and chunks:
            w(chunks[0])
            return Body(chunks[1:])
        return Body(chunks)

    with install() as env:
        conn = DummyConnection(DummyContext("10.0.0.9", "http"))
        headers = httputil.HTTPHeaders()
        headers["Host"] = "h"
        req = httputil.HTTPServerRequest(
            start_line=httputil.RequestStartLine("GET", "/", "HTTP/1.1"), headers=headers, connection=conn)
        wsgi.WSGIContainer(app)(req)
        env.run_ready()
        assert not env.v.exc_contexts, "exception escaped: %r" % (env.v.exc_contexts,)
    assert closed == [1], "app_response.close() must be called exactly once"
    assert conn.finished and len(conn.writes) == 2 and conn.writes[0][0] == "headers", "writes: %r" % (conn.writes,)
    _, sl, hl, chunk = conn.writes[0]
    code, _, reason = STATUSES[si].partition(" ")
    assert (sl.code, sl.reason) == (int(code), reason), "status line %r for app status %r" % (sl, STATUSES[si])
    body = b"".join(chunks)
    if len(chunks) == 2 and chunks[0] and chunks[1]:
        reached("two_chunks")
    if viawrite and chunks and chunks[0]:
        reached("write_callable")
    assert chunk == body, "body %r != app body %r" % (chunk, body)
    # headers: the app's, in order, then the defaults that were absent
    want = list(given)
    names = [k.lower() for k, v in given]
    if int(code) != 304:
        if "content-length" not in names:
            want.append(("Content-Length", str(len(body))))
        if "content-type" not in names:
            want.append(("Content-Type", "text/html; charset=UTF-8"))
            reached("defaults_added")
    else:
        reached("no_defaults_304")
    if "server" not in names:
        want.append(("Server", "TornadoServer/%s" % tornado.version))
    if given:
        reached("app_headers_kept")
    norm = [("-".join([w[:1].upper() + w[1:].lower() for w in k.split("-")]), v) for k, v in want]
    assert sorted(hl) == sorted(norm), "response headers %r, expected %r" % (hl, norm)
    assert [h for h in hl if h[0] == "Set-Cookie"] == [h for h in norm if h[0] == "Set-Cookie"]
