from typing import List
from vp.api import P, harness, in_shard, reached
from tornado import template as T

def pre_a(s: str) -> bool:
    return len(s) <= 1

@harness(pre=pre_a, quick=dict(timeout=30))
def h_a(s: str):
    t = T.Template("a{{ s }}")
    from io import StringIO
    b = StringIO()
    print("x", file=b)
    b2 = StringIO()
    b2.write("y")
    assert False, (t.code, b.getvalue(), b2.getvalue(), type(b).__name__)
