from typing import List, Tuple
from vp.api import P, harness, in_shard, reached
from tornado import escape

def no_sur(s):
    return all(not (0xD800 <= ord(c) <= 0xDFFF) for c in s)

def pre_a(s: str) -> bool:
    return len(s) <= P.L and no_sur(s)

@harness(pre=pre_a, quick=dict(L=4, timeout=120))
def h_a(s: str):
    e = escape.xhtml_escape(s)
    for ch in "<>\"'":
        assert ch not in e
    t = e.replace("&amp;", "\x00").replace("&lt;", "\x00").replace("&gt;", "\x00").replace("&quot;", "\x00").replace("&#x27;", "\x00")
    assert "&" not in t

@harness(pre=pre_a, quick=dict(L=4, timeout=120))
def h_b(s: str):
    e = escape.xhtml_escape(s)
    assert escape.xhtml_unescape(e) == s

def pre_c(s: str) -> bool:
    return len(s) <= P.L

@harness(pre=pre_c, quick=dict(L=4, timeout=120))
def h_c(s: str):
    e = escape.xhtml_escape(s)
    for ch in "<>\"'":
        assert ch not in e
