"""Reference model of Tornado's template language (agent "text"): a recursive-descent parser written
from the language description (docs at the top of tornado/template.py), a converter of the real
node tree to the same shape, and reference whitespace filters.  Used by harness/C19.py, C20.py."""
from types import SimpleNamespace

from tornado import template as T


class RefError(Exception):
    def __init__(self, msg, lo, hi):
        Exception.__init__(self, msg)
        self.msg, self.lo, self.hi = msg, lo, hi


_INTER = {"else": ("if", "for", "while", "try"), "elif": ("if",), "except": ("try",),
          "finally": ("try",)}
_LEAF = ("extends", "include", "set", "import", "from", "comment", "autoescape", "whitespace",
         "raw", "module")
_NEST = ("apply", "block", "try", "if", "for", "while")
_CLOSER = {"{": "}}", "%": "%}", "#": "#}"}
WS_MODES = ("all", "single", "oneline")


def _strip_quotes(s):
    return s.strip('"').strip("'")


def ref_parse(text, whitespace="all", autoescape="xhtml_escape"):
    """-> (tree, final_autoescape).  tree = list of
    ("text", value, wsmode) | ("expr", src, raw, line) | ("module", src, line) | ("stmt", src, line) |
    ("inter", src, line) | ("ctl", src, line, body) | ("apply", fn, line, body) |
    ("block", name, line, body) | ("extends", name) | ("include", name, line).
    Raises RefError(msg, lo, hi): the error must be reported on a line in [lo, hi] (the lines the
    offending construct spans)."""
    n = len(text)
    st = SimpleNamespace(pos=0, ws=whitespace, autoescape=autoescape)

    def line_at(p):
        return 1 + text.count("\n", 0, p)

    eof_line = line_at(n)

    def add_text(out, value):
        if value:
            out.append(("text", value, st.ws))

    def parse(in_block, in_loop, open_line, outer_loop=None):
        out = []
        while True:
            i = st.pos
            while True:
                i = text.find("{", i)
                if i == -1 or i + 1 == n:
                    if in_block is not None:
                        raise RefError("missing end for " + in_block, open_line, eof_line)
                    add_text(out, text[st.pos:])
                    st.pos = n
                    return out
                c = text[i + 1]
                if not (c == "{" or c == "%" or c == "#"):
                    i += 1
                    continue
                if i + 2 < n and c == "{" and text[i + 2] == "{":
                    i += 1          # more than two curlies in a row: the innermost pair is the tag
                    continue
                break
            add_text(out, text[st.pos:i])
            kind = text[i + 1]
            start_line = line_at(i)
            st.pos = i + 2
            if st.pos < n and text[st.pos] == "!":
                add_text(out, text[i:i + 2])
                st.pos += 1
                continue
            j = text.find(_CLOSER[kind], st.pos)
            if j == -1:
                raise RefError("missing close of {" + kind, start_line, eof_line)
            contents = text[st.pos:j].strip()
            st.pos = j + 2
            end_line = line_at(st.pos)
            if kind == "#":
                continue
            if kind == "{":
                if not contents:
                    raise RefError("empty expression", start_line, end_line)
                out.append(("expr", contents, False, start_line))
                continue
            if not contents:
                raise RefError("empty block", start_line, end_line)
            op, _sp, suffix = contents.partition(" ")
            suffix = suffix.strip()
            if op in _INTER:
                if in_block is None or in_block not in _INTER[op]:
                    raise RefError(op + " outside its block", start_line, end_line)
                out.append(("inter", contents, start_line))
                if op == "else" and (in_block == "for" or in_block == "while"):
                    in_loop = outer_loop      # the else clause of a loop is outside that loop
            elif op == "end":
                if in_block is None:
                    raise RefError("extra end", start_line, end_line)
                return out
            elif op in _LEAF:
                if op == "comment":
                    pass
                elif op == "extends" or op == "include":
                    name = _strip_quotes(suffix)
                    if not name:
                        raise RefError(op + " missing path", start_line, end_line)
                    out.append(("extends", name) if op == "extends" else ("include", name, start_line))
                elif op == "import" or op == "from":
                    if not suffix:
                        raise RefError("import missing statement", start_line, end_line)
                    out.append(("stmt", contents, start_line))
                elif op == "set":
                    if not suffix:
                        raise RefError("set missing statement", start_line, end_line)
                    out.append(("stmt", suffix, start_line))
                elif op == "autoescape":
                    st.autoescape = None if suffix == "None" else suffix
                elif op == "whitespace":
                    if suffix not in WS_MODES:
                        raise RefError("bad whitespace mode", start_line, end_line)
                    st.ws = suffix
                elif op == "raw":
                    out.append(("expr", suffix, True, start_line))
                else:
                    out.append(("module", "_tt_modules." + suffix, start_line))
            elif op in _NEST:
                if op == "for" or op == "while":
                    body = parse(op, op, start_line, in_loop)
                elif op == "apply":
                    body = parse(op, None, start_line)
                else:
                    body = parse(op, in_loop, start_line)
                if op == "apply":
                    if not suffix:
                        raise RefError("apply missing method", start_line, line_at(st.pos))
                    out.append(("apply", suffix, start_line, body))
                elif op == "block":
                    if not suffix:
                        raise RefError("block missing name", start_line, line_at(st.pos))
                    out.append(("block", suffix, start_line, body))
                else:
                    out.append(("ctl", contents, start_line, body))
            elif op == "break" or op == "continue":
                if in_loop is None:
                    raise RefError(op + " outside loop", start_line, end_line)
                out.append(("stmt", contents, start_line))
            else:
                raise RefError("unknown operator", start_line, end_line)

    tree = parse(None, None, 1)
    return merge_text(tree), st.autoescape


def merge_text(tree):
    out = []
    for nd in tree:
        if nd[0] == "text":
            if not nd[1]:
                continue
            if out and out[-1][0] == "text" and out[-1][2] == nd[2]:
                out[-1] = ("text", out[-1][1] + nd[1], nd[2])
                continue
            out.append(nd)
        elif nd[0] in ("ctl", "apply", "block"):
            out.append(nd[:3] + (merge_text(nd[3]),))
        else:
            out.append(nd)
    return out


def real_tree(chunklist):
    out = []
    for c in chunklist.chunks:
        if isinstance(c, T._Text):
            out.append(("text", c.value, c.whitespace))
        elif isinstance(c, T._Module):
            out.append(("module", c.expression, c.line))
        elif isinstance(c, T._Expression):
            out.append(("expr", c.expression, c.raw, c.line))
        elif isinstance(c, T._IntermediateControlBlock):
            out.append(("inter", c.statement, c.line))
        elif isinstance(c, T._Statement):
            out.append(("stmt", c.statement, c.line))
        elif isinstance(c, T._ControlBlock):
            out.append(("ctl", c.statement, c.line, real_tree(c.body)))
        elif isinstance(c, T._ApplyBlock):
            out.append(("apply", c.method, c.line, real_tree(c.body)))
        elif isinstance(c, T._NamedBlock):
            out.append(("block", c.name, c.line, real_tree(c.body)))
        elif isinstance(c, T._ExtendsBlock):
            out.append(("extends", c.name))
        elif isinstance(c, T._IncludeBlock):
            out.append(("include", c.name, c.line))
        else:
            raise AssertionError("unknown node %r" % (c,))
    return merge_text(out)


def real_parse(text, whitespace="all"):
    """Drives the REAL _TemplateReader/_parse. -> ("ok", tree, autoescape) | ("err", lineno, filename)"""
    reader = T._TemplateReader("t.txt", text, whitespace)
    tmpl = SimpleNamespace(autoescape="xhtml_escape", name="t.txt")
    try:
        body = T._parse(reader, tmpl)
    except T.ParseError as e:
        return ("err", e.lineno, e.filename)
    return ("ok", real_tree(body), tmpl.autoescape)


def compare_parse(text, whitespace="all"):
    """asserts real == reference; returns 'ok' or 'err'."""
    real = real_parse(text, whitespace)
    try:
        ref = ("ok",) + ref_parse(text, whitespace)
    except RefError as e:
        ref = ("err", e.lo, e.hi, e.msg)
    if ref[0] == "err":
        assert real[0] == "err", "reference rejects (%s) but real parser accepted %r -> %r" % (
            ref[3], text, real[1:])
        assert ref[1] <= real[1] <= ref[2], "ParseError line %r not in [%d, %d] (%s) for %r" % (
            real[1], ref[1], ref[2], ref[3], text)
        assert real[2] == "t.txt"
        return "err"
    assert real[0] == "ok", "real parser raised ParseError(line %r) on well-formed %r" % (real[1], text)
    assert real[1] == ref[1], "node tree differs for %r:\nreal %r\nref  %r" % (text, real[1], ref[1])
    assert real[2] == ref[2], "autoescape setting differs"
    return "ok"


# ------------------------------------------------------------------------------- whitespace filter
def ref_filter_whitespace(mode, text):
    """Character-level reference over the whitespace alphabet {space, tab, newline}:
    all: unchanged; single: every maximal whitespace run becomes one character - a newline if the run
    contains one, else a space; oneline: every maximal run becomes one space."""
    if mode == "all":
        return text
    out = []
    i = 0
    n = len(text)
    while i < n:
        c = text[i]
        if c == " " or c == "\t" or c == "\n":
            j = i
            nl = False
            while j < n and (text[j] == " " or text[j] == "\t" or text[j] == "\n"):
                if text[j] == "\n":
                    nl = True
                j += 1
            out.append("\n" if (nl and mode == "single") else " ")
            i = j
        else:
            out.append(c)
            i += 1
    return "".join(out)


def ref_escape(s):
    return (s.replace("&", "&amp;").replace("<", "&lt;").replace(">", "&gt;")
            .replace('"', "&quot;").replace("'", "&#x27;"))


# CrossHair 0.0.110 replaces builtins.print by a no-op while tracing, so _CodeWriter.write_line
# (which print()s into a StringIO) would emit no code.  A module-level `print` with the builtin's
# behaviour for the (str, file=) call form restores it; it is used in the replay as well.
def _print_shim(*args, file=None, sep=" ", end="\n"):
    assert file is not None
    file.write(sep.join([a if isinstance(a, str) else str(a) for a in args]) + end)


T.print = _print_shim
PRINT_STUB = ("tornado.template.print is bound to a pure-Python print (CrossHair suppresses the builtin "
              "print while tracing, which would blank the generated code)")
