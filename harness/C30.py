"""C30 - Form bodies are parsed losslessly and untrusted bodies fail cleanly.

Real code driven: tornado.httputil.parse_body_arguments / parse_multipart_form_data / _parse_header /
_parseparam / HTTPHeaders.parse(_chars_are_bytes=False) / parse_qs_bytes, ParseMultipartConfig limits.
Oracle: (1) a reference ENCODER (RFC 7578 multipart with quoted-string or RFC 2231 parameters, and
x-www-form-urlencoded) builds the body from a symbolic form; the real parser must give back exactly that
form. (2) any other body: returns or raises HTTPInputError. (3) more parts / larger part header than
configured -> HTTPInputError; strictly fewer / not larger -> accepted.
"""
from typing import List, Tuple

from vp.api import P, harness, in_shard, reached

from tornado import httputil
from tornado.httputil import HTTPInputError, ParseBodyConfig, ParseMultipartConfig

IDX = list(range(32))
BOUNDARIES = [b"B", b"--x", b'"q"']      # the last one is given quoted in the header
FILENAMES = [None, "f", 'a"b', "c\\d", "e;f", "é.txt", "a b"]
CTYPES = [None, "text/plain"]


def _q(s: str) -> str:
    """quoted-string: backslash-escape backslash and double quote"""
    return '"' + s.replace("\\", "\\\\").replace('"', '\\"') + '"'


def _pct(s: str) -> str:
    out = []
    for b in s.encode("utf-8"):
        c = chr(b)
        if c.isalnum() and b < 128:
            out.append(c)
        else:
            out.append("%%%02X" % b)
    return "".join(out)


def _encode_part(bnd: bytes, name: str, fi: int, rfc2231: bool, ct, content: bytes) -> bytes:
    disp = "form-data; name=" + _q(name)
    fn = FILENAMES[fi]
    if fn is not None:
        if rfc2231:
            disp += "; filename*=utf-8''" + _pct(fn)
        else:
            disp += "; filename=" + _q(fn)
    head = "Content-Disposition: " + disp
    if ct is not None:
        head += "\r\nContent-Type: " + ct
    return b"--" + bnd + b"\r\n" + head.encode("utf-8") + b"\r\n\r\n" + content + b"\r\n"


NAMES = ["a", 'q"', "b\\", "\u00e9", "x;y", "a b", "="]
CONTENTS = [b"", b"v", b"\r\n", b"--", b"\xff\x00", b"-B\r\n--", b"a=b&c"]


def pre_mp(bi: int, n: int, n0: int, fi0: int, enc0: bool, c0: int, n1: int, c1: int, cti: int) -> bool:
    if not (0 <= bi < len(BOUNDARIES) and 0 <= fi0 < len(FILENAMES) and in_shard(fi0 + len(FILENAMES) * bi)):
        return False
    if not (1 <= n <= 2 and 0 <= cti < len(CTYPES) and 0 <= n0 < P.NN and 0 <= c0 < P.NCT):
        return False
    if n == 2:
        # second part: contents from the first NC1 pool entries; Content-Type variety only in one-part forms
        if not (0 <= n1 < P.NN and 0 <= c1 < P.NC1 and (cti == 0 or P.CT2)):
            return False
    elif not (n1 == 0 and c1 == 0):
        return False
    if fi0 == 0 and (enc0 or cti != 0):
        return False      # no filename: parameter encoding / Content-Type choices are irrelevant (pinned)
    if P.exclude and classify_mp(fi0=fi0, enc0=enc0, n0=n0, n1=n1, n=n) in P.exclude:
        return False
    return True


def classify_mp(**kw):
    fn = FILENAMES[kw["fi0"]]
    quoted = [NAMES[kw["n0"]]] + ([NAMES[kw["n1"]]] if kw["n"] == 2 else []) + ([fn] if fn and not kw["enc0"] else [])
    if any(q.endswith("\\") for q in quoted):
        return "quoted_value_ending_in_backslash"
    if kw["enc0"] and fn is not None and ('"' in fn or "\\" in fn):
        return "rfc2231_value_with_quote_or_backslash"
    return None


@harness(
    pre=pre_mp, classify=classify_mp,
    quick=dict(NN=3, NCT=3, NC1=2, CT2=0, timeout=120, reach_timeout=120),
    thorough=dict(NN=len(NAMES), NCT=len(CONTENTS), NC1=len(CONTENTS), CT2=1, timeout=900, reach_timeout=300),
    nshards=len(FILENAMES) * len(BOUNDARIES),
    reach=["file_part", "field_part", "two_parts_same_name", "rfc2231_filename", "quoted_special_name"],
    units=["httputil.parse_body_arguments", "httputil.parse_multipart_form_data", "httputil._parse_header",
           "httputil._parseparam", "httputil.HTTPHeaders.parse(_chars_are_bytes=False)"],
    stubs=["reference encoder in this module (quoted-string with backslash escapes / RFC 2231 utf-8'' percent form)",
           "every form component is chosen BY SYMBOLIC INDEX from a concrete pool (boundary %r, names %r, filenames %r, "
           "contents %r, quoted/RFC 2231 by a symbolic bool, optional Content-Type, 1-2 parts): CrossHair 0.0.110 cannot "
           "execute bytes.split on a slice of a buffer holding symbolic bytes (CrossHairInternal), so byte-level symbolic "
           "contents are not possible for parse_multipart_form_data" % (BOUNDARIES, NAMES, FILENAMES, CONTENTS)],
    outside=["names/filenames/contents outside the pools", "more than 2 parts", "charsets other than utf-8"],
)
def h_multipart(bi: int, n: int, n0: int, fi0: int, enc0: bool, c0: int, n1: int, c1: int, cti: int):
    bi, fi0, cti = IDX[bi], IDX[fi0], IDX[cti]
    name0, name1 = NAMES[IDX[n0]], NAMES[IDX[n1]]
    c0, c1 = CONTENTS[IDX[c0]], CONTENTS[IDX[c1]]
    braw = BOUNDARIES[bi]
    bnd = braw.strip(b'"')
    assert b"--" + bnd not in c0 and b"--" + bnd not in c1     # pool invariant: boundary nowhere in the content
    body = _encode_part(bnd, name0, fi0, enc0, CTYPES[cti] if FILENAMES[fi0] is not None else None, c0)
    if n == 2:
        body += _encode_part(bnd, name1, 0, False, None, c1)
    body += b"--" + bnd + b"--\r\n"
    args, files = {}, {}
    httputil.parse_body_arguments("multipart/form-data; boundary=" + braw.decode("ascii"), body, args, files)
    # ---- expected
    eargs, efiles = {}, {}
    fn = FILENAMES[fi0]
    if fn is not None:
        if enc0:
            reached("rfc2231_filename")
        else:
            reached("file_part")      # (distinct witnesses per tag: the runner replays twins concurrently)
        efiles.setdefault(name0, []).append((fn, c0, CTYPES[cti] or "application/unknown"))
    else:
        reached("field_part")
        eargs.setdefault(name0, []).append(c0)
    if ('"' in name0 or "\\" in name0) and fn is not None and not enc0:
        reached("quoted_special_name")
    if n == 2:
        eargs.setdefault(name1, []).append(c1)
        if name1 == name0 and fn is None:
            reached("two_parts_same_name")
    assert args == eargs, "arguments %r != form %r" % (args, eargs)
    got = {k: [(f.filename, f.body, f.content_type) for f in v] for k, v in files.items()}
    assert got == efiles, "files %r != form %r" % (got, efiles)


# ------------------------------------------------------------------------------------------------
def _ref_quote_bytes(b: bytes) -> str:
    out = []
    for x in b:
        c = chr(x)
        if ("a" <= c <= "z") or ("0" <= c <= "9"):
            out.append(c)
        elif x == 32:
            out.append("+")
        else:
            out.append("%" + "0123456789ABCDEF"[x >> 4] + "0123456789ABCDEF"[x & 15])
    return "".join(out)


BYTES = [b"a", b"&", b"=", b"%", b"+", b"\xff", b" ", b"\x00", b"\xc3\xa9", b";", b"%41"]


def pre_ue(n: int, k0: int, v0: int, k1: int, v1: int) -> bool:
    nb = P.NB       # keys: BYTES[:NB]; values: BYTES[:NB] or (index NB) the empty value
    if not (1 <= n <= 2 and in_shard(n) and 0 <= k0 < nb and 0 <= v0 <= nb):
        return False
    if n == 2:
        return 0 <= k1 < nb and 0 <= v1 <= nb
    return k1 == 0 and v1 == 0


@harness(
    pre=pre_ue,
    quick=dict(NB=5, timeout=250),
    thorough=dict(NB=len(BYTES), timeout=1200),
    nshards=2,
    reach=["escaped_byte", "repeated_key", "blank_value"],
    units=["httputil.parse_body_arguments (urlencoded branch)", "escape.parse_qs_bytes"],
    stubs=["reference urlencoder in this module (every byte except a-z0-9 percent-encoded, space as '+'); <= 2 pairs, keys "
           "and values by symbolic index from %r (urllib's unquote realises every symbolic byte, so free bytes "
           "enumerate 256^k paths)" % (BYTES,)],
    outside=["keys/values outside the pool, more pairs"],
)
def h_urlencoded(n: int, k0: int, v0: int, k1: int, v1: int):
    vals = BYTES[:P.NB] + [b""]
    k0, v0, k1, v1 = BYTES[IDX[k0]], vals[IDX[v0]], BYTES[IDX[k1]], vals[IDX[v1]]
    pairs = [(k0, v0)] + ([(k1, v1)] if n == 2 else [])
    body = "&".join([_ref_quote_bytes(k) + "=" + _ref_quote_bytes(v) for k, v in pairs]).encode("ascii")
    args, files = {}, {}
    httputil.parse_body_arguments("application/x-www-form-urlencoded", body, args, files)
    exp = {}
    for k, v in pairs:
        exp.setdefault(k.decode("latin-1"), []).append(v)
    if "%" in body.decode("ascii"):
        reached("escaped_byte")
    if n == 2 and k0 == k1:
        reached("repeated_key")
    if v0 == b"":
        reached("blank_value")
    assert args == exp and files == {}, "arguments %r != form %r" % (args, exp)


# ------------------------------------------------------------------------------------------------
CT_POOL = ["multipart/form-data; boundary=B", "multipart/form-data;boundary=\"B\"", "multipart/form-data",
           "application/x-www-form-urlencoded", "multipart/form-data; boundary=", "text/plain"]
PROLOGUES = [b"", b"--B\r\n", b"--B\r\nContent-Disposition: form-data; name=\"a\"\r\n\r\n"]
EPILOGUES = [b"", b"\r\n--B--", b"--B--"]


SUFFIXES = ["", ";", "x", "; boundary=B", "\"", "; charset=utf-8", "=", " "]
TOKENS = [b"--B", b"\r\n", b"\r\n\r\n", b"\xff", b"Content-Disposition: form-data", b"; name=", b'"', b"a", b"--",
          b"=", b"&", b"%", b"; filename*=utf-8''%", b": ", b"\\"]


def pre_cf(ci: int, si: int, pi: int, ei: int, t0: int, t1: int, t2: int, nt: int) -> bool:
    if not (0 <= ci < len(CT_POOL) and 0 <= pi < len(PROLOGUES) and 0 <= ei < len(EPILOGUES)
            and in_shard(ci + len(CT_POOL) * pi)):
        return False
    nk = len(TOKENS)
    if not (0 <= si < P.NS and 0 <= nt <= P.NT):
        return False
    nk = P.NK
    return 0 <= t0 < (nk if nt > 0 else 1) and 0 <= t1 < (nk if nt > 1 else 1) and 0 <= t2 < (nk if nt > 2 else 1)


@harness(
    pre=pre_cf,
    quick=dict(NT=2, NS=2, NK=5, timeout=150),
    thorough=dict(NT=3, NS=len(SUFFIXES), NK=len(TOKENS), timeout=1200),
    nshards=len(CT_POOL) * len(PROLOGUES),
    reach=["raised_input_error", "parsed_ok", "parsed_something"],
    units=["httputil.parse_body_arguments", "httputil.parse_multipart_form_data", "httputil._parse_header",
           "httputil.HTTPHeaders.parse", "escape.parse_qs_bytes"],
    stubs=["content type = pooled value %r + pooled suffix %r; body = pooled prologue + <= NT tokens chosen by symbolic index "
           "from %r + pooled epilogue (token sequences instead of free bytes: see h_multipart for the CrossHair limitation)"
           % (CT_POOL, SUFFIXES, TOKENS)],
    outside=["bodies that are not a prologue + <= NT pooled tokens + epilogue"],
)
def h_clean_failure(ci: int, si: int, pi: int, ei: int, t0: int, t1: int, t2: int, nt: int):
    ct = CT_POOL[IDX[ci]] + SUFFIXES[IDX[si]]
    toks = [TOKENS[IDX[t]] for t in (t0, t1, t2)][:IDX[nt]]
    data = PROLOGUES[IDX[pi]] + b"".join(toks) + EPILOGUES[IDX[ei]]
    args, files = {}, {}
    try:
        httputil.parse_body_arguments(ct, data, args, files)
    except HTTPInputError:
        reached("raised_input_error")
        return
    # any other exception type propagates = counterexample
    reached("parsed_ok")
    if args or files:
        reached("parsed_something")


# ------------------------------------------------------------------------------------------------
def pre_lim(nparts: int, max_parts: int, namelen: int, max_hdr: int, entry: int, enabled: bool) -> bool:
    return 0 <= nparts <= P.NPARTS and in_shard(nparts + (P.NPARTS + 1) * entry) and 0 <= entry <= 2 \
        and 0 <= max_parts <= P.NPARTS + 1 and 1 <= namelen <= 3 and 0 <= max_hdr <= 60


ENTRY = ["parse_multipart_form_data(config=)", "parse_body_arguments(config=ParseBodyConfig(multipart=))",
         "set_parse_body_config() + parse_body_arguments()"]


@harness(
    pre=pre_lim,
    quick=dict(NPARTS=3, timeout=100),
    thorough=dict(NPARTS=5, timeout=600),
    nshards=dict(quick=12, thorough=18),
    reach=["too_many_parts", "header_too_large", "within_limits", "disabled", "per_call_config", "global_config",
           "global_too_many_parts", "per_call_header_too_large"],
    units=["httputil.parse_multipart_form_data (enabled, max_parts, max_part_header_size)", "httputil.parse_body_arguments "
           "(config= and the global default)", "httputil.set_parse_body_config", "httputil.ParseBodyConfig / ParseMultipartConfig"],
    stubs=["bodies built by the reference encoder with nparts identical field parts (name of namelen 'n' characters); "
           "max_parts, max_part_header_size are symbolic ints (far below the global defaults 100 / 10240), enabled a symbolic bool",
           "the configuration reaches the parser on a solver-chosen ENTRY PATH: %r; the global default is restored after each path" % (ENTRY,)],
    outside=["exactly max_parts parts: the statement only demands that the limit is enforced; tornado counts the empty "
             "preamble as a part and rejects exactly-max_parts bodies (reported as an observation)"],
)
def h_limits(nparts: int, max_parts: int, namelen: int, max_hdr: int, entry: int, enabled: bool):
    nparts, namelen, entry = IDX[nparts], IDX[namelen], IDX[entry]
    name = "n" * namelen
    body = b""
    for _ in range(nparts):
        body += _encode_part(b"B", name, 0, False, None, b"v")
    body += b"--B--\r\n"
    hdr_size = len('Content-Disposition: form-data; name=""') + namelen
    cfg = ParseMultipartConfig(enabled=enabled, max_parts=max_parts, max_part_header_size=max_hdr)
    ct = "multipart/form-data; boundary=B"
    args, files = {}, {}
    try:
        if entry == 0:
            httputil.parse_multipart_form_data(b"B", body, args, files, config=cfg)
        elif entry == 1:
            reached("per_call_config")
            httputil.parse_body_arguments(ct, body, args, files, None, config=ParseBodyConfig(multipart=cfg))
        else:
            reached("global_config")
            httputil.set_parse_body_config(ParseBodyConfig(multipart=cfg))
            try:
                httputil.parse_body_arguments(ct, body, args, files)
            finally:
                httputil.set_parse_body_config(ParseBodyConfig())
        ok = True
    except HTTPInputError:
        ok = False
    assert httputil._DEFAULT_PARSE_BODY_CONFIG.multipart.max_parts == 100, "global default not restored"
    where = ENTRY[entry]
    if not enabled:
        reached("disabled")
        assert not ok, "multipart parsing disabled via %s but the body was parsed" % (where,)
    elif nparts > max_parts:
        reached("too_many_parts")
        if entry == 2:
            reached("global_too_many_parts")
        assert not ok, "%d parts accepted with max_parts=%d given via %s" % (nparts, max_parts, where)
    elif nparts > 0 and hdr_size > max_hdr:
        reached("header_too_large")
        if entry == 1:
            reached("per_call_header_too_large")
        assert not ok, "part header of %d bytes accepted with max_part_header_size=%d given via %s" % (
            hdr_size, max_hdr, where)
    elif nparts < max_parts:
        reached("within_limits")
        assert ok, "%d parts with %d-byte headers rejected (max_parts=%d, max_part_header_size=%d via %s)" % (
            nparts, hdr_size, max_parts, max_hdr, where)
        assert args == ({name: [b"v"] * nparts} if nparts else {})
