"""C39 part 1: z3 obligations on PeriodicCallback._update_next, generated from the live source
through engines/pyk.py (Engine C).  Used by harness/C39.py EXTRAS.

Notation: n = self._next_timeout before, n' after; t = current_time; ct = self.callback_time (ms);
p = callback_time_sec as computed by the code (ct / 1000.0); j = self.jitter; r = random.random().

Real/Int obligations (all reals, ct > 0):
  R1 mono        n' > n
  R2 grid        n' = n + k*p for an integer k >= 1   (witness k defined on the SPEC side:
                 k = floor((t-n)/p)+1 if n <= t else 1, floor by its own integer witness)
  R3 not-before  n' >= t          (in fact n' > t is proved)
  R4 one-period  n <= t  =>  n' <= t + p
  R5 defined     no ZeroDivisionError on any path
  R6 jitter mono 0 < j <= 1, r in [0,1)  =>  n' > n      (+ definedness)
IEEE obligations (RNE; t, n in [1e9, 2e9]; pmin <= p <= 1e9; 0 <= ct <= 1e12):
  group a (binary64 = the real semantics, pmin = 1e-6):
     F1 mono n' > n;  F2 grid: n' == fl(n + fl(k*p)) with k = (n<=t ? fl(floor(fl(fl(t-n)/p)) + 1) : 1),
     k >= 1, k integral;  F5 definedness (no division by zero, floor argument finite)
  group b / c (scaled small formats FPSort(8, s): pmin = 1e-6 * 2^(53-s), tol = 2^-20 * 2^(53-s), i.e. the
     same pmin/ulp(t) and tol/ulp(t) ratios as binary64 - bit-precise for that format, a MODEL of binary64):
     F3 not-before n' >= t - tol;   F4 one-period  n <= t => n' <= fl(fl(t + p) + tol)
"""
import math
import random
import time
from fractions import Fraction

import z3

from engines import pyk


def _fn():
    from tornado.ioloop import PeriodicCallback
    return PeriodicCallback, PeriodicCallback._update_next


def _inst(PC, ct, n, jitter=0):
    pc = PC.__new__(PC)
    pc.callback_time = ct
    pc.jitter = jitter
    pc._next_timeout = n
    return pc


class _Rand:
    def __init__(self, v):
        self.v = v

    def random(self):
        return self.v


def _call_real(PC, ct, n, t, jitter=0, r=None):
    """run the REAL method; returns the new _next_timeout."""
    from tornado import ioloop
    pc = _inst(PC, ct, n, jitter)
    saved = ioloop.random
    if r is not None:
        ioloop.random = _Rand(r)
    try:
        pc._update_next(t)
    finally:
        ioloop.random = saved
    return pc._next_timeout


class _Run:
    def __init__(self, timeout_ms):
        self.timeout_ms = timeout_ms
        self.obl = 0
        self.dis = 0
        self.queries = 0
        self.solver_s = 0.0
        self.samples = []
        self.violations = []
        self.inconclusive = []
        self.errors = []

    def prove(self, name, k, hyp, concl, replay):
        """obligation: side /\\ hyp => concl.  replay(model) -> (reproduced: bool, input: dict, detail)"""
        self.obl += 1
        s = z3.Solver()
        s.set("timeout", self.timeout_ms)
        s.add(k.side_conj())
        s.add(hyp)
        s.add(z3.Not(concl))
        t0 = time.time()
        r = s.check()
        dt = time.time() - t0
        self.queries += 1
        self.solver_s += dt
        rec = dict(obligation=name, mode=k.mode.name, result=str(r), solver_s=round(dt, 2))
        if r == z3.unsat:
            self.dis += 1
        elif r == z3.sat:
            m = s.model()
            ok, inp, detail = replay(m)
            rec["model"] = inp
            if ok:
                self.violations.append(dict(
                    detail="%s [%s]: %s" % (name, k.mode.name, detail), input=inp,
                    finding_key="C39-" + name.split()[0]))
            else:
                self.inconclusive.append("%s [%s]: solver model did not reproduce on the real "
                                         "_update_next in binary64: %s %s" % (name, k.mode.name, inp, detail))
        else:
            self.inconclusive.append("%s [%s]: solver returned %s after %.0fs (%s)" % (
                name, k.mode.name, r, dt, s.reason_unknown()))
        self.samples.append(rec)
        return r

    def result(self, trusted, assumptions, extra=None):
        if self.errors:
            st = "ERROR"
        elif self.violations:
            st = "VIOLATION"
        elif self.dis == self.obl and not self.inconclusive:
            st = "PROVED"
        else:
            st = "BOUNDED"
        d = dict(status=st, obligations=self.obl, discharged=self.dis, queries=self.queries,
                 solver_s=round(self.solver_s, 2), samples=self.samples, trusted_base=trusted,
                 assumptions=assumptions + ["inconclusive: " + x for x in self.inconclusive],
                 violations=self.violations)
        if self.errors:
            d["message"] = "; ".join(self.errors)[:1500]
        if extra:
            d.update(extra)
        return d


TRUSTED = ["engines/pyk.py (Python-AST -> z3 translator; validated every run against the real method on "
           ">= 200 concrete inputs)", "z3 theories of reals/integers and IEEE floating point"]

FIELDS = dict(callback_time=("float",), jitter=0, _next_timeout=("float",))
FIELDS_J = dict(callback_time=("float",), jitter=("float",), _next_timeout=("float",))
ARGS = dict(current_time=("float",))


# ------------------------------------------------------------------------------------------ reals
def _validate_real(PC, fn, seed, errors):
    """the Real encoding evaluated at dyadic rationals (where binary64 arithmetic is exact apart from the
    quotient, whose floor is unaffected) must equal the real method's result exactly."""
    rnd = random.Random(seed + 39)
    k0 = pyk.translate(fn, pyk.RealMode(), FIELDS, ARGS)
    kj = pyk.translate(fn, pyk.RealMode(), FIELDS_J, ARGS)
    n_ok = 0
    for i in range(260):
        p = Fraction(rnd.randint(1, 400), 16)
        ct = float(p * 1000)
        n = float(Fraction(rnd.randint(0, 4000), 16))
        t = float(Fraction(rnd.randint(0, 4000), 16))
        if i % 5 == 0:
            t = n + float(p) * rnd.randint(0, 6)       # exactly on the grid (floor boundary)
        if i % 2 == 0:
            got = Fraction(_call_real(PC, ct, n, t))
            enc = pyk.eval_real(k0, k0.fields_out["_next_timeout"].term,
                                {"self.callback_time": ct, "self._next_timeout": n, "current_time": t})
        else:
            j = float(Fraction(rnd.randint(1, 16), 16))
            r = float(Fraction(rnd.randint(0, 15), 16))
            got = Fraction(_call_real(PC, ct, n, t, jitter=j, r=r))
            vals = {"self.callback_time": ct, "self._next_timeout": n, "current_time": t, "self.jitter": j}
            vals[kj.randoms[0]] = r
            enc = pyk.eval_real(kj, kj.fields_out["_next_timeout"].term, vals)
            # the jittered period has <= 12 fractional bits here, still exact in binary64
        if got != enc:
            errors.append("translator validation (real): input ct=%r n=%r t=%r: real method %r, encoding %r"
                          % (ct, n, t, got, enc))
            return n_ok
        n_ok += 1
    return n_ok


def run_real(tier, seed):
    PC, fn = _fn()
    run = _Run(120000)
    try:
        nval = _validate_real(PC, fn, seed, run.errors)
        k = pyk.translate(fn, pyk.RealMode(), FIELDS, ARGS)
    except pyk.Unsupported as e:
        return dict(status="ERROR", message="translator: unsupported construct: %s" % e)
    n, t, ct = k.inputs["self._next_timeout"], k.inputs["current_time"], k.inputs["self.callback_time"]
    n2 = k.fields_out["_next_timeout"].term
    if set(k.fields_out) != {"callback_time", "jitter", "_next_timeout"}:
        return dict(status="ERROR", message="unexpected fields written: %r" % sorted(k.fields_out))
    p = ct / 1000
    H = ct > 0

    def replayer(pred):
        def rp(m):
            fn_, ft, fct = (pyk.model_float(m, v) for v in (n, t, ct))
            a, b, c = float(fn_), float(ft), float(fct)
            if c <= 0:
                return False, dict(n=a, t=b, callback_time=c), "model not representable"
            out = _call_real(PC, c, a, b)
            bad = not pred(Fraction(a), Fraction(b), Fraction(c) / 1000, Fraction(out))
            return bad, dict(_next_timeout=a, current_time=b, callback_time=c, new_next_timeout=out), \
                "real _update_next gave %r" % out
        return rp

    tol = Fraction(1, 2 ** 20)
    run.prove("R1 mono n'>n", k, H, n2 > n, replayer(lambda a, b, q, o: o > a))
    ks = z3.Int("k_spec")
    spec_floor = z3.And(z3.ToReal(ks) <= (t - n) / p, (t - n) / p < z3.ToReal(ks) + 1)
    w = z3.If(n <= t, ks + 1, 1)
    grid_py = replayer(lambda a, b, q, o: abs(((o - a) / q) - round((o - a) / q)) * q <= tol and o - a >= q - tol)
    hyp2 = z3.And(H, spec_floor)
    if len(k.witnesses) == 1:
        # lemma (proved first, then used): the spec's floor witness equals the translator's (uniqueness of
        # floor) - keeps the main query free of a nonlinear uniqueness argument
        lem = ks == k.witnesses[0][0]
        if run.prove("R2a floor witness unique", k, hyp2, lem, lambda m: (False, {}, "lemma")) == z3.unsat:
            hyp2 = z3.And(hyp2, lem)
    run.prove("R2 grid n'=n+k*p, k>=1 integer", k, hyp2, z3.And(n2 == n + z3.ToReal(w) * p, w >= 1), grid_py)
    run.prove("R3 not-before n'>=t (strict: n'>t)", k, H, n2 > t, replayer(lambda a, b, q, o: o >= b - tol))
    run.prove("R4 one-period n<=t => n'<=t+p", k, z3.And(H, n <= t), n2 <= t + p,
              replayer(lambda a, b, q, o: a > b or o <= b + q + tol))
    for lab, pc, c in k.safety:
        run.prove("R5 defined: " + lab, k, z3.And(H, pc), c, lambda m: (False, {}, "definedness"))
    # ---- jitter
    try:
        kj = pyk.translate(fn, pyk.RealMode(), FIELDS_J, ARGS)
    except pyk.Unsupported as e:
        return dict(status="ERROR", message="translator: unsupported construct: %s" % e)
    nj, tj, ctj, jj = (kj.inputs[x] for x in ("self._next_timeout", "current_time", "self.callback_time",
                                              "self.jitter"))
    HJ = z3.And(ctj > 0, jj > 0, jj <= 1)
    if len(kj.randoms) != 1:
        return dict(status="ERROR", message="expected exactly one random.random() draw")

    def rpj(m):
        vals = [float(pyk.model_float(m, v)) for v in (nj, tj, ctj, jj, kj.randoms[0])]
        out = _call_real(PC, vals[2], vals[0], vals[1], jitter=vals[3], r=vals[4])
        return not out > vals[0], dict(_next_timeout=vals[0], current_time=vals[1], callback_time=vals[2],
                                       jitter=vals[3], random=vals[4], new_next_timeout=out), "real gave %r" % out

    run.prove("R6 jitter mono n'>n", kj, HJ, kj.fields_out["_next_timeout"].term > nj, rpj)
    for lab, pc, c in kj.safety:
        run.prove("R6 defined: " + lab, kj, z3.And(HJ, pc), c, lambda m: (False, {}, "definedness"))
    return run.result(TRUSTED, [
        "Real/Int obligations: Python float arithmetic idealised as exact real arithmetic (the IEEE obligations "
        "kernel_fp_* cover rounding)", "jitter fraction 0 < j <= 1 (documented use: e.g. 0.1); random.random() in [0,1)",
        "translator validated on %d concrete inputs against the real method (exact equality)" % nval],
        extra=dict(source_sha=k.source_sha, validated_inputs=nval))


# ------------------------------------------------------------------------------------------ IEEE
def _validate_fp64(PC, fn, seed, errors):
    rnd = random.Random(seed + 3900)
    sort = z3.Float64()
    k0 = pyk.translate(fn, pyk.FPMode(sort), FIELDS, ARGS)
    kj = pyk.translate(fn, pyk.FPMode(sort), FIELDS_J, ARGS)
    n_ok = 0
    for i in range(240):
        ct = rnd.choice([rnd.uniform(1e-3, 10.0), rnd.uniform(1, 1e5), float(rnd.randint(1, 5000)),
                         10 ** rnd.uniform(-3, 9)])
        n = rnd.uniform(1e9, 2e9)
        t = n + rnd.choice([0.0, rnd.uniform(-5, 5), rnd.uniform(0, 1e4), (ct / 1000.0) * rnd.randint(0, 50),
                            -rnd.uniform(0, 1e-3)])
        if i % 3:
            got = _call_real(PC, ct, n, t)
            enc = pyk.eval_fp(k0, k0.fields_out["_next_timeout"].term,
                              {"self.callback_time": ct, "self._next_timeout": n, "current_time": t})
        else:
            j = rnd.uniform(0.01, 1.0)
            r = rnd.random()
            got = _call_real(PC, ct, n, t, jitter=j, r=r)
            vals = {"self.callback_time": ct, "self._next_timeout": n, "current_time": t, "self.jitter": j}
            vals[kj.randoms[0]] = r
            enc = pyk.eval_fp(kj, kj.fields_out["_next_timeout"].term, vals)
        if not (got == enc and math.copysign(1, got) == math.copysign(1, enc)):
            errors.append("translator validation (binary64): ct=%r n=%r t=%r: real method %r, encoding %r"
                          % (ct, n, t, got, enc))
            return n_ok
        n_ok += 1
    return n_ok


def _run_fp_one(tier, seed, group, sb, timeout_ms):
    PC, fn = _fn()
    quick = tier == "quick"
    run = _Run(timeout_ms)
    try:
        nval = 0
        if group == "a":
            sort = z3.Float64()
        else:
            sort = z3.FPSort(8, sb)
        k = pyk.translate(fn, pyk.FPMode(sort), FIELDS, ARGS)
    except pyk.Unsupported as e:
        return dict(status="ERROR", message="translator: unsupported construct: %s" % e)
    sc = 2.0 ** (53 - sort.sbits())
    rm = z3.RNE()

    def F(x):
        return z3.FPVal(x, sort)

    n, t, ct = k.inputs["self._next_timeout"], k.inputs["current_time"], k.inputs["self.callback_time"]
    n2 = k.fields_out["_next_timeout"].term
    if "callback_time_sec" not in k.locals:
        return dict(status="ERROR", message="local callback_time_sec not found in the translated kernel")
    p = k.locals["callback_time_sec"].term
    pmin, tol = 1e-6 * sc, 2.0 ** -20 * sc
    H = z3.And(z3.fpGEQ(p, F(pmin)), z3.fpLEQ(p, F(1e9)), z3.fpGEQ(t, F(1e9)), z3.fpLEQ(t, F(2e9)),
               z3.fpGEQ(n, F(1e9)), z3.fpLEQ(n, F(2e9)), z3.fpGEQ(ct, F(0.0)), z3.fpLEQ(ct, F(1e12)))
    B1 = z3.fpLEQ(n, t)

    def replayer(pred):
        def rp(m):
            a, b, c = (pyk.model_float(m, v) for v in (n, t, ct))
            out = _call_real(PC, c, a, b)
            q = c / 1000.0
            bad = not pred(a, b, q, out)
            return bad, dict(_next_timeout=a, current_time=b, callback_time=c, new_next_timeout=out), \
                "real _update_next (binary64) gave %r" % out
        return rp

    T64 = Fraction(1, 2 ** 20)
    if group == "a":
        run.prove("F1 mono n'>n", k, H, z3.fpGT(n2, n), replayer(lambda a, b, q, o: o > a))
        kf = z3.If(B1, z3.fpAdd(rm, z3.fpRoundToIntegral(z3.RTN(), z3.fpDiv(rm, z3.fpSub(rm, t, n), p)), F(1.0)),
                   F(1.0))

        def grid_py(a, b, q, o):
            kk = (math.floor((b - a) / q) + 1) if a <= b else 1
            return o == a + kk * q and kk >= 1

        geq = z3.fpEQ(n2, z3.fpAdd(rm, n, z3.fpMul(rm, kf, p)))
        run.prove("F2a grid n'==fl(n+fl(k*p)) (n<=t)", k, z3.And(H, B1), geq, replayer(grid_py))
        run.prove("F2a grid n'==fl(n+fl(k*p)) (n>t)", k, z3.And(H, z3.Not(B1)), geq, replayer(grid_py))
        run.prove("F2b grid k>=1", k, H, z3.fpGEQ(kf, F(1.0)), replayer(grid_py))
        run.prove("F2c grid k integral", k, H, z3.fpEQ(kf, z3.fpRoundToIntegral(rm, kf)), replayer(grid_py))
        for lab, pc, c in k.safety:
            run.prove("F5 defined: " + lab, k, z3.And(H, pc), c, lambda m: (False, {}, "definedness"))
    elif group == "b":
        goal = z3.fpGEQ(n2, z3.fpSub(rm, t, F(tol)))
        py = lambda a, b, q, o: Fraction(o) >= Fraction(b) - T64
        run.prove("F3 not-before n'>=t-tol (n<=t)", k, z3.And(H, B1), goal, replayer(py))
        run.prove("F3 not-before n'>=t-tol (n>t)", k, z3.And(H, z3.Not(B1)), goal, replayer(py))
    elif group == "c":
        goal = z3.fpLEQ(n2, z3.fpAdd(rm, z3.fpAdd(rm, t, p), F(tol)))
        run.prove("F4 one-period n<=t => n'<=t+p+tol", k, z3.And(H, B1), goal,
                  replayer(lambda a, b, q, o: a > b or Fraction(o) <= Fraction(b) + Fraction(q) + T64))
    else:
        return dict(status="ERROR", message="unknown group")
    # translator validation (after the queries: z3 5.1 answered `unknown (invalid extract application)` on the
    # small-format query when binary64 terms had been built in the same context before)
    try:
        nval = _validate_fp64(PC, fn, seed, run.errors)
    except pyk.Unsupported as e:
        run.errors.append("translator validation: %s" % e)
    fmt = "binary64" if group == "a" else "FPSort(8,%d) scaled model of binary64" % sort.sbits()
    return run.result(TRUSTED, [
        "IEEE obligations in %s, RNE; t, n in [1e9, 2e9] (epoch scale), %g <= p <= 1e9, tolerance %g"
        % (fmt, pmin, tol),
        "binary64 encoding validated on %d concrete inputs against the real method (bit-equal)" % nval] + (
        [] if group == "a" else [
            "F3/F4 are decided bit-precisely for a reduced-precision format with the same p_min/ulp(t) and "
            "tol/ulp(t) ratios as binary64 (binary32/64 queries did not terminate within 300 s); the binary64 "
            "claim for these two clauses rests on that model plus the exact-real proofs R3/R4"]),
        extra=dict(source_sha=k.source_sha, validated_inputs=nval, fp_format=fmt))


def run_fp(tier, seed, group):
    """group a: binary64.  groups b/c: reduced-precision formats - candidate mantissa widths are tried in turn
    (z3 5.1 is erratic on these bit-blasted queries: 36-100 s at some widths, timeout or an immediate
    `unknown (invalid extract application)` at others); the first width at which every obligation of the group
    is `unsat` is reported, otherwise the last inconclusive result (BOUNDED - never success)."""
    quick = tier == "quick"
    if group == "a":
        return _run_fp_one(tier, seed, group, 53, 560000 if quick else 2400000)
    cands = dict(b=[11, 9], c=[10, 11])[group] if quick else dict(b=[12, 11], c=[12, 11, 9, 10])[group]
    tried = []
    r = None
    for sb in cands:
        r = _run_fp_one(tier, seed, group, sb, 240000 if quick else 1200000)  # z3 timeouts are WALL time: generous because the machine is shared
        tried.append("FPSort(8,%d): %s" % (sb, r.get("status")))
        if r.get("status") in ("PROVED", "VIOLATION", "ERROR"):
            break
    r["assumptions"] = list(r.get("assumptions", [])) + ["formats tried: " + ", ".join(tried)]
    return r


# ------------------------------------------------------------------------------------------ __init__ conversion
def run_init(tier, seed):
    """PeriodicCallback.__init__ translated from its current source (Real/Int mode; a timedelta is its integer
    microsecond count u): for ALL integers u >= 1
       I1  callback_time (ms) * 1000 == u exactly (no floor, no truncation of sub-millisecond periods), and > 0
       I2  composed with the translated _update_next from a grid point n = t: n' - n == u / 10^6 s exactly
       I3  no ZeroDivisionError / no raise on this path
    and for the float form: callback_time > 0 is stored unchanged, the raise is unreachable (I4)."""
    import datetime
    PC, fn = _fn()
    run = _Run(120000)
    try:
        ki = pyk.translate(PC.__init__, pyk.RealMode(), {}, dict(callback=("opaque",), callback_time=("td",), jitter=0))
        kf = pyk.translate(PC.__init__, pyk.RealMode(), {}, dict(callback=("opaque",), callback_time=("float",), jitter=0))
        ku = pyk.translate(fn, pyk.RealMode(), FIELDS, ARGS)
    except pyk.Unsupported as e:
        return dict(status="ERROR", message="translator: unsupported construct: %s" % e)
    for k_ in (ki, kf):
        if "callback_time" not in k_.fields_out or k_.fields_out["callback_time"].kind not in ("float", "int"):
            return dict(status="ERROR", message="__init__ does not store a numeric callback_time on this path")
    u = ki.inputs["callback_time"]
    out = ki.fields_out["callback_time"]
    ct = z3.ToReal(out.term) if out.kind == "int" else out.term
    # ---- translator validation on concrete inputs: the real __init__ vs the encoding
    rnd = random.Random(seed + 391)
    nval = 0
    for i in range(220):
        uu = rnd.choice([rnd.randint(1, 999), rnd.randint(1, 5000000), 1000 * rnd.randint(1, 5000),
                         125 * rnd.randint(1, 40000), 15625, 1500])
        real = PC(lambda: None, datetime.timedelta(microseconds=uu)).callback_time
        enc = pyk.eval_real(ki, ct, {"callback_time": uu})
        # the real value must be the correctly rounded double of the exact ratio computed by the encoding
        if float(enc) != real:
            run.errors.append("translator validation (__init__): u=%d real %r != float(encoding) %r" % (uu, real, float(enc)))
            break
        nval += 1

    def replay_u(m):
        uu = int(pyk.model_float(m, u))
        try:
            pc = PC(lambda: None, datetime.timedelta(microseconds=uu))
            real = pc.callback_time
            bad = abs(Fraction(real) * 1000 - uu) * (1 << 50) > uu
            detail = "real __init__ gave callback_time=%r ms for %d us" % (real, uu)
            if not bad and real > 0:
                pc._next_timeout = 1000
                pc._update_next(1000)
                bad = abs(Fraction(pc._next_timeout) - 1000 - Fraction(uu, 10 ** 6)) > Fraction(1, 10 ** 9)
                detail += "; first deadline start+%r s" % (pc._next_timeout - 1000)
        except Exception as e:
            bad, detail = True, "real code raised %r for %d us" % (e, uu)
        return bad, dict(timedelta_microseconds=uu), detail

    H = u >= 1
    run.prove("I1 callback_time*1000 == u (exact period kept)", ki, H, z3.And(ct * 1000 == z3.ToReal(u), ct > 0), replay_u)
    # composition with _update_next from a grid point
    n, t, cti = ku.inputs["self._next_timeout"], ku.inputs["current_time"], ku.inputs["self.callback_time"]
    n2 = ku.fields_out["_next_timeout"].term
    comp_h = z3.And(H, cti == ct, n == t, ku.side_conj())
    run.prove("I2 first deadline from a grid point == start + u/10^6 s", ki, comp_h,
              n2 - n == z3.ToReal(u) / 1000000, replay_u)
    for lab, pc_, c in ki.safety:
        run.prove("I3 td path: " + lab, ki, z3.And(H, pc_), c, replay_u)
    for lab, pc_, c in ku.safety:
        run.prove("I3 composed _update_next: " + lab, ki, z3.And(comp_h, pc_), c, replay_u)
    f_in = kf.inputs["callback_time"]

    def replay_f(m):
        v = float(pyk.model_float(m, f_in))
        try:
            real = PC(lambda: None, v).callback_time
            return real != v, dict(callback_time=v), "real __init__ stored %r" % real
        except Exception as e:
            return v > 0, dict(callback_time=v), "real __init__ raised %r" % (e,)

    run.prove("I4 float form stored unchanged", kf, f_in > 0, kf.fields_out["callback_time"].term == f_in, replay_f)
    for lab, pc_, c in kf.safety:
        run.prove("I4 float form: " + lab, kf, z3.And(f_in > 0, pc_), c, replay_f)
    return run.result(TRUSTED, [
        "timedelta modelled as its integer microsecond count; timedelta / timedelta is the exact ratio (CPython rounds "
        "it once to binary64: checked on the validation inputs and by harness h_init on a pool of periods)",
        "translator validated on %d concrete timedelta inputs against the real __init__" % nval],
        extra=dict(source_sha=ki.source_sha, validated_inputs=nval))
