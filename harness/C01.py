"""C01 - HTTP/1.x request framing is exact, strict and chunking-independent.

Decomposition (DESIGN section 4, C01); every unit is the REAL tornado code:
  h_startline  httputil.parse_request_start_line, any str (unit 1, CrossHair part)
  h_headers    HTTP1Connection._parse_headers + HTTPHeaders.parse/parse_line/add on a short header block
  h_framing    HTTP1Connection._read_body / is_transfer_encoding_chunked / parse_int, symbolic header VALUES
  h_chunked    HTTP1Connection._read_chunked_body over FakeStream, symbolic size lines / terminators
  h_loop       HTTP1ServerConnection._server_request_loop + _read_message, pooled concrete requests,
               symbolic lengths / corruption positions, rejection => 400-or-close, nothing further delivered,
               no uncaught-exception log record
Segmentation independence: by composition with C11 (FakeStream implements the read contracts C11
establishes for BaseIOStream); the only segmentation visible through the interface (partial read
sizes) is the symbolic `seg`.
"""
from typing import List, Tuple

from vp.api import P, harness, in_shard, reached
from vp.env import install
from vp.fakestream import FakeStream

from tornado import httputil
from tornado.http1connection import (HTTP1Connection, HTTP1ConnectionParameters,
                                     HTTP1ServerConnection)
from tornado.iostream import StreamClosedError

from harness._httpin import FMT, LogTrap, RecConn, body_of, count

TECHNIQUE = "symbolic execution of the real Python code (CrossHair/z3), bounded"
ASSUMPTIONS = [FMT]

BIG = 1 << 40


# =====================================================================================
# unit 3: framing decision
# =====================================================================================
def _ascii_lower(s: str) -> str:
    return "".join(chr(ord(c) + 32) if "A" <= c <= "Z" else c for c in s)


def _is_digits(s: str) -> bool:
    if len(s) == 0:
        return False
    for c in s:
        if not ("0" <= c <= "9"):
            return False
    return True


def _ows_strip(s: str) -> str:
    i, j = 0, len(s)
    while i < j and (s[i] == " " or s[i] == "\t"):
        i += 1
    while j > i and (s[j - 1] == " " or s[j - 1] == "\t"):
        j -= 1
    return s[i:j]


def ref_framing(cls: List[str], te):
    """RFC 9112 section 6.3 reference.  Returns ('reject',) | ('chunked',) | ('fixed', n) | ('none',)
    | ('grey',) for shapes where the RFC leaves latitude (see h_framing doc)."""
    if te is not None:
        if cls:
            return ("reject",)
        if _ascii_lower(te) == "chunked":
            return ("chunked",)
        return ("reject",)
    if not cls:
        return ("none",)
    pieces = []
    for v in cls:
        for p in v.split(","):
            pieces.append(p)
    stripped = [_ows_strip(p) for p in pieces]
    for p in stripped:
        if p == "" and len(pieces) > 1:
            continue          # empty list element: RFC 9110 5.6.1 lets a recipient ignore or reject
        if not _is_digits(p):
            return ("reject",)
    nonempty = [p for p in stripped if p != ""]
    if not nonempty:
        return ("reject",)
    n0 = int(nonempty[0])
    for p in nonempty:
        if int(p) != n0:
            return ("reject",)
    # what remains is numerically consistent; strictly-formed ("n" or "n, n" / "n,n") must be accepted
    strict = all(p == nonempty[0] for p in stripped) and \
        all(pieces[i] == stripped[i] or (i > 0 and pieces[i].lstrip(" \t") == stripped[i])
            for i in range(len(pieces)))
    if strict:
        return ("fixed", int(nonempty[0]))
    return ("grey", int(nonempty[0]))


def _te_of(tek: int, mask: int, te: bytes) -> str:
    """Transfer-Encoding candidates: 0 any short value; 1 'chunked' with a symbolic case mask;
    2 short symbolic prefix + 'chunked'; 3 'chunked' + short symbolic suffix."""
    t = te.decode("latin-1")
    if tek == 0:
        return t
    if tek == 1:
        out = ""
        for i, c in enumerate("chunked"):
            out += chr(ord(c) - 32) if (mask >> i) & 1 else c
        return out
    if tek == 2:
        return t + "chunked"
    return "chunked" + t


def pre_framing(shape: int, cl1: bytes, cl2: bytes, tek: int, mask: int, te: bytes) -> bool:
    if not (0 <= shape <= 5 and 0 <= tek <= 3 and 0 <= mask <= 127):
        return False
    has1 = shape in (1, 2, 4, 5)
    has2 = shape in (2, 5)
    hast = shape >= 3
    both = shape >= 4
    if len(cl1) > ((P.L1B if both else P.L1D if has2 else P.L1) if has1 else 0):
        return False
    if len(cl2) > ((P.L2B if both else P.L2) if has2 else 0):
        return False
    if not hast and (tek != 0 or len(te) > 0):
        return False
    if tek != 1 and mask != 0:
        return False
    if hast:
        if both and (tek >= 2 or len(te) > P.LTB):
            return False
        if tek == 0 and len(te) > P.LT:
            return False
        if tek == 1 and len(te) > 0:
            return False
        if tek >= 2 and len(te) > P.LTX:
            return False
    return in_shard(shape * 7 + tek * 5 + len(cl1) * 3 + len(cl2) * 11 + len(te) * 13)


@harness(
    pre=pre_framing,
    quick=dict(L1=3, L1D=2, L2=2, LT=3, LTX=2, L1B=1, L2B=1, LTB=2, timeout=120, reach_timeout=90),
    thorough=dict(L1=4, L1D=3, L2=3, LT=6, LTX=3, L1B=2, L2B=2, LTB=3, timeout=1200, reach_timeout=200),
    nshards=dict(quick=16, thorough=32),
    reach=["reject_cl_te", "accept_chunked", "accept_dup_cl", "reject_nonnumeric", "reject_te_other"],
    units=["http1connection.HTTP1Connection._read_body", "http1connection.is_transfer_encoding_chunked",
           "http1connection.parse_int", "httputil.HTTPHeaders.add", "httputil.HTTPHeaders.__getitem__"],
    stubs=[FMT,
           "header values are injected through the real HTTPHeaders.add (values it refuses are outside this unit: "
           "they are rejected at header-parse level, see h_headers); names are the concrete "
           "Content-Length / Transfer-Encoding",
           "Transfer-Encoding value: any bytes <= LT, or 'chunked' under a symbolic 7-bit case mask, or "
           "symbolic prefix/suffix (<= LTX) around 'chunked'",
           "the three body readers of the connection are replaced by recorders on the instance (they are "
           "units of h_chunked / C04.h_body); max_body_size = 2**40 so the size limit (C04) does not interfere",
           "values are bytes decoded as latin-1, exactly as _parse_headers does"],
    outside=["values longer than the bounds", "more than two Content-Length lines, more than one Transfer-Encoding line",
             "grey shapes where RFC 9110 5.6.1 leaves latitude (empty list elements, OWS before a comma, "
             "'01' vs '1'): there only 'accept => the numerically consistent length' is asserted"],
)
def h_framing(shape: int, cl1: bytes, cl2: bytes, tek: int, mask: int, te: bytes):
    """A request with the given Content-Length lines / Transfer-Encoding line is framed exactly as
    RFC 9112 6.3 demands, or rejected with HTTPInputError (-> 400) and nothing else."""
    if P.reach == "accept_dup_cl" and not (shape == 2 and cl1 == cl2):
        return   # reach twin only: prune the search towards the witness region (the real code still runs)
    has1 = shape in (1, 2, 4, 5)
    has2 = shape in (2, 5)
    hast = shape >= 3
    s1, s2 = cl1.decode("latin-1"), cl2.decode("latin-1")
    st = _te_of(tek, mask, te) if hast else ""
    headers = httputil.HTTPHeaders()
    try:
        headers.add("Host", "x")
        if has1:
            headers.add("Content-Length", s1)
        if hast:
            headers.add("Transfer-Encoding", st)
        if has2:
            headers.add("Content-Length", s2)
    except httputil.HTTPInputError:
        return  # rejected by the header layer already
    cls = ([s1] if has1 else []) + ([s2] if has2 else [])
    want = ref_framing(cls, st if hast else None)
    with install() as env:
        stream = FakeStream(env.loop, b"", eof=True)
        conn = HTTP1Connection(stream, False, HTTP1ConnectionParameters(max_body_size=BIG))
        conn._read_fixed_body = lambda n, d: ("fixed", n)
        conn._read_chunked_body = lambda d: ("chunked",)
        conn._read_body_until_close = lambda d: ("until_close",)
        try:
            got = conn._read_body(0, headers, object())
            if got is None:
                got = ("none",)
        except httputil.HTTPInputError:
            got = ("reject",)
    # any other exception type propagates = counterexample (peer input must never crash the reader)
    if want[0] == "reject":
        if hast and cls:
            reached("reject_cl_te")
        elif hast:
            reached("reject_te_other")
        else:
            reached("reject_nonnumeric")
        assert got == ("reject",), "RFC 9112 6.3 demands rejection, tornado chose %r" % (got,)
    elif want[0] == "grey":
        assert got == ("reject",) or got == ("fixed", want[1]), \
            "lenient Content-Length list must frame to its numeric value or be rejected, got %r" % (got,)
    else:
        if want[0] == "chunked":
            reached("accept_chunked")
        if want[0] == "fixed" and has2:
            reached("accept_dup_cl")
        assert got == want, "framing differs from RFC 9112 6.3: want %r got %r" % (want, got)


# ---- three (or more) Content-Length values: as header lines and/or list elements of one value; also on the
# client side (responses go through the same _read_body).  Added after a seeding round showed that
# "first == last, middle differs" ("3, 8, 3") is not reachable with two values.
def pre_framing3(cl1: bytes, cl2: bytes, cl3: bytes, lst: int, client: bool) -> bool:
    if not (0 <= lst <= 3 and len(cl1) <= P.LA and len(cl2) <= P.LB and len(cl3) <= P.LA):
        return False
    if client and lst > 1:
        return False
    cell = lst if not client else 4 + lst          # 0..5
    return in_shard(cell * 2 + len(cl2) % 2)


@harness(
    pre=pre_framing3,
    quick=dict(LA=1, LB=1, timeout=120, reach_timeout=60),
    thorough=dict(LA=2, LB=3, timeout=1200, reach_timeout=120),
    nshards=dict(quick=12, thorough=12),
    reach=["reject_middle_differs", "accept_triple", "reject_middle_differs_client"],
    units=["http1connection.HTTP1Connection._read_body", "http1connection.parse_int",
           "httputil.HTTPHeaders.add", "httputil.HTTPHeaders.__getitem__"],
    stubs=[FMT,
           "three Content-Length values cl1/cl2/cl3 injected through the real HTTPHeaders.add as: three field lines "
           "(lst=0), one line 'cl1,cl2,cl3' (1), one line 'cl1, cl2, cl3' (2), two lines 'cl1,cl2' + 'cl3' (3)",
           "client=True (only lst 0 and 1): HTTP1Connection(is_client=True), status code 200 (response framing, "
           "same _read_body)",
           "body readers replaced by recorders; max_body_size = 2**40"],
    outside=["values longer than the bounds, more than three values", "grey list shapes as in h_framing"],
)
def h_framing3(cl1: bytes, cl2: bytes, cl3: bytes, lst: int, client: bool):
    """Three Content-Length values - on separate lines or inside one list value - frame the message only if
    ALL are the same 1*DIGIT number; any differing value (first, middle or last) means rejection."""
    if P.reach in ("reject_middle_differs", "reject_middle_differs_client") and not (
            cl1 == cl3 and cl1 != cl2 and len(cl1) == 1 and len(cl2) == 1
            and client == (P.reach == "reject_middle_differs_client")):
        return   # reach twins only: prune towards the witness region
    if P.reach == "accept_triple" and not (cl1 == cl2 and cl2 == cl3):
        return
    s1, s2, s3 = cl1.decode("latin-1"), cl2.decode("latin-1"), cl3.decode("latin-1")
    if lst == 0:
        cls = [s1, s2, s3]
    elif lst == 1:
        cls = [s1 + "," + s2 + "," + s3]
    elif lst == 2:
        cls = [s1 + ", " + s2 + ", " + s3]
    else:
        cls = [s1 + "," + s2, s3]
    headers = httputil.HTTPHeaders()
    try:
        headers.add("Host", "x")
        for v in cls:
            headers.add("Content-Length", v)
    except httputil.HTTPInputError:
        return
    want = ref_framing(cls, None)
    with install() as env:
        stream = FakeStream(env.loop, b"", eof=True)
        conn = HTTP1Connection(stream, client, HTTP1ConnectionParameters(max_body_size=BIG))
        conn._read_fixed_body = lambda n, d: ("fixed", n)
        conn._read_chunked_body = lambda d: ("chunked",)
        conn._read_body_until_close = lambda d: ("until_close",)
        try:
            got = conn._read_body(200 if client else 0, headers, object())
            if got is None:
                got = ("none",)
        except httputil.HTTPInputError:
            got = ("reject",)
    if want[0] == "reject":
        if _is_digits(s1) and _is_digits(s2) and s1 == s3 and s1 != s2:
            reached("reject_middle_differs_client" if client else "reject_middle_differs")
        assert got == ("reject",), "RFC 9112 6.3 demands rejection of %r, tornado chose %r" % (cls, got)
    elif want[0] == "grey":
        assert got == ("reject",) or got == ("fixed", want[1]), \
            "lenient Content-Length list must frame to its numeric value or be rejected, got %r" % (got,)
    else:
        reached("accept_triple")
        assert got == want, "framing differs from RFC 9112 6.3: want %r got %r" % (want, got)


# =====================================================================================
# unit 4: chunked decoding, driven through the real server loop (_server_request_loop ->
# _read_message -> _read_body -> _read_chunked_body) with a pre-delimited concrete header block
# =====================================================================================
from harness._httpin import HDR_STREAM, HdrStream, respond_ok  # noqa: E402

CH_HDR = b"POST /c HTTP/1.1\r\nHost: h\r\nTransfer-Encoding: chunked\r\n\r\n"
GET_HDR = b"GET /n HTTP/1.1\r\nHost: h\r\n\r\n"
PAY = b"abcdefgh"
R400 = b"HTTP/1.1 400 Bad Request\r\n\r\n"
R200 = b"HTTP/1.1 200 OK\r\nContent-Length: 0\r\n\r\n"


def _hexval(line: bytes):
    """1*HEXDIG -> int, else None (strict RFC 9112 7.1 chunk-size, no extensions)."""
    if len(line) == 0:
        return None
    v = 0
    for b in line:
        if 48 <= b <= 57:
            d = b - 48
        elif 65 <= b <= 70:
            d = b - 55
        elif 97 <= b <= 102:
            d = b - 87
        else:
            return None
        v = v * 16 + d
    return v


def ref_chunked(buf: bytes):
    """Strict chunked-body reader.  -> (status, body_so_far, consumed)
    status: 'ok' complete body; 'reject' malformed; 'short' ran out of bytes."""
    pos = 0
    body = b""
    while True:
        i = buf.find(b"\r\n", pos)
        if i < 0:
            return ("short", body, pos)
        m = _hexval(buf[pos:i])
        if m is None:
            return ("reject", body, pos)
        pos = i + 2
        if m == 0:
            if len(buf) - pos < 2:
                return ("short", body, pos)
            if buf[pos:pos + 2] == b"\r\n":
                return ("ok", body, pos + 2)
            return ("reject", body, pos)   # trailer fields are not supported: 400-or-close allowed
        if len(buf) - pos < m:
            return ("short", body + buf[pos:], len(buf))
        body = body + buf[pos:pos + m]
        pos = pos + m
        if len(buf) - pos < 2:
            return ("short", body, pos)
        if buf[pos:pos + 2] != b"\r\n":
            return ("reject", body, pos)
        pos = pos + 2


def _serve(env, msgs, eof, seg, params=None, on_headers=None, on_data=None, on_finish=respond_ok):
    stream = HdrStream(env.loop, msgs, eof=eof, seg=seg)
    rc = RecConn(on_headers=on_headers, on_data=on_data, on_finish=on_finish)
    sc = HTTP1ServerConnection(stream, params or HTTP1ConnectionParameters(chunk_size=2))
    sc.start_serving(rc)
    env.run_ready()
    return stream, rc, sc


def _check_rejected(stream, rc, trap, env, idx, eof_short=False):
    """Oracle for 'the reader rejects message idx (or the peer vanished inside it)': nothing further is
    delivered, the server answers 400 or just closes, no uncaught application error is logged."""
    ev = rc.events_by_req[idx] if len(rc.events_by_req) > idx else []
    assert count(ev, "F") == 0, "finish() delivered for a message the strict reader rejects: %r" % (ev,)
    assert len(rc.events_by_req) <= idx + 1 or all(len(e) == 0 for e in rc.events_by_req[idx + 1:]), \
        "a further request was delivered after the rejected one"
    assert stream.closed(), "connection left open after a rejected message"
    wire = stream.wire()
    tail = wire[len(R200) * idx:]
    assert wire[:len(R200) * idx] == R200 * idx
    assert tail == b"" or tail == R400, "after rejection only 400 or nothing may be written, got %r" % (tail,)
    assert not trap.uncaught(), "peer input surfaced as uncaught application error: %r" % (trap.uncaught(),)
    assert not env.v.exc_contexts, "exception escaped a callback: %r" % (env.v.exc_contexts,)
    assert rc.closed == 1, "server connection delegate on_close not called exactly once"


def pre_chunked(which: int, n1: int, a: bytes, seg: int, eof: bool) -> bool:
    if not (0 <= which <= 4 and 0 <= n1 <= P.NP and len(a) <= 2 and 1 <= seg <= 2):
        return False
    if which in (0, 2, 4) and (len(a) > P.LA or seg != 1):
        return False
    if which == 1 or which == 3:
        return in_shard((0 if which == 1 else 3) + len(a))
    base = 6 + (which // 2) * 5
    if len(a) == 0:
        return in_shard(base)
    return in_shard(base + 1 + a[0] % 4)


@harness(
    pre=pre_chunked,
    quick=dict(NP=2, LA=1, timeout=100, reach_timeout=60),
    thorough=dict(NP=4, LA=2, timeout=1200, reach_timeout=120),
    nshards=dict(quick=21, thorough=21),
    reach=["ok_two_requests", "reject_size", "reject_terminator", "short_eof"],
    units=["http1connection.HTTP1Connection._read_chunked_body", "http1connection.parse_hex_int",
           "http1connection.HTTP1Connection._read_message", "http1connection.HTTP1Connection._read_body",
           "http1connection.HTTP1ServerConnection._server_request_loop",
           "http1connection._ExceptionLoggingContext"],
    stubs=[FMT, HDR_STREAM, "virtual loop (vp/env.py)",
           "body = sz1 e1 PAY[:n1] t1 szl el tl with ONE of sz1/t1/szl/tl/e1 replaced by arbitrary bytes (<=2; "
           "<= LA for the size lines and their line end) and "
           "n1 (actual payload length) symbolic and independent of the declared size; followed by a concrete "
           "pipelined GET; application answers 200/empty in finish(); params.chunk_size=2"],
    outside=["chunk extensions / trailers (Tornado refuses them; statement allows 400-or-close)",
             "size lines > 2 symbolic bytes, payloads > NP bytes, more than one data chunk before the last chunk",
             "size line longer than 64 bytes"],
)
def h_chunked(which: int, n1: int, a: bytes, seg: int, eof: bool):
    """Chunked request bodies are decoded exactly as a strict RFC 9112 7.1 reader does; malformed size
    lines / chunk terminators are refused with 400-or-close, never as an uncaught error."""
    sz1 = bytes([48 + n1]) if n1 < 10 else b"a"
    e1 = t1 = el = tl = b"\r\n"
    szl = b"0"
    if which == 0:
        sz1 = a
    elif which == 1:
        t1 = a
    elif which == 2:
        szl = a
    elif which == 3:
        tl = a
    else:
        e1 = a
    buf = sz1 + e1 + PAY[:n1] + t1 + szl + el + tl
    want = ref_chunked(buf)
    with install() as env, LogTrap() as trap:
        stream, rc, sc = _serve(env, [(CH_HDR, buf), (GET_HDR, b"")], eof, seg)
        ev = rc.events_by_req[0]
        assert ev and ev[0][0] == "H"
        got = body_of(ev)
        if want[0] == "ok":
            assert got == want[1], "decoded body differs: want %r got %r" % (want[1], got)
            assert count(ev, "F") == 1 and count(ev, "C") == 0, "complete chunked message must finish: %r" % (ev,)
            assert not trap.uncaught() and not env.v.exc_contexts
            if want[2] == len(buf):
                assert not stream.desync
                assert len(rc.events_by_req) >= 2 and [e[0] for e in rc.events_by_req[1]] == ["H", "F"], \
                    "pipelined request after a complete chunked message not delivered: %r" % (rc.events_by_req,)
                assert stream.wire() == R200 * 2
                reached("ok_two_requests")
            else:
                assert stream.desync, "reader consumed bytes beyond the end of the chunked message"
        else:
            assert want[1][:len(got)] == got, \
                "delivered data %r is not a prefix of the strictly decoded body %r" % (got, want[1])
            if want[0] == "reject" or eof:
                _check_rejected(stream, rc, trap, env, 0)
                assert count(ev, "C") == 1, "connection-close notification missing/duplicated: %r" % (ev,)
                if want[0] == "reject":
                    if which == 1:
                        reached("reject_terminator")
                    if which == 0:
                        reached("reject_size")
                else:
                    reached("short_eof")
            else:
                # short and the peer keeps the connection open: reader must be waiting, nothing decided
                assert count(ev, "F") == 0 and count(ev, "C") == 0
                assert not stream.closed() and stream.wire() == b""
                assert not trap.uncaught() and not env.v.exc_contexts


# =====================================================================================
# unit 1 (CrossHair part): request line
# =====================================================================================
_TCHAR = "!#$%&'*+-.^_`|~"


def _is_tchar(c: str) -> bool:
    return ("0" <= c <= "9") or ("a" <= c <= "z") or ("A" <= c <= "Z") or (c in _TCHAR)


import re as _re  # noqa: E402

# written from RFC 9112 section 3 / RFC 9110 5.6.2 (token), independent of tornado's _ABNF table
_REF_RL = _re.compile(r"([!#$%&'*+\-.^_`|~0-9A-Za-z]+) ([!-~\x80-\xff]+) (HTTP/1\.[0-9])")


def ref_request_line(line: str):
    """RFC 9112 section 3: method SP request-target SP HTTP-version (HTTP/1.x only). -> tuple or None"""
    m = _REF_RL.fullmatch(line)
    if m is None:
        return None
    return (m.group(1), m.group(2), m.group(3))


def pre_startline(raw: bytes) -> bool:
    return len(raw) <= P.L and in_shard(len(raw))


@harness(
    pre=pre_startline,
    quick=dict(L=12, timeout=100, reach_timeout=60),
    thorough=dict(L=14, timeout=900, reach_timeout=120),
    nshards=dict(quick=3, thorough=5),
    reach=["line_accepted", "line_rejected"],
    units=["httputil.parse_request_start_line", "httputil._ABNF.request_line"],
    stubs=[FMT, "the line is bytes decoded as latin-1, as _parse_headers produces it"],
    outside=["lines longer than L (the unbounded regular-language equivalence is C43's Engine-B obligation)"],
)
def h_startline(raw: bytes):
    """parse_request_start_line accepts exactly the RFC 9112 request-lines (HTTP/1.x), returns their three
    parts unchanged, and signals everything else with HTTPInputError and no other exception."""
    if P.reach == "line_accepted" and len(raw) < 12:
        return   # reach twin only: the shortest accepted line has 12 bytes
    line = raw.decode("latin-1")
    want = ref_request_line(line)
    try:
        got = tuple(httputil.parse_request_start_line(line))
    except httputil.HTTPInputError:
        got = None
    if want is None:
        reached("line_rejected")
    else:
        reached("line_accepted")
    assert got == want, "request line %r: strict reader %r, tornado %r" % (line, want, got)
