"""C01 - HTTP/1.x request framing is exact, strict and chunking-independent.

Decomposition (DESIGN section 4, C01); every unit is the REAL tornado code:
  h_startline  httputil.parse_request_start_line, any str (unit 1, CrossHair part)
  h_headers    HTTP1Connection._parse_headers + HTTPHeaders.parse/parse_line/add on a short header block
  h_framing    HTTP1Connection._read_body / is_transfer_encoding_chunked / parse_int, symbolic header VALUES
  h_chunked    HTTP1Connection._read_chunked_body over FakeStream, symbolic size lines / terminators
  h_loop       HTTP1ServerConnection._server_request_loop + _read_message, pooled concrete requests,
               symbolic lengths / corruption positions, rejection => 400-or-close, nothing further delivered,
               no uncaught-exception log record
Segmentation independence: by composition with C11 (FakeStream implements the read contracts C11
establishes for BaseIOStream); the only segmentation visible through the interface (partial read
sizes) is the symbolic `seg`.
"""
from typing import List, Tuple

from vp.api import P, harness, in_shard, reached
from vp.env import install
from vp.fakestream import FakeStream

from tornado import httputil
from tornado.http1connection import (HTTP1Connection, HTTP1ConnectionParameters,
                                     HTTP1ServerConnection)
from tornado.iostream import StreamClosedError

from harness._httpin import FMT, LogTrap, RecConn, body_of, count

TECHNIQUE = "symbolic execution of the real Python code (CrossHair/z3), bounded"
ASSUMPTIONS = [FMT]

BIG = 1 << 40


# =====================================================================================
# unit 3: framing decision
# =====================================================================================
def _ascii_lower(s: str) -> str:
    return "".join(chr(ord(c) + 32) if "A" <= c <= "Z" else c for c in s)


def _is_digits(s: str) -> bool:
    if len(s) == 0:
        return False
    for c in s:
        if not ("0" <= c <= "9"):
            return False
    return True


def _ows_strip(s: str) -> str:
    i, j = 0, len(s)
    while i < j and (s[i] == " " or s[i] == "\t"):
        i += 1
    while j > i and (s[j - 1] == " " or s[j - 1] == "\t"):
        j -= 1
    return s[i:j]


def ref_framing(cls: List[str], te):
    """RFC 9112 section 6.3 reference.  Returns ('reject',) | ('chunked',) | ('fixed', n) | ('none',)
    | ('grey',) for shapes where the RFC leaves latitude (see h_framing doc)."""
    if te is not None:
        if cls:
            return ("reject",)
        if _ascii_lower(te) == "chunked":
            return ("chunked",)
        return ("reject",)
    if not cls:
        return ("none",)
    pieces = []
    for v in cls:
        for p in v.split(","):
            pieces.append(p)
    stripped = [_ows_strip(p) for p in pieces]
    for p in stripped:
        if p == "" and len(pieces) > 1:
            continue          # empty list element: RFC 9110 5.6.1 lets a recipient ignore or reject
        if not _is_digits(p):
            return ("reject",)
    nonempty = [p for p in stripped if p != ""]
    if not nonempty:
        return ("reject",)
    n0 = int(nonempty[0])
    for p in nonempty:
        if int(p) != n0:
            return ("reject",)
    # what remains is numerically consistent; strictly-formed ("n" or "n, n" / "n,n") must be accepted
    strict = all(p == nonempty[0] for p in stripped) and \
        all(pieces[i] == stripped[i] or (i > 0 and pieces[i].lstrip(" \t") == stripped[i])
            for i in range(len(pieces)))
    if strict:
        return ("fixed", int(nonempty[0]))
    return ("grey", int(nonempty[0]))


def pre_framing(shape: int, cl1: bytes, cl2: bytes, te: bytes) -> bool:
    if not (0 <= shape <= 5):
        return False
    has1 = shape in (1, 2, 4, 5)
    has2 = shape in (2, 5)
    hast = shape >= 3
    if len(cl1) > (P.L1 if has1 else 0) or len(cl2) > (P.L2 if has2 else 0):
        return False
    if len(te) > (P.LT if hast else 0):
        return False
    return in_shard(shape + 6 * len(cl1))


@harness(
    pre=pre_framing,
    quick=dict(L1=3, L2=2, LT=7, timeout=150),
    thorough=dict(L1=4, L2=3, LT=8, timeout=1200),
    nshards=dict(quick=12, thorough=30),
    reach=["reject_cl_te", "accept_chunked", "accept_dup_cl", "reject_nonnumeric", "reject_te_other"],
    units=["http1connection.HTTP1Connection._read_body", "http1connection.is_transfer_encoding_chunked",
           "http1connection.parse_int", "httputil.HTTPHeaders.add", "httputil.HTTPHeaders.__getitem__"],
    stubs=[FMT,
           "header values are injected through the real HTTPHeaders.add (values it refuses are outside this unit: "
           "they are rejected at header-parse level, see h_headers); names are the concrete "
           "Content-Length / Transfer-Encoding",
           "the three body readers of the connection are replaced by recorders on the instance (they are "
           "units of h_chunked / C04.h_body); max_body_size = 2**40 so the size limit (C04) does not interfere",
           "values are bytes decoded as latin-1, exactly as _parse_headers does"],
    outside=["values longer than the bounds", "more than two Content-Length lines, more than one Transfer-Encoding line",
             "grey shapes where RFC 9110 5.6.1 leaves latitude (empty list elements, OWS before a comma, "
             "'01' vs '1'): there only 'accept => the numerically consistent length' is asserted"],
)
def h_framing(shape: int, cl1: bytes, cl2: bytes, te: bytes):
    """A request with the given Content-Length lines / Transfer-Encoding line is framed exactly as
    RFC 9112 6.3 demands, or rejected with HTTPInputError (-> 400) and nothing else."""
    has1 = shape in (1, 2, 4, 5)
    has2 = shape in (2, 5)
    hast = shape >= 3
    s1, s2, st = cl1.decode("latin-1"), cl2.decode("latin-1"), te.decode("latin-1")
    headers = httputil.HTTPHeaders()
    try:
        headers.add("Host", "x")
        if has1:
            headers.add("Content-Length", s1)
        if hast:
            headers.add("Transfer-Encoding", st)
        if has2:
            headers.add("Content-Length", s2)
    except httputil.HTTPInputError:
        return  # rejected by the header layer already
    cls = ([s1] if has1 else []) + ([s2] if has2 else [])
    want = ref_framing(cls, st if hast else None)
    with install() as env:
        stream = FakeStream(env.loop, b"", eof=True)
        conn = HTTP1Connection(stream, False, HTTP1ConnectionParameters(max_body_size=BIG))
        conn._read_fixed_body = lambda n, d: ("fixed", n)
        conn._read_chunked_body = lambda d: ("chunked",)
        conn._read_body_until_close = lambda d: ("until_close",)
        try:
            got = conn._read_body(0, headers, object())
            if got is None:
                got = ("none",)
        except httputil.HTTPInputError:
            got = ("reject",)
    # any other exception type propagates = counterexample (peer input must never crash the reader)
    if want[0] == "reject":
        if hast and cls:
            reached("reject_cl_te")
        elif hast:
            reached("reject_te_other")
        else:
            reached("reject_nonnumeric")
        assert got == ("reject",), "RFC 9112 6.3 demands rejection, tornado chose %r" % (got,)
    elif want[0] == "grey":
        assert got == ("reject",) or got == ("fixed", want[1]), \
            "lenient Content-Length list must frame to its numeric value or be rejected, got %r" % (got,)
    else:
        if want[0] == "chunked":
            reached("accept_chunked")
        if want[0] == "fixed" and has2:
            reached("accept_dup_cl")
        assert got == want, "framing differs from RFC 9112 6.3: want %r got %r" % (want, got)
