"""C29 - Gzip output encoding is transparent to the client.

Real code driven: web.GZipContentEncoding.__init__/_compressible_type/transform_first_chunk/
transform_chunk applied by the real RequestHandler.flush/finish inside the full rig (Application with
compress_response=True -> HTTP1Connection -> FakeStream); response parsed by the strict reader and
decoded according to its Content-Encoding.
STUBS: gzip.GzipFile (C zlib) is replaced inside tornado.web by a tagged invertible pure-Python
stream codec with explicit flush / close markers; GZipContentEncoding.MIN_LENGTH is patched
1024 -> 3 so that the size threshold is crossed with tiny bodies.
"""
from typing import List, Tuple

from vp.api import P, harness, in_shard, reached
from vp.env import install

from harness import _httpout_rig as rig
from harness._httpout_rig import FIN, FL, W

import tornado.web


class _ShimGzipFile:
    """Invertible stand-in for gzip.GzipFile(mode='w', fileobj=...): every flush()/close() emits a
    block  b'F' + <len byte> + data ; close() additionally emits b'E' (end of stream)."""

    def __init__(self, mode="w", fileobj=None, compresslevel=9):
        assert mode == "w" and fileobj is not None
        self.out = fileobj
        self.pending = b""
        self.closed = False

    def write(self, data):
        assert not self.closed, "write after close"
        self.pending += bytes(data)
        return len(data)

    def _block(self):
        data, self.pending = self.pending, b""
        self.out.write(b"F" + bytes([len(data)]) + data)

    def flush(self):
        assert not self.closed
        self._block()

    def close(self):
        if not self.closed:
            self._block()
            self.out.write(b"E")
            self.closed = True


class _ShimGzipModule:
    GzipFile = _ShimGzipFile


def shim_decode(data):
    """Client-side decoder of the shim codec; raises ValueError unless `data` is one complete stream."""
    out = []
    i = 0
    while True:
        if i >= len(data):
            raise ValueError("stream not terminated")
        if data[i:i + 1] == b"E":
            if i + 1 != len(data):
                raise ValueError("bytes after end of stream")
            return b"".join(out)
        if data[i:i + 1] != b"F" or i + 2 > len(data):
            raise ValueError("bad block")
        n = data[i + 1]
        if i + 2 + n > len(data):
            raise ValueError("short block")
        out.append(data[i + 2:i + 2 + n])
        i += 2 + n


tornado.web.gzip = _ShimGzipModule
tornado.web.GZipContentEncoding.MIN_LENGTH = 3

# (content type, compressible per the statement: the media type before any ';' parameter is in the
# text/ family or EXACTLY one of the whitelisted types; None = either decision allowed)
_CT = (
    ("text/html; charset=UTF-8", True),
    ("application/json; charset=UTF-8", True),
    ("image/png", False),
    ("application/javascript", True),
    ("text/x", True),
    ("application/octet-stream", False),
    # near misses: merely START WITH (or extend) a whitelisted name / the text family
    ("application/json-seq", False),
    ("application/xml-dtd", False),
    ("application/jsonp", False),
    ("application/javascriptx", False),
    ("application/xhtml+xmlx; charset=UTF-8", False),
    ("texts/plain", False),
    ("text", False),
    ("xapplication/json", False),
    ("application/jso", False),
    # whitelisted types with parameters
    ("application/xml;charset=x", True),
    ("image/svg+xml ; charset=UTF-8", None),       # space before ';': either (tornado compares 'image/svg+xml ')
    # case variants: media types are case-insensitive, tornado compares case-sensitively: either
    ("Application/JSON", None),
    ("TEXT/plain", None),
)
CT_POOL = tuple(c for c, _ in _CT)
COMPRESSIBLE = tuple(v for _, v in _CT)
AE_PREFIX = (None, "gz", "x, gz", "defla")
DEC_CT = (0, 2, 6, 1, 3, 4, 5) + tuple(range(7, len(_CT)))     # h_gzip_decide: index 0,1 = one compressible + one non-compressible type
_STUBS = ["tornado.web.gzip.GzipFile replaced by a tagged invertible pure-Python codec (zlib is C)",
          "GZipContentEncoding.MIN_LENGTH patched 1024 -> 3", "FakeStream + virtual loop; logging "
          "disabled; fixed time.time()", "requests 'GET /a HTTP/1.1' and 'HEAD /a HTTP/1.1' (same headers, same program, two connections) "
          "concrete; chunk contents concrete"]


def _serve(method, ae_value, ct, preset, prog):
    lines = [("%s /a HTTP/1.1" % method).encode(), b"Host: x"]
    rig.INJECT.clear()
    if ae_value is not None:
        lines += [b"Accept-Encoding: placeholder", b"X-Inject: 1"]
        rig.INJECT["Accept-Encoding"] = ae_value
    reqb = b"\r\n".join(lines) + b"\r\n\r\n"

    def hook(h):
        h.set_header("Content-Type", CT_POOL[ct])
        if preset == 1:
            h.set_header("Content-Encoding", "identity")
        elif preset == 2:
            h.set_header("Vary", "Cookie")

    try:
        with install() as env:
            app = rig.make_app(prog, pre_hook=hook, compress_response=True)
            st = rig.serve(env, app, reqb)
            return st.wire(), st.closed()
    finally:
        rig.INJECT.clear()


def _written(prog):
    body = b""
    fin = False
    for kind, a in prog:
        if fin:
            break
        if kind == W:
            body += rig.chunk_of(a)
        elif kind == FIN:
            body += rig.chunk_of(a)
            fin = True
    return body


def _check(method, mentions_gzip, ct, preset, prog, wire, closed):
    B = _written(prog)
    resps, left = rig.read_all(wire, [method], closed)
    assert len(resps) == 1 and left == "clean", "not exactly one complete response: %r" % wire
    r = resps[0]
    assert r.code == 200, "status %d" % r.code
    ce = r.get_all(b"content-encoding")
    encoded = ce == [b"gzip"]
    if not encoded:
        assert ce == ([b"identity"] if preset == 1 else []), "unexpected Content-Encoding %r" % ce
    vary = []
    for v in r.get_all(b"vary"):
        vary += [t.strip().lower() for t in v.split(b",")]
    assert b"accept-encoding" in vary, "Vary lacks Accept-Encoding: %r" % r.get_all(b"vary")
    if preset == 2:
        assert b"cookie" in vary, "handler's Vary value lost"
    if encoded:
        reached("encoded")
        assert COMPRESSIBLE[ct] is not False, "compressed a non-compressible type %r" % CT_POOL[ct]
        if ";" in CT_POOL[ct] and COMPRESSIBLE[ct]:
            reached("encoded_type_with_parameters")
        assert mentions_gzip, "compressed although Accept-Encoding does not mention gzip"
        assert preset != 1, "compressed over an existing Content-Encoding"
    else:
        reached("identity")
    if method == "HEAD":
        assert r.body == b""
        return
    if encoded:
        try:
            got = shim_decode(r.body)
        except ValueError as e:
            raise AssertionError("client cannot decode the body %r: %s" % (r.body, e))
        if r.mode == "chunked":
            reached("encoded_streamed")
        if r.mode == "length":
            reached("encoded_with_content_length")
    else:
        got = r.body
    assert got == B, "client decodes %r, handler wrote %r" % (got, B)


def _check_head_equals_get(wire_get, closed_get, wire_head, closed_head):
    """C02/C29: a HEAD request yields the same status, Content-Encoding, Vary and Content-Length as
    the GET for the same program and request headers (Content-Length = length of the body the GET
    carries, i.e. of the ENCODED body), with an empty body."""
    g = rig.read_all(wire_get, ["GET"], closed_get)[0][0]
    resps, left = rig.read_all(wire_head, ["HEAD"], closed_head)
    assert len(resps) == 1 and left == "clean", "HEAD: not exactly one complete response: %r" % wire_head
    h = resps[0]
    assert h.body == b"" and h.mode == "none"
    assert h.code == g.code, "HEAD status %d != GET status %d" % (h.code, g.code)
    for name in (b"content-encoding", b"vary", b"content-length", b"content-type"):
        assert h.get_all(name) == g.get_all(name), \
            "HEAD %s %r != GET %r" % (name.decode(), h.get_all(name), g.get_all(name))
    if g.get(b"content-length") is not None:
        reached("head_content_length_checked")
        assert int(h.get(b"content-length")) == len(g.body), \
            "HEAD Content-Length %r != length of the GET body %d" % (h.get(b"content-length"), len(g.body))
    if g.get(b"content-encoding") == b"gzip":
        reached("head_of_encoded")
    assert h.get(b"transfer-encoding") is None


def pre_stream(ct: int, prog: List[Tuple[int, int]]) -> bool:
    if not (0 <= ct < P.T and len(prog) <= P.N):
        return False
    for kind, a in prog:
        if not (kind in (W, FL, FIN) and 0 <= a <= P.A):
            return False
    return in_shard(ct + P.T * (len(prog)))


@harness(
    pre=pre_stream,
    quick=dict(T=3, N=2, A=3, timeout=150, reach_timeout=60),
    thorough=dict(T=6, N=3, A=4, timeout=1500, reach_timeout=90),   # T: first T pool types
    nshards=dict(quick=9, thorough=24),
    reach=["encoded", "identity", "encoded_streamed", "encoded_with_content_length",
           "head_of_encoded", "head_content_length_checked"],
    units=["web.GZipContentEncoding.transform_first_chunk", "web.GZipContentEncoding.transform_chunk",
           "web.RequestHandler.flush", "web.RequestHandler.finish", "HTTP1Connection.write_headers/write/finish"],
    stubs=_STUBS + ["Accept-Encoding: gzip (fixed) in this harness"],
    outside=["real DEFLATE", "programs longer than N ops / chunks longer than A bytes",
             "handler-set Content-Length together with compression (h_gzip_decide covers pre-set headers)"],
)
def h_gzip_stream(ct: int, prog: List[Tuple[int, int]]):
    """Any write/flush/finish program around the (patched) size threshold, per content type."""
    wire, closed = _serve("GET", "gzip", ct, 0, prog)
    _check("GET", True, ct, 0, prog, wire, closed)
    wire_h, closed_h = _serve("HEAD", "gzip", ct, 0, prog)
    _check_head_equals_get(wire, closed, wire_h, closed_h)


def pre_decide(ae: int, o1: int, o2: int, ct: int, preset: int, k: int, streamed: bool) -> bool:
    if not (0 <= ae < len(AE_PREFIX) and 0 <= ct < P.T and 0 <= preset <= 2 and 2 <= k <= 3):
        return False
    if not (0x21 <= o1 <= 0x7e and 0x21 <= o2 <= 0x7e):
        return False
    return in_shard(ae + len(AE_PREFIX) * preset)


@harness(
    pre=pre_decide,
    quick=dict(T=3, timeout=200, reach_timeout=150),
    thorough=dict(T=len(_CT), timeout=1500, reach_timeout=90),
    nshards=dict(quick=12, thorough=12),
    reach=["encoded", "identity", "gzip_mentioned_by_solver", "head_of_encoded"],
    units=["web.GZipContentEncoding.__init__", "web.GZipContentEncoding._compressible_type",
           "web.GZipContentEncoding.transform_first_chunk", "web.RequestHandler.flush/finish"],
    stubs=_STUBS + ["Accept-Encoding value = pooled prefix + 2 solver-chosen visible-ASCII characters, "
                    "injected on the parsed HTTPHeaders right after the real _parse_headers (rig.INJECT)"],
    outside=["real DEFLATE", "q-values (Accept-Encoding: gzip;q=0 is treated as a mention)"],
)
def h_gzip_decide(ae: int, o1: int, o2: int, ct: int, preset: int, k: int, streamed: bool):
    """The compression decision: Accept-Encoding (solver-chosen characters), content type,
    pre-set Content-Encoding / Vary, body just below / at the threshold, buffered vs streamed."""
    if P.reach in ("encoded", "gzip_mentioned_by_solver") and not (ae == 1 and preset == 0 and ct == 0 and k == 3):
        return      # reach-twin steering only (a necessary condition for the tag keeps the twin cheap)
    if P.reach == "head_of_encoded" and not (ae == 1 and preset == 0 and ct == 0 and streamed):
        return      # reach-twin steering only (necessary-condition pruning; the tag is raised after the real run)
    ct = DEC_CT[ct]
    pfx = AE_PREFIX[ae]
    value = None if pfx is None else pfx + chr(o1) + chr(o2)
    prog = [(W, k), (FL, 0)] if streamed else [(W, k)]
    wire, closed = _serve("GET", value, ct, preset, prog)
    mentions = value is not None and "gzip" in value.lower()
    if mentions and ae != 0:
        reached("gzip_mentioned_by_solver")
    _check("GET", mentions, ct, preset, prog, wire, closed)
    # the HEAD request with the same headers / program: same head, no body
    wire_h, closed_h = _serve("HEAD", value, ct, preset, prog)
    _check("HEAD", mentions, ct, preset, prog, wire_h, closed_h)
    _check_head_equals_get(wire, closed, wire_h, closed_h)


def pre_types(ct: int, preset: int, k: int, streamed: bool, ae: int) -> bool:
    return (0 <= ct < len(_CT) and 0 <= preset <= 2 and 2 <= k <= 3 and 0 <= ae <= 1
            and in_shard(ct))


@harness(
    pre=pre_types,
    quick=dict(timeout=150, reach_timeout=60),
    thorough=dict(timeout=600, reach_timeout=60),
    nshards=dict(quick=len(_CT), thorough=len(_CT)),
    reach=["encoded", "identity", "near_miss_not_encoded", "encoded_type_with_parameters", "head_of_encoded"],
    units=["web.GZipContentEncoding._compressible_type", "web.GZipContentEncoding.transform_first_chunk",
           "web.RequestHandler.flush/finish"],
    stubs=_STUBS + ["Accept-Encoding pooled {'gzip', 'deflate, gzip;q=0.5'}; Content-Type from the full pool: "
                    "whitelist members (plain, with '; charset', with odd spacing), text/*, non-members, and "
                    "NEAR MISSES that start with / extend a whitelisted name or the text family, case variants"],
    outside=["real DEFLATE", "content types outside the pool (the decision code only tests startswith('text/') "
             "and set membership of the part before ';')"],
)
def h_gzip_types(ct: int, preset: int, k: int, streamed: bool, ae: int):
    """Compression is applied ONLY to compressible media types: exact whitelist match of the type
    before any ';' parameters, or the text/ family - for every type in the pool, buffered and streamed,
    below / at the size threshold, with pre-set Content-Encoding / Vary; GET and HEAD agree."""
    value = ("gzip", "deflate, gzip;q=0.5")[ae]
    prog = [(W, k), (FL, 0)] if streamed else [(W, k)]
    wire, closed = _serve("GET", value, ct, preset, prog)
    if COMPRESSIBLE[ct] is False and ct >= 6:
        reached("near_miss_not_encoded")
    _check("GET", True, ct, preset, prog, wire, closed)
    wire_h, closed_h = _serve("HEAD", value, ct, preset, prog)
    _check("HEAD", True, ct, preset, prog, wire_h, closed_h)
    _check_head_equals_get(wire, closed, wire_h, closed_h)


TECHNIQUE = ("CrossHair symbolic execution of the real gzip output transform inside the full handler/connection rig, "
             "with a tagged invertible codec standing in for zlib; responses judged by a strict reader + decoder")
ASSUMPTIONS = ["gzip codec shim", "MIN_LENGTH patched to 3", "FakeStream/virtual loop environment"]
