"""C02 - HTTP responses are well-framed and carry exactly what the handler wrote.

Real code driven: tornado.web.Application routing -> _HandlerDelegate -> RequestHandler
(set_status / set_header / clear_header / write / flush / finish, ETag/304, send_error) ->
HTTP1Connection.write_headers / _format_chunk / write / finish / _finish_request, served by
HTTP1ServerConnection over FakeStream on the virtual loop.  A second, pipelined request follows the
first so that "exactly one response, then closed or cleanly continued" is observable.
Oracle: strict reference HTTP/1.1 response reader (harness/_httpout_rig.py) + a 40-line model of
what the handler program asked for (final status / headers at the moment the head is sent, body =
concatenation of written chunks).
"""
from typing import List, Tuple

from vp.api import P, harness, in_shard, reached
from vp.env import install

from harness import _httpout_rig as rig
from harness._httpout_rig import CL, CLR, FIN, FL, ST, W, XP

NREQ = 15
_M = ("GET", "GET", "HEAD", "HEAD", "POST")


def request_bytes(r):
    """Concrete request from the pool, by index: method x If-None-Match x version/keep-alive."""
    m = r % 5
    v = r // 5
    method = _M[m]
    lines = [("%s /a HTTP/%s" % (method, "1.1" if v == 2 else "1.0")).encode(), b"Host: x"]
    if v == 1:
        lines.append(b"Connection: keep-alive")
    if m in (1, 3):
        lines.append(b"If-None-Match: *")
    body = b""
    if method == "POST":
        lines.append(b"Content-Length: 3")
        body = b"xyz"
    return method, v, (m in (1, 3)), b"\r\n".join(lines) + b"\r\n\r\n" + body


def model(method, inm, prog):
    """What the handler program asked for.  Returns dict(status, cl, xp, body, streamed)."""
    status, cl, xp = 200, None, None
    body = b""
    head_sent = False
    finished = False
    frozen = None
    streamed = False
    for kind, a in prog:
        if finished:
            continue            # after finish() nothing may change the response
        if kind == W:
            body += rig.chunk_of(a)
        elif kind == FL:
            if not head_sent:
                head_sent, frozen, streamed = True, (status, cl, xp), True
        elif kind == ST:
            status = rig.STATUS_POOL[a & 3]
        elif kind == CL:
            cl = a
        elif kind == CLR:
            cl = None
        elif kind == XP:
            xp = rig.XP_POOL[a & 3]
        elif kind == FIN:
            if a:
                body += rig.chunk_of(a)
            finished = True
            if not head_sent:
                head_sent, frozen = True, (status, cl, xp)
    if not head_sent:
        frozen = (status, cl, xp)       # handler returned: tornado finishes for it
    status, cl, xp = frozen
    etag304 = (status == 200 and method in ("GET", "HEAD") and not streamed and inm)
    return dict(status=status, cl=cl, xp=xp, body=body, streamed=streamed, etag304=etag304)


def pre_resp(req: int, prog: List[Tuple[int, int]]) -> bool:
    if not (0 <= req < NREQ and len(prog) <= P.N):
        return False
    for kind, a in prog:
        if not (0 <= kind < P.K and 0 <= a <= P.A):
            return False
    return in_shard(req)


def check_response(method, ver, inm, prog, wire, closed):
    mo = model(method, inm, prog)
    resps, left = rig.read_all(wire, [method, "GET"], closed)   # Malformed propagates = violation
    S, B = mo["status"], mo["body"]
    if mo["etag304"]:
        S, B = 304, b""
    bodyless = method == "HEAD" or S in (204, 304)
    impossible = S in (204, 304) and B != b""
    cl_mismatch = (mo["cl"] is not None and not mo["etag304"] and S not in (204, 304)
                   and mo["cl"] != len(B))
    r1 = resps[0] if resps else None

    def aborted():
        # the request was rejected: nothing, or an incomplete message, then the connection closed
        return r1 is None and closed

    def is_error_response():
        return r1 is not None and r1.code == 500 and r1.mode in ("length", "chunked", "none")

    if impossible and method != "HEAD":
        reached("rejected_body_with_204_304")
        ok_empty = (r1 is not None and r1.code == S and r1.body == b"" and left == "clean"
                    and len(resps) == 1 and closed)
        assert aborted() or is_error_response() or ok_empty, \
            "a %d response must not carry the body %r: wire=%r" % (S, B, wire)
    elif cl_mismatch and method != "HEAD":
        reached("rejected_cl_mismatch")
        assert aborted() or is_error_response(), \
            "Content-Length %r but body %r must be rejected: wire=%r closed=%r" % (
                mo["cl"], B, wire, closed)
    elif (impossible or cl_mismatch) and method == "HEAD" and (aborted() or is_error_response()):
        pass    # contradictory demands on a HEAD request: either outcome is allowed
    else:
        assert r1 is not None, "no complete response on the wire: %r (closed=%r)" % (wire, closed)
        assert r1.code == S, "status %d, handler asked for %d" % (r1.code, S)
        want = b"" if bodyless else B
        assert r1.body == want, "body %r != written %r (mode %s)" % (r1.body, want, r1.mode)
        if mo["xp"] is None:
            assert r1.get(b"x-p") is None
        else:
            assert r1.get_all(b"x-p") == [mo["xp"].encode()], "X-P header lost/changed"
        clh = r1.get(b"content-length")
        if mo["cl"] is not None and not mo["etag304"] and S not in (204, 304) and not cl_mismatch:
            assert clh is not None and int(clh) == mo["cl"], "handler's Content-Length not carried"
        if clh is not None and mo["cl"] is None:
            # computed by tornado: must equal the length of the body a GET would carry
            assert int(clh) == len(B), "Content-Length %r != len(GET body) %d" % (clh, len(B))
        if ver != 2:
            assert r1.get(b"transfer-encoding") is None, "chunked coding sent to an HTTP/1.0 client"
        if r1.mode == "none":
            assert r1.get(b"transfer-encoding") is None, "Transfer-Encoding on a bodyless response"
        if r1.mode == "chunked":
            reached("chunked")
        if r1.mode == "close":
            reached("close_delimited")
        if mo["etag304"]:
            reached("etag_304")
        if method == "HEAD" and B != b"":
            reached("head_no_body")
    # ---- exactly one response to the first request; then either closed or the clean answer to
    # the pipelined second request
    assert left != "extra", "stray bytes after the response(s): %r" % wire
    if len(resps) == 2:
        reached("second_answered")
        assert rig.is_second_response(resps[1]), "second response damaged: %r" % wire
    elif left == "truncated" and r1 is not None:
        raise AssertionError("garbage/partial bytes after the first response: %r" % wire)
    else:
        assert closed, "second request unanswered but connection open: %r" % wire
    if r1 is not None and r1.mode == "close":
        assert closed


@harness(
    pre=pre_resp,
    quick=dict(N=2, K=6, A=3, timeout=100, reach_timeout=60),
    thorough=dict(N=3, K=7, A=3, timeout=1400, reach_timeout=90),
    nshards=dict(quick=15, thorough=15),
    reach=["rejected_body_with_204_304", "rejected_cl_mismatch", "chunked", "close_delimited",
           "etag_304", "head_no_body", "second_answered"],
    units=["web.RequestHandler.set_status/set_header/clear_header/write/flush/finish",
           "web.RequestHandler.set_etag_header/check_etag_header/send_error/_execute",
           "web.Application.find_handler / _HandlerDelegate", "http1connection.HTTP1Connection.write_headers",
           "HTTP1Connection._format_chunk/write/finish/_finish_request/_can_keep_alive",
           "HTTP1ServerConnection._server_request_loop"],
    stubs=["FakeStream (vp/fakestream.py) + VLoop/FakeAio virtual loop (vp/env.py)", "logging disabled",
           "request bytes concrete, pooled by symbolic index: {GET,HEAD,POST} x {If-None-Match absent,*} "
           "x {HTTP/1.0, HTTP/1.0 keep-alive, HTTP/1.1}; followed by a pipelined GET",
           "chunk contents concrete (prefixes of 'abcdefgh...'); sizes, Content-Length values, op kinds "
           "and status index are solver variables (realised by forking where C code needs them)"],
    outside=["output transforms (C29)", "cookies (C25)", "header injection (C07)",
             "programs longer than N ops", "status codes outside {200,204,304,404}",
             "explicit Content-Length contradicting the body on HEAD/204/304 (either outcome accepted)",
             "real sockets / partial writes (C12)"],
)
def h_resp(req: int, prog: List[Tuple[int, int]]):
    method, ver, inm, reqb = request_bytes(req)
    with install() as env:
        app = rig.make_app(prog)
        st = rig.serve(env, app, reqb + rig.SECOND_REQ)
        wire, closed = st.wire(), st.closed()
    check_response(method, ver, inm, prog, wire, closed)


TECHNIQUE = ("CrossHair symbolic execution of the real RequestHandler/HTTP1Connection output path driven by a "
             "symbolic handler program; the written bytes are judged by a strict reference response reader")
ASSUMPTIONS = ["FakeStream/virtual loop environment", "bounded program length and value pools (see params)"]
