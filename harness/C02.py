"""C02 - HTTP responses are well-framed and carry exactly what the handler wrote.

Real code driven: tornado.web.Application routing -> _HandlerDelegate -> RequestHandler
(set_status / set_header / clear_header / write / flush / finish, ETag/304, send_error) ->
HTTP1Connection.write_headers / _format_chunk / write / finish / _finish_request, served by
HTTP1ServerConnection over FakeStream on the virtual loop.  A second, pipelined request follows the
first so that "exactly one response, then closed or cleanly continued" is observable.
Oracle: strict reference HTTP/1.1 response reader (harness/_httpout_rig.py) + a 40-line model of
what the handler program asked for (final status / headers at the moment the head is sent, body =
concatenation of written chunks).
"""
from typing import List, Tuple

from vp.api import P, harness, in_shard, reached
from vp.env import install

from harness import _httpout_rig as rig
from harness._httpout_rig import CL, CLR, FIN, FL, ST, W, XP

_M = ("GET", "HEAD", "POST")


def request_bytes(r):
    """Concrete request from the pool, by index: 0..8 = method x version/keep-alive;
    9..14 = GET/HEAD with 'If-None-Match: *' on HTTP/1.1, 1.0 keep-alive, 1.0."""
    if r < 9:
        m, v, inm = r % 3, r // 3, False
    else:
        m, v, inm = (r - 9) % 2, 2 - (r - 9) // 2, True
    method = _M[m]
    lines = [("%s /a HTTP/%s" % (method, "1.1" if v == 2 else "1.0")).encode(), b"Host: x"]
    if v == 1:
        lines.append(b"Connection: keep-alive")
    if inm:
        lines.append(b"If-None-Match: *")
    body = b""
    if method == "POST":
        lines.append(b"Content-Length: 3")
        body = b"xyz"
    return method, v, inm, b"\r\n".join(lines) + b"\r\n\r\n" + body


def model(method, inm, prog):
    """What the handler program asked for.  Returns dict(status, cl, xp, body, streamed)."""
    status, cl, xp = 200, None, None
    body = b""
    head_sent = False
    finished = False
    frozen = None
    streamed = False
    for kind, a in prog:
        if finished:
            continue            # after finish() nothing may change the response
        if kind == W:
            body += rig.chunk_of(a)
        elif kind == FL:
            if not head_sent:
                head_sent, frozen, streamed = True, (status, cl, xp), True
        elif kind == ST:
            status = rig.STATUS_POOL[a & 3]
        elif kind == CL:
            cl = a
        elif kind == CLR:
            cl = None
        elif kind == XP:
            xp = rig.XP_POOL[a & 3]
        elif kind == FIN:
            if a:
                body += rig.chunk_of(a)
            finished = True
            if not head_sent:
                head_sent, frozen = True, (status, cl, xp)
    if not head_sent:
        frozen = (status, cl, xp)       # handler returned: tornado finishes for it
    status, cl, xp = frozen
    etag304 = (status == 200 and method in ("GET", "HEAD") and not streamed and inm)
    return dict(status=status, cl=cl, xp=xp, body=body, streamed=streamed, etag304=etag304)


def pre_resp(req: int, prog: List[Tuple[int, int]]) -> bool:
    if not (0 <= req < P.R and len(prog) <= P.N):
        return False
    for kind, a in prog:
        if not (0 <= kind < P.K and 0 <= a <= P.A):
            return False
    return in_shard(req)


def check_response(method, ver, inm, prog, wire, closed):
    mo = model(method, inm, prog)
    resps, left = rig.read_all(wire, [method, "GET"], closed)   # Malformed propagates = violation
    S, B = mo["status"], mo["body"]
    if mo["etag304"]:
        S, B = 304, b""
    bodyless = method == "HEAD" or S in (204, 304)
    impossible = S in (204, 304) and B != b""
    cl_mismatch = (mo["cl"] is not None and not mo["etag304"] and S not in (204, 304)
                   and mo["cl"] != len(B))
    r1 = resps[0] if resps else None
    # finish() rejects 204/304 when a write() happened, even of an empty chunk ("its error response
    # if an operation was rejected"): both the plain response and the error response are allowed
    wrote_any = any(k == W or (k == FIN and a) for k, a in prog)

    def aborted():
        # the request was rejected: nothing, or an incomplete message, then the connection closed
        return r1 is None and closed

    def is_error_response():
        return r1 is not None and r1.code == 500 and r1.mode in ("length", "chunked", "none")

    if impossible and method != "HEAD":
        reached("rejected_body_with_204_304")
        ok_empty = (r1 is not None and r1.code == S and r1.body == b"" and left == "clean"
                    and len(resps) == 1 and closed)
        assert aborted() or is_error_response() or ok_empty, \
            "a %d response must not carry the body %r: wire=%r" % (S, B, wire)
    elif cl_mismatch and method != "HEAD":
        reached("rejected_cl_mismatch")
        assert aborted() or is_error_response(), \
            "Content-Length %r but body %r must be rejected: wire=%r closed=%r" % (
                mo["cl"], B, wire, closed)
    elif S in (204, 304) and wrote_any and not mo["etag304"] and is_error_response():
        pass    # write(b"") + 204: tornado answers 500; allowed by the statement
    elif (impossible or cl_mismatch) and method == "HEAD" and (aborted() or is_error_response()):
        pass    # contradictory demands on a HEAD request: either outcome is allowed
    else:
        assert r1 is not None, "no complete response on the wire: %r (closed=%r)" % (wire, closed)
        assert r1.code == S, "status %d, handler asked for %d" % (r1.code, S)
        want = b"" if bodyless else B
        assert r1.body == want, "body %r != written %r (mode %s)" % (r1.body, want, r1.mode)
        if mo["xp"] is None:
            assert r1.get(b"x-p") is None
        else:
            assert r1.get_all(b"x-p") == [mo["xp"].encode()], "X-P header lost/changed"
        clh = r1.get(b"content-length")
        if mo["cl"] is not None and not mo["etag304"] and S not in (204, 304) and not cl_mismatch:
            assert clh is not None and int(clh) == mo["cl"], "handler's Content-Length not carried"
        if clh is not None and mo["cl"] is None:
            # computed by tornado: must equal the length of the body a GET would carry
            assert int(clh) == len(B), "Content-Length %r != len(GET body) %d" % (clh, len(B))
        if ver != 2:
            assert r1.get(b"transfer-encoding") is None, "chunked coding sent to an HTTP/1.0 client"
        if r1.mode == "none":
            assert r1.get(b"transfer-encoding") is None, "Transfer-Encoding on a bodyless response"
        if r1.mode == "chunked":
            reached("chunked")
        if r1.mode == "close":
            reached("close_delimited")
        if mo["etag304"]:
            reached("etag_304")
        if method == "HEAD" and B != b"":
            reached("head_no_body")
    # ---- exactly one response to the first request; then either closed or (pipelined variant) the
    # clean answer to the second request
    assert left != "extra", "stray bytes after the response(s): %r" % wire
    if left == "truncated" and r1 is not None:
        raise AssertionError("garbage/partial bytes after the first response: %r" % wire)
    if P.second:
        if len(resps) == 2:
            reached("second_answered")
            assert rig.is_second_response(resps[1]), "second response damaged: %r" % wire
        else:
            reached("closed_after_first")
            assert closed, "second request unanswered but connection open: %r" % wire
    if r1 is not None and r1.mode == "close":
        assert closed


@harness(
    pre=pre_resp,
    quick=dict(R=11, N=2, K=6, A=2, second=0, timeout=150, reach_timeout=60),
    thorough=dict(R=15, N=3, K=7, A=2, second=0, timeout=1500, reach_timeout=90),
    nshards=dict(quick=11, thorough=15),
    reach=["rejected_body_with_204_304", "rejected_cl_mismatch", "chunked", "close_delimited",
           "etag_304", "head_no_body"],
    units=["web.RequestHandler.set_status/set_header/clear_header/write/flush/finish",
           "web.RequestHandler.set_etag_header/check_etag_header/send_error/_execute",
           "web.Application.find_handler / _HandlerDelegate", "http1connection.HTTP1Connection.write_headers",
           "HTTP1Connection._format_chunk/write/finish/_finish_request/_can_keep_alive",
           "HTTP1ServerConnection._server_request_loop"],
    stubs=["FakeStream (vp/fakestream.py) + VLoop/FakeAio virtual loop (vp/env.py)", "logging disabled",
           "request bytes concrete, pooled by symbolic index: {GET,HEAD,POST} x {If-None-Match absent,*} "
           "x {HTTP/1.0, HTTP/1.0 keep-alive, HTTP/1.1}; followed by a pipelined GET",
           "chunk contents concrete (prefixes of 'abcdefgh...'); sizes, Content-Length values, op kinds "
           "and status index are solver variables (realised by forking where C code needs them)"],
    outside=["output transforms (decided in C29, incl. HEAD-vs-GET header equality under compression)", "cookies (C25)", "header injection (C07)",
             "programs longer than N ops", "status codes outside {200,204,304,404}",
             "explicit Content-Length contradicting the body on HEAD/204/304 (either outcome accepted)",
             "real sockets / partial writes (C12)"],
)
def h_resp(req: int, prog: List[Tuple[int, int]]):
    _body(req, prog)


def _may_reach(tag, method, ver, inm, prog):
    """Reach-twin steering only: a NECESSARY condition (from the model) for `tag`; paths that
    cannot reach the tag skip the expensive pipeline so the twin finds its witness in time.
    The tag itself is still raised after the real code ran."""
    mo = model(method, inm, prog)
    S, B = mo["status"], mo["body"]
    if tag in ("rejected_body_with_204_304", "streamed_body_with_204_304"):
        return S in (204, 304) and B != b"" and method != "HEAD" and not mo["etag304"]
    if tag == "rejected_cl_mismatch":
        return mo["cl"] is not None and mo["cl"] != len(B) and method != "HEAD" and S not in (204, 304)
    if tag == "chunked":
        return ver == 2 and mo["streamed"]
    if tag == "close_delimited":
        return ver != 2 and mo["streamed"]
    if tag == "etag_304":
        return mo["etag304"]
    if tag == "head_no_body":
        return method == "HEAD" and B != b""
    if tag == "streamed_404":
        return S == 404 and mo["streamed"] and B != b""
    return True


def _body(req, prog, pre=None, slow=False):
    method, ver, inm, reqb = request_bytes(req)
    if P.reach is not None and not _may_reach(P.reach, method, ver, inm, prog):
        return
    with install() as env:
        app = rig.make_app(prog, pre_hook=pre)
        st = rig.serve(env, app, reqb + (rig.SECOND_REQ if P.second else b""), slow=slow)
        wire, closed = st.wire(), st.closed()
    check_response(method, ver, inm, prog, wire, closed)


def pre_prestate(req: int, s0: int, prog: List[Tuple[int, int]]) -> bool:
    if not (0 <= req < P.R and 0 <= s0 <= 2 and len(prog) <= P.N):
        return False
    for kind, a in prog:
        if not (0 <= kind < P.K and 0 <= a <= P.A):
            return False
    return in_shard(req)


@harness(
    pre=pre_prestate,
    quick=dict(R=9, N=2, K=2, A=2, second=0, timeout=100, reach_timeout=60),
    thorough=dict(R=15, N=3, K=2, A=3, second=0, timeout=900, reach_timeout=90),
    nshards=dict(quick=9, thorough=15),
    reach=["streamed_body_with_204_304", "streamed_404"],
    units=["same as h_resp"],
    stubs=["same as h_resp; the status (204/304/404) is set by a pre-state set_status() before the program"],
    outside=["same as h_resp"],
)
def h_resp_prestate(req: int, s0: int, prog: List[Tuple[int, int]]):
    """Deeper write/flush programs from a symbolic pre-state (status already set to 204/304/404):
    reaches 'status without body + streamed body' within the quick bounds."""
    sc = rig.STATUS_POOL[s0]
    full = [(ST, s0)] + list(prog)
    method, ver, inm, reqb = request_bytes(req)
    if P.reach is not None and not _may_reach(P.reach, method, ver, inm, full):
        return
    with install() as env:
        app = rig.make_app(prog, pre_hook=lambda h: h.set_status(sc))
        st = rig.serve(env, app, reqb)
        wire, closed = st.wire(), st.closed()
    mo = model(method, inm, full)
    if mo["streamed"] and mo["body"] != b"":
        if sc in (204, 304):
            reached("streamed_body_with_204_304")
        else:
            reached("streamed_404")
    check_response(method, ver, inm, full, wire, closed)


def pre_pipelined(req: int, prog: List[Tuple[int, int]], slow: bool) -> bool:
    return pre_resp(req, prog)


@harness(
    pre=pre_pipelined,
    quick=dict(R=11, N=1, K=6, A=2, second=1, timeout=100, reach_timeout=60),
    thorough=dict(R=15, N=2, K=6, A=3, second=1, timeout=1400, reach_timeout=90),
    nshards=dict(quick=11, thorough=15),
    reach=["second_answered", "closed_after_first", "slow_consumer"],
    units=["same as h_resp + HTTP1ServerConnection._server_request_loop second iteration"],
    stubs=["same as h_resp; a pipelined 'GET /z HTTP/1.1' follows the first request",
           "slow=True: slow consumer (FakeStream slow_writes: writes stay pending until the peer drains; "
           "drained repeatedly until quiescent)"],
    outside=["same as h_resp"],
)
def h_resp_pipelined(req: int, prog: List[Tuple[int, int]], slow: bool):
    """Same oracle with a second pipelined request: the bytes after the first response are either
    nothing (and the connection is closed) or exactly the canned answer to the second request;
    also with a slow consumer (writes completing asynchronously)."""
    if slow:
        reached("slow_consumer")
    _body(req, prog, slow=slow)


TECHNIQUE = ("CrossHair symbolic execution of the real RequestHandler/HTTP1Connection output path driven by a "
             "symbolic handler program; the written bytes are judged by a strict reference response reader")
ASSUMPTIONS = ["FakeStream/virtual loop environment", "bounded program length and value pools (see params)"]
