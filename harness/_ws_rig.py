"""Common rig for the WebSocket properties C14-C17 (agent `ws`).

Everything in this file is either an ENVIRONMENT STUB (listed by the harnesses under `stubs`) or the
REFERENCE side of an oracle (frame writer / frame parser / reassembler written from RFC 6455 + RFC 7692,
never from tornado's code).  The code under test is always the real tornado.websocket.

Stubs installed by apply_shims():
  * tornado.websocket.zlib  -> ZShim: tagged, invertible, pure-Python stand-in for raw deflate
        compress:   Z_SYNC_FLUSH output = bytes([0x30 + n % 8, 0]) + data + 00 00 ff ff     (n = number of
                    messages compressed so far BY THIS OBJECT, so context takeover is observable)
        decompress: checks the 00 00 ff ff tail and the tag against ITS message counter, output =
                    body * (1 + repeat) where repeat = second byte (lets a peer build an expanding message),
                    honours max_length / unconsumed_tail (max_length == 0 means unlimited, as in zlib)
  * tornado.websocket._websocket_mask -> tornado.util._websocket_mask_python   (equality with the C
        routine is property C18) -- or, for symbolic payloads, `mask_ref` (array-free, same definition)
  * tornado.websocket.struct -> PyStruct: pure-Python big-endian B/H/Q pack/unpack (keeps values symbolic)
  * tornado.websocket.os.urandom is NOT patched globally; harnesses that send masked frames patch
        `tornado.websocket.os` with an object whose urandom(n) returns a chosen mask.
"""
import types

import tornado.websocket as W
from tornado.util import _websocket_mask_python

TAIL = b"\x00\x00\xff\xff"


# ------------------------------------------------------------------------------------------ zlib stand-in
class ZError(Exception):
    pass


class _ZComp:
    def __init__(self, level, method, wbits, memlevel):
        self.args = (level, method, wbits, memlevel)
        self.n = 0
        self.pending = b""

    def compress(self, data):
        self.pending += data
        return b""

    def flush(self, mode):
        assert mode == ZShim.Z_SYNC_FLUSH
        out = bytes([0x30 + self.n % 8, 0]) + self.pending + TAIL
        self.pending = b""
        self.n += 1
        return out


class _ZDecomp:
    def __init__(self, wbits):
        self.wbits = wbits
        self.n = 0
        self.unconsumed_tail = b""

    def decompress(self, data, max_length=0):
        if len(data) < 6 or data[len(data) - 4:] != TAIL:
            raise ZError("bad deflate tail")
        tag = data[0]
        rep = data[1]
        if tag != 0x30 + self.n % 8:
            raise ZError("context mismatch: tag %r, expected message #%d" % (tag, self.n))
        self.n += 1
        body = data[2:len(data) - 4]
        if rep == 0:
            out = body
        elif rep == 1:
            out = body + body
        elif rep == 2:
            out = body + body + body
        else:
            raise ZError("bad repeat")
        if max_length and len(out) > max_length:
            self.unconsumed_tail = b"\x01"
            return out[:max_length]
        self.unconsumed_tail = b""
        return out


class _ZShimMod:
    MAX_WBITS = 15
    DEFLATED = 8
    Z_SYNC_FLUSH = 2
    error = ZError

    def __init__(self):
        self.comp_created = []
        self.decomp_created = []

    def compressobj(self, level=-1, method=8, wbits=15, memLevel=8, *a):
        c = _ZComp(level, method, wbits, memLevel)
        self.comp_created.append(c)
        return c

    def decompressobj(self, wbits=15):
        d = _ZDecomp(wbits)
        self.decomp_created.append(d)
        return d


ZShim = _ZShimMod()


def z_compress(n, data, rep=0):
    """Reference peer-side compressor for message number n of a context: what goes on the wire
    (RFC 7692: the trailing 00 00 ff ff is removed)."""
    return bytes([0x30 + n % 8, rep]) + data


# ------------------------------------------------------------------------------------------ struct stand-in
class _PyStruct:
    """Big-endian / native single-byte pack/unpack for the format characters B, H, Q only."""
    error = ValueError

    @staticmethod
    def _fields(fmt):
        if fmt[:1] in "!><=@":
            fmt = fmt[1:]
        sizes = []
        for ch in fmt:
            sizes.append({"B": 1, "H": 2, "Q": 8}[ch])
        return sizes

    def pack(self, fmt, *vals):
        sizes = self._fields(fmt)
        assert len(sizes) == len(vals)
        out = b""
        for sz, v in zip(sizes, vals):
            if not (0 <= v < (1 << (8 * sz))):
                raise ValueError("struct.pack: %r out of range for %d bytes" % (v, sz))
            bs = []
            for k in range(sz):
                # // and % instead of >> and & : stays linear integer arithmetic for symbolic v
                bs.append((v // (1 << (8 * (sz - 1 - k)))) % 256)
            out += bytes(bs)
        return out

    def unpack(self, fmt, data):
        sizes = self._fields(fmt)
        if len(data) != sum(sizes):
            raise ValueError("struct.unpack: need %d bytes" % sum(sizes))
        res = []
        pos = 0
        for sz in sizes:
            v = 0
            for k in range(sz):
                v = v * 256 + data[pos + k]
            pos += sz
            res.append(v)
        return tuple(res)


PyStruct = _PyStruct()


def mask_ref(mask, data):
    """RFC 6455 5.3 written without array.array (keeps symbolic bytes symbolic)."""
    if len(mask) != 4:
        raise ValueError("mask must be 4 bytes")
    return bytes([data[i] ^ mask[i % 4] for i in range(len(data))])


class _FakeOs:
    """Stand-in for the `os` module inside tornado.websocket: urandom returns the chosen mask."""

    def __init__(self, mask):
        self.mask = mask
        self.calls = 0

    def urandom(self, n):
        self.calls += 1
        assert n == len(self.mask)
        return self.mask

    def __getattr__(self, k):
        import os
        return getattr(os, k)


_REAL = dict(zlib=W.zlib, mask=W._websocket_mask, struct=W.struct, os=W.os)


def apply_shims(struct_shim=True, symbolic_mask=False, urandom=None):
    W.zlib = ZShim
    ZShim.comp_created = []
    ZShim.decomp_created = []
    W._websocket_mask = mask_ref if symbolic_mask else _websocket_mask_python
    W.struct = PyStruct if struct_shim else _REAL["struct"]
    W.os = _FakeOs(urandom) if urandom is not None else _REAL["os"]


# ------------------------------------------------------------------------------------------ recording delegate
class Rec:
    """Records everything the protocol hands to the application (the _WebSocketDelegate interface)."""

    def __init__(self):
        self.msgs = []        # on_message arguments, in order
        self.pings = []
        self.pongs = []
        self.closes = []      # (code, reason) per on_ws_connection_close call
        self.logged = []
        self.async_next = None   # a Future to return from the next on_message (in-flight message)
        self.close_code = None
        self.close_reason = None

    def on_message(self, m):
        self.msgs.append(m)
        f, self.async_next = self.async_next, None
        return f

    def on_ping(self, d):
        self.pings.append(d)

    def on_pong(self, d):
        self.pongs.append(d)

    def on_ws_connection_close(self, close_code=None, close_reason=None):
        self.close_code = close_code
        self.close_reason = close_reason
        self.closes.append((close_code, close_reason))

    def log_exception(self, typ, value, tb):
        self.logged.append(value)


def make_proto(env, stream, comp=0, mask_outgoing=False, max_message_size=1 << 20,
               ping_interval=None, ping_timeout=None, handler=None, side="server"):
    """Real WebSocketProtocol13 wired to `stream`.  comp: 0 off, 1 on with context takeover,
    2 on with <peer>_no_context_takeover (decompressor not persistent), 3 both no_context_takeover."""
    h = handler if handler is not None else Rec()
    params = W._WebSocketParams(ping_interval=ping_interval, ping_timeout=ping_timeout,
                                max_message_size=max_message_size,
                                compression_options={} if comp else None)
    p = W.WebSocketProtocol13(h, mask_outgoing, params)
    p.stream = stream
    if comp:
        agreed = {}
        other = "client" if side == "server" else "server"
        if comp >= 2:
            agreed[other + "_no_context_takeover"] = None
        if comp == 3:
            agreed[side + "_no_context_takeover"] = None
        p._create_compressors(side, agreed, {})
    return p, h


# ------------------------------------------------------------------------------------------ reference writer
def enc_len(n, form, maskbit):
    """form 0: 7-bit, 1: 16-bit, 2: 64-bit (RFC 6455 5.2); caller guarantees n fits the form."""
    mb = 0x80 if maskbit else 0
    if form == 0:
        assert n < 126
        return bytes([mb | n])
    if form == 1:
        assert n < 65536
        return bytes([mb | 126, n >> 8, n & 0xFF])
    out = [mb | 127]
    for k in range(8):
        out.append((n >> (8 * (7 - k))) & 0xFF)
    return bytes(out)


def frame(fin, rsv, opcode, payload, masked=False, form=0, mask=b"\x11\x22\x33\x44"):
    """rsv: 3-bit int (4 = RSV1, 2 = RSV2, 1 = RSV3)."""
    b0 = (0x80 if fin else 0) | (rsv << 4) | opcode
    out = bytes([b0]) + enc_len(len(payload), form, masked)
    if masked:
        out += mask + bytes([payload[i] ^ mask[i % 4] for i in range(len(payload))])
    else:
        out += payload
    return out


# ------------------------------------------------------------------------------------------ reference parser
def parse_frames(wire):
    """RFC 6455 5.2 parser for bytes WRITTEN by tornado: list of (fin, rsv, opcode, masked, payload,
    minimal_length_form).  Raises AssertionError on a truncated frame."""
    out = []
    i = 0
    n = len(wire)
    while i < n:
        assert i + 2 <= n, "truncated header"
        b0 = wire[i]
        b1 = wire[i + 1]
        i += 2
        ln = b1 & 0x7F
        minimal = True
        if ln == 126:
            assert i + 2 <= n
            ln = (wire[i] << 8) | wire[i + 1]
            i += 2
            minimal = ln >= 126
        elif ln == 127:
            assert i + 8 <= n
            ln = 0
            for k in range(8):
                ln = (ln << 8) | wire[i + k]
            i += 8
            minimal = ln >= 65536
        masked = bool(b1 & 0x80)
        if masked:
            assert i + 4 <= n
            mk = wire[i:i + 4]
            i += 4
        assert i + ln <= n, "truncated payload"
        pl = wire[i:i + ln]
        i += ln
        if masked and not (mk[0] == 0 and mk[1] == 0 and mk[2] == 0 and mk[3] == 0):
            # (zero mask: x ^ 0 == x; skipping the xor keeps symbolic payload bytes out of CrossHair's xor model)
            pl = bytes([pl[j] ^ mk[j % 4] for j in range(len(pl))])
        out.append((bool(b0 & 0x80), (b0 >> 4) & 7, b0 & 0xF, masked, pl, minimal))
    return out


def pick(k, n):
    """Concrete int in range(n) equal to the (possibly symbolic) k, by branching."""
    for i in range(n - 1):
        if k == i:
            return i
    return n - 1


# ------------------------------------------------------------------------------------------ server-side rig
# Real WebSocketHandler + real handshake (WebSocketHandler.get -> accept_connection) over a stand-in
# HTTPConnection whose detach() hands out the FakeStream.
import tornado.web as _web
from tornado import httputil as _httputil
from tornado.concurrent import Future as _Future


class FixedTime:
    """Stand-in for the `time` module inside tornado.web / tornado.httputil (CrossHair models time.time()
    as a fresh symbolic float per call)."""

    def __init__(self, now=1600000000):
        self.now = now

    def time(self):
        return self.now

    def __getattr__(self, k):
        import time as _t
        return getattr(_t, k)


CLOCK = FixedTime()
import logging as _logging
_logging.disable(_logging.CRITICAL)      # no log records (LogRecord reads time.time(), symbolic under CrossHair)


def fix_time():
    _web.time = CLOCK
    _httputil.time = CLOCK


class FakeConn:
    """HTTPConnection stand-in: records the response head, detach() returns the stream."""

    def __init__(self, stream):
        self.stream = stream
        self.start_line = None
        self.headers = None
        self.body = b""
        self.finished = False
        self.detached = False
        self.close_cb = None
        self.context = None

    def set_close_callback(self, cb):
        self.close_cb = cb

    def write_headers(self, start_line, headers, chunk=None):
        self.start_line = start_line
        self.headers = headers
        if chunk:
            self.body += chunk
        f = _Future()
        f.set_result(None)
        return f

    def write(self, chunk):
        self.body += chunk
        f = _Future()
        f.set_result(None)
        return f

    def finish(self):
        self.finished = True

    def detach(self):
        self.detached = True
        self.close_cb = None
        return self.stream


class SrvHandler(W.WebSocketHandler):
    """Application handler used by the harnesses: records every notification."""

    def initialize(self, rec=None):
        self.rec = rec

    def open(self, *a, **kw):
        self.rec.opened += 1

    def on_message(self, m):
        return self.rec.on_message(m)

    def on_ping(self, d):
        self.rec.pings.append(d)

    def on_pong(self, d):
        self.rec.pongs.append(d)

    def on_close(self):
        self.rec.closes.append((self.close_code, self.close_reason))

    def get_compression_options(self):
        return self.rec.comp_opts

    def select_subprotocol(self, subprotocols):
        self.rec.offered = list(subprotocols)
        return self.rec.select

    def log_exception(self, typ, value, tb):
        self.rec.logged.append(value)


class SrvRec(Rec):
    def __init__(self):
        Rec.__init__(self)
        self.opened = 0
        self.comp_opts = None
        self.select = None
        self.offered = None


_APP = _web.Application([], websocket_ping_interval=None)


def make_server(env, stream, headers, ping_interval=None, ping_timeout=None, max_message_size=None,
                handler_cls=SrvHandler, rec=None):
    """Builds the real handler for an upgrade request with `headers` (list of (name, value)), runs the real
    RequestHandler._execute -> WebSocketHandler.get() to completion of the handshake.  Returns (handler, rec, conn, task)."""
    fix_time()
    rec = rec if rec is not None else SrvRec()
    _APP.settings.pop("websocket_ping_interval", None)
    _APP.settings.pop("websocket_ping_timeout", None)
    _APP.settings.pop("websocket_max_message_size", None)
    if ping_interval is not None:
        _APP.settings["websocket_ping_interval"] = ping_interval
    if ping_timeout is not None:
        _APP.settings["websocket_ping_timeout"] = ping_timeout
    if max_message_size is not None:
        _APP.settings["websocket_max_message_size"] = max_message_size
    conn = FakeConn(stream)
    hh = _httputil.HTTPHeaders()
    for k, v in headers:
        hh.add(k, v)
    req = _httputil.HTTPServerRequest(method="GET", uri="/ws", version="HTTP/1.1", headers=hh,
                                      connection=conn)
    handler = handler_cls(_APP, req, rec=rec)
    task = env.spawn(handler._execute([]))
    return handler, rec, conn, task


GOOD_HEADERS = [("Host", "example.com"), ("Upgrade", "websocket"), ("Connection", "Upgrade"),
                ("Sec-WebSocket-Key", "dGhlIHNhbXBsZSBub25jZQ=="), ("Sec-WebSocket-Version", "13")]
