"""C33 - Locks and semaphores never over-grant, lose wakeups or skip the queue.

Real code driven: tornado.locks.Semaphore / BoundedSemaphore / Lock (acquire, release,
_ReleasingContextManager, _TimeoutGarbageCollector) on the virtual loop.
Oracle: sequential reference model (counter + FIFO of live waiters).
"""
import datetime
from typing import List, Tuple

from vp.api import P, harness, in_shard, reached
from vp.env import install

from tornado import locks

NK = 7  # op kinds


def pre_sem(cls: int, init: int, gc: bool, ops: List[Tuple[int, int]]) -> bool:
    if not (0 <= cls <= 2 and 0 <= init <= 2 and len(ops) <= P.N):
        return False
    if cls == 2 and init != 1:
        return False
    for k, a in ops:
        if not (0 <= k < NK and 0 <= a <= 2):
            return False
    key = (ops[0][0] if len(ops) > 0 else 0) + NK * (ops[1][0] if len(ops) > 1 else 0)
    return in_shard(key)


@harness(
    pre=pre_sem,
    quick=dict(N=3, timeout=300),
    thorough=dict(N=4, timeout=1500),
    nshards=dict(quick=16, thorough=49),
    reach=["over_release_raises"],
    units=["locks.Semaphore.acquire", "locks.Semaphore.release", "locks.BoundedSemaphore.release",
           "locks.Lock.acquire", "locks.Lock.release", "locks._ReleasingContextManager.__exit__",
           "locks._TimeoutGarbageCollector._garbage_collect", "ioloop.IOLoop.add_timeout"],
    stubs=["VLoop/FakeAio virtual loop and clock (vp/env.py): timers fire in (deadline, insertion) "
           "order and never early; callbacks FIFO",
           "gc shard: _timeouts pre-set to 100 so the waiter garbage collector runs on the next timeout"],
    outside=["histories longer than N operations", "more than 2 initial permits", "real threads"],
)
def h_sem(cls: int, init: int, gc: bool, ops: List[Tuple[int, int]]):
    with install() as env:
        if cls == 0:
            s = locks.Semaphore(init)
        elif cls == 1:
            s = locks.BoundedSemaphore(init)
        else:
            s = locks.Lock()
        blk = s._block if cls == 2 else s
        if gc:
            blk._timeouts = 100
        # reference model
        value = init
        futs = []        # real futures, by arrival
        mstate = []      # model state per acquire: 'P' pending, 'G' granted, 'T' timed out, 'C' cancelled
        mdead = []       # model deadline (or None)
        grants = 0
        releases = 0
        exited = []      # grants whose context manager was exited
        now = env.v.now

        def m_release():
            nonlocal value
            value += 1
            for i in range(len(mstate)):
                if mstate[i] == 'P':
                    mstate[i] = 'G'
                    value -= 1
                    break

        for k, a in ops:
            if k <= 2:
                if k == 0:
                    f = s.acquire()
                    dl = None
                elif k == 1:
                    f = s.acquire(now + a)
                    dl = now + a
                else:
                    # branch on a so the timedelta (C type) and its float seconds stay concrete
                    ca = 0 if a == 0 else 1 if a == 1 else 2
                    f = s.acquire(datetime.timedelta(seconds=ca))
                    dl = now + ca
                futs.append(f)
                if value > 0:
                    value -= 1
                    mstate.append('G')
                    mdead.append(None)
                else:
                    mstate.append('P')
                    mdead.append(dl)
            elif k == 3 or k == 6:
                over = (cls != 0 and value >= init)
                if k == 6:
                    # release through the context manager of an already granted acquire
                    idx = [i for i in range(len(mstate)) if mstate[i] == 'G' and i not in exited]
                    if not idx:
                        continue
                    j = idx[a % len(idx)]
                    exited.append(j)
                    cm = futs[j].result()
                    try:
                        with cm:
                            pass
                        raised = None
                    except Exception as e:
                        raised = e
                else:
                    try:
                        s.release()
                        raised = None
                    except Exception as e:
                        raised = e
                if over:
                    reached("over_release_raises")
                    # a Lock's context manager releases the underlying bounded semaphore directly,
                    # so a double release through it surfaces as ValueError: still "raises"
                    want = RuntimeError if (cls == 2 and k == 3) else ValueError
                    assert type(raised) is want, "over-release must raise %s, got %r" % (want.__name__, raised)
                else:
                    assert raised is None, "release raised %r" % (raised,)
                    releases += 1
                    m_release()
            elif k == 4:
                pend = [i for i in range(len(mstate)) if mstate[i] == 'P']
                if not pend:
                    continue
                j = pend[a % len(pend)]
                futs[j].cancel()
                mstate[j] = 'C'
            elif k == 5:
                # the clock advances by a concrete amount per path (branch on a): mixing a symbolic
                # int clock with float deadlines would push the solver into IEEE-FP queries
                ca = 0 if a == 0 else 1 if a == 1 else 2
                env.advance(ca)
                now = now + ca
                for i in range(len(mstate)):
                    if mstate[i] == 'P' and mdead[i] is not None and mdead[i] <= now:
                        mstate[i] = 'T'
            env.run_ready()
            # ---- compare real futures with the model after every operation
            for i, f in enumerate(futs):
                st = mstate[i]
                if st == 'P':
                    assert not f.done(), "waiter %d should still be pending (model) but is done" % i
                elif st == 'G':
                    assert f.done() and not f.cancelled() and f.exception() is None, \
                        "waiter %d should hold a permit (model: granted in arrival order) state=%r" % (i, f)
                elif st == 'T':
                    assert f.done() and not f.cancelled() and f.exception() is not None, \
                        "waiter %d timed out in the model but real future is %r" % (i, f)
                    assert type(f.exception()).__name__ == "TimeoutError"
                else:
                    assert f.cancelled()
            grants = sum(1 for x in mstate if x == 'G')
            assert grants - releases <= init, "granted-unreleased exceeds initial value"
            assert blk._value == value, "counter %r != model %r" % (blk._value, value)
            if value > 0:
                assert 'P' not in mstate, "permit left unused while a live waiter waits"
        assert not env.v.exc_contexts, "exception escaped a callback: %r" % (env.v.exc_contexts,)


# ----------------------------------------------------------------------------------------------
# Inductive-step harness: a symbolic PRE-STATE (queue of up to 3 earlier waiters, each pending /
# pending with deadline / already timed out / already cancelled, built through the real API so the
# timeout handles and done-callbacks are the real ones) followed by up to M symbolic operations.
# Covers deep histories (skipping dead waiters, FIFO among survivors) that N<=3 cannot reach.

def pre_step(cls: int, wst: List[int], extra: int, ops: List[Tuple[int, int]]) -> bool:
    if not (0 <= cls <= 2 and len(wst) <= 3 and 1 <= extra <= 2 and len(ops) <= P.M):
        return False
    for w in wst:
        if not 0 <= w <= 4:
            return False
    for k, a in ops:
        if not (0 <= k < NK and 0 <= a <= 2):
            return False
    return in_shard((wst[0] if len(wst) > 0 else 0) + 5 * (ops[0][0] if len(ops) > 0 else 0))


@harness(
    pre=pre_step,
    quick=dict(M=1, timeout=120),
    thorough=dict(M=2, timeout=1500),
    nshards=dict(quick=16, thorough=32),
    reach=["grant_after_timeout_skip", "cancelled_skipped", "fifo_two_live"],
    units=["locks.Semaphore.acquire", "locks.Semaphore.release", "locks.BoundedSemaphore.release",
           "locks.Lock.release"],
    stubs=["VLoop/FakeAio virtual loop and clock (vp/env.py)",
           "pre-state built by the real acquire()/cancel()/timer expiry from an exhausted semaphore; "
           "waiter states: 0 pending, 1 pending deadline now+1, 2 pending deadline now+2, 3 timed out, "
           "4 cancelled; `extra` = permits taken beyond the queue (initial value = extra+? see code)"],
    outside=["more than 3 queued waiters in the pre-state", "more than M further operations"],
)
def h_sem_step(cls: int, wst: List[int], extra: int, ops: List[Tuple[int, int]]):
    with install() as env:
        init = 1 if cls == 2 else max(extra, 1)
        if cls == 0:
            s = locks.Semaphore(init)
        elif cls == 1:
            s = locks.BoundedSemaphore(init)
        else:
            s = locks.Lock()
        blk = s._block if cls == 2 else s
        holders = [s.acquire() for _ in range(init)]     # exhaust the permits
        assert all(h.done() for h in holders)
        futs, mstate, mdead = [], [], []
        now = env.v.now
        # ---- build the queue
        for w in wst:
            if w == 0:
                f = s.acquire(); st, dl = 'P', None
            elif w == 1:
                f = s.acquire(now + 2); st, dl = 'P', now + 2
            elif w == 2:
                f = s.acquire(datetime.timedelta(seconds=3)); st, dl = 'P', now + 3
            elif w == 3:
                f = s.acquire(now + 1); st, dl = 'T', now + 1
            else:
                f = s.acquire(); f.cancel(); st, dl = 'C', None
            futs.append(f); mstate.append(st); mdead.append(dl)
        env.advance(1)          # expires exactly the state-3 waiters (deadline now+1)
        now = now + 1
        value = 0
        released = 0

        def check():
            for i, f in enumerate(futs):
                st = mstate[i]
                if st == 'P':
                    assert not f.done(), "waiter %d should be pending" % i
                elif st == 'G':
                    assert f.done() and not f.cancelled() and f.exception() is None, \
                        "waiter %d should have been granted (arrival order among live waiters)" % i
                elif st == 'T':
                    assert f.done() and not f.cancelled() and type(f.exception()).__name__ == "TimeoutError", \
                        "waiter %d should have timed out, is %r" % (i, f)
                else:
                    assert f.cancelled(), "waiter %d should be cancelled" % i
            assert blk._value == value, "counter %r != model %r" % (blk._value, value)
            g = init + sum(1 for x in mstate if x == 'G') - released
            assert g <= init, "granted-unreleased %d exceeds initial value %d" % (g, init)
            if value > 0:
                assert 'P' not in mstate, "permit left unused while a live waiter waits"

        check()
        for k, a in ops:
            if k <= 2:
                if k == 0:
                    f = s.acquire(); dl = None
                elif k == 1:
                    f = s.acquire(now + a); dl = now + a
                else:
                    ca = 0 if a == 0 else 1 if a == 1 else 2
                    f = s.acquire(datetime.timedelta(seconds=ca)); dl = now + ca
                futs.append(f)
                if value > 0:
                    value -= 1; mstate.append('G'); mdead.append(None)
                else:
                    mstate.append('P'); mdead.append(dl)
            elif k == 3 or k == 6:
                over = (cls != 0 and value >= init)
                try:
                    if k == 6:
                        with holders[0].result():
                            pass
                    else:
                        s.release()
                    raised = None
                except Exception as e:
                    raised = e
                if over:
                    want = RuntimeError if (cls == 2 and k == 3) else ValueError
                    assert type(raised) is want, "over-release must raise, got %r" % (raised,)
                else:
                    assert raised is None, "release raised %r" % (raised,)
                    released += 1
                    value += 1
                    for i in range(len(mstate)):
                        if mstate[i] == 'P':
                            mstate[i] = 'G'; value -= 1
                            if 'T' in mstate[:i]:
                                reached("grant_after_timeout_skip")
                            if 'C' in mstate[:i]:
                                reached("cancelled_skipped")
                            if 'P' in mstate[i + 1:]:
                                reached("fifo_two_live")
                            break
            elif k == 4:
                pend = [i for i in range(len(mstate)) if mstate[i] == 'P']
                if pend:
                    j = pend[a % len(pend)]
                    futs[j].cancel(); mstate[j] = 'C'
            else:
                ca = 0 if a == 0 else 1 if a == 1 else 2
                env.advance(ca); now = now + ca
                for i in range(len(mstate)):
                    if mstate[i] == 'P' and mdead[i] is not None and mdead[i] <= now:
                        mstate[i] = 'T'
            env.run_ready()
            check()
        assert not env.v.exc_contexts, "exception escaped a callback: %r" % (env.v.exc_contexts,)
