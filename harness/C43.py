"""C43 - HTTP utility parsers and formatters are total and mutually consistent.

Engine B (unbounded length, z3 regex obligations on the LIVE patterns):
  _ABNF.request_line / status_line == independently written RFC 9112 grammars (both inclusions),
  strict RFC 3986 origin-form/asterisk targets are accepted, _netloc_re == reference grammar,
  _re_unescape_pattern == "backslash + any one character".
Engine A (CrossHair, bounded, any code point): parse_request_start_line / parse_response_start_line
accept exactly the grammar (HTTP/1.x) and raise only HTTPInputError; _parse_header, parse_cookie,
_unquote_cookie, split_host_and_port never raise; token parameters round-trip through
_encode_header/_parse_header; re_unescape inverts re.escape; is_valid_ip's empty/NUL guard.
"""
import re
from typing import List, Tuple

from vp.api import P, harness, in_shard, reached

from tornado import httputil, netutil, util
from tornado.httputil import HTTPInputError

TCHARS = "!#$%&'*+-.^_`|~0123456789abcdefghijklmnopqrstuvwxyzABCDEFGHIJKLMNOPQRSTUVWXYZ"


# ----------------------------------------------------------------- reference grammars (RFC 9112)
def _tchar(c):
    o = ord(c)
    return (48 <= o <= 57 or 65 <= o <= 90 or 94 <= o <= 122 or o == 33 or 35 <= o <= 39 or
            o == 42 or o == 43 or o == 45 or o == 46 or o == 124 or o == 126)


for _o in range(0x250):
    assert _tchar(chr(_o)) == (chr(_o) in TCHARS)


def _vchar_obs(c):
    o = ord(c)
    return 0x21 <= o <= 0x7E or 0x80 <= o <= 0xFF


def _digit(c):
    return 48 <= ord(c) <= 57


def _version(s):
    return len(s) == 8 and s[:5] == "HTTP/" and _digit(s[5]) and s[6] == "." and _digit(s[7])


def ref_request_line(line: str):
    """RFC 9112 3: method SP request-target SP HTTP-version; request-target = 1*(VCHAR / obs-text)
    (tornado's documented relaxation of the RFC 3986 forms).  Neither method nor target contains SP,
    so the first SP ends the method and the last SP precedes the version.  Returns parts or None."""
    n = len(line)
    if n < 12:
        return None
    v = line[n - 8:]
    if line[n - 9] != " " or not _version(v):
        return None
    head = line[:n - 9]
    i = head.find(" ")
    if i <= 0 or i == len(head) - 1:
        return None
    m, t = head[:i], head[i + 1:]
    for c in m:
        if not _tchar(c):
            return None
    for c in t:
        if not _vchar_obs(c):
            return None
    return (m, t, v)


def ref_status_line(line: str):
    """RFC 9112 4: HTTP-version SP 3DIGIT SP [ 1*(HTAB / SP / VCHAR / obs-text) ]"""
    if len(line) < 13 or not _version(line[:8]) or line[8] != " " or line[12] != " ":
        return None
    code = line[9:12]
    for c in code:
        if not _digit(c):
            return None
    reason = line[13:]
    for c in reason:
        if not (_vchar_obs(c) or c in " \t"):
            return None
    return (line[:8], (ord(code[0]) - 48) * 100 + (ord(code[1]) - 48) * 10 + ord(code[2]) - 48, reason)


def pre_line(line: str) -> bool:
    return len(line) <= P.L and in_shard(len(line))


@harness(pre=pre_line, quick=dict(L=12, timeout=300, reach_timeout=200), thorough=dict(L=15, timeout=1200, reach_timeout=300),
         nshards=dict(quick=1, thorough=4), reach=["accepted", "bad_version"],
         units=["httputil.parse_request_start_line", "httputil._ABNF.request_line"],
         stubs=[], outside=["lines longer than L code points (Engine B covers the regex for every length)",
                            "request-target is checked as 1*(VCHAR/obs-text), not against RFC 3986"])
def h_request_line(line: str):
    try:
        got = httputil.parse_request_start_line(line)
        exc = None
    except HTTPInputError as e:
        got, exc = None, e
    want = ref_request_line(line)
    if want is not None and want[2][5] == "1":
        reached("accepted")
        assert exc is None, "a well-formed HTTP/1.x request line was rejected"
        assert (got.method, got.path, got.version) == want, "parts differ from the grammar's"
    else:
        if want is not None:
            reached("bad_version")
        assert exc is not None, "a malformed request line was accepted"


@harness(pre=pre_line, quick=dict(L=14, timeout=300, reach_timeout=200), thorough=dict(L=16, timeout=1200, reach_timeout=300),
         nshards=dict(quick=2, thorough=4), reach=["accepted", "with_reason"],
         units=["httputil.parse_response_start_line", "httputil._ABNF.status_line"],
         stubs=[], outside=["lines longer than L code points (Engine B covers the regex for every length)"])
def h_status_line(line: str):
    try:
        got = httputil.parse_response_start_line(line)
        exc = None
    except HTTPInputError as e:
        got, exc = None, e
    want = ref_status_line(line)
    if want is not None and want[0][5] == "1":
        reached("accepted")
        assert exc is None, "a well-formed HTTP/1.x status line was rejected"
        assert got.version == want[0] and got.code == want[1], "version/code differ"
        if want[2]:
            reached("with_reason")
            assert got.reason == want[2]
        else:
            assert not got.reason
    else:
        assert exc is not None, "a malformed status line was accepted"


def pre_total(f: int, s: str) -> bool:
    return 0 <= f <= 3 and len(s) <= (P.L0 if f == 0 else P.L) and in_shard(f)


@harness(pre=pre_total, quick=dict(L=3, L0=2, timeout=150, reach_timeout=120), thorough=dict(L=5, L0=4, timeout=1200, reach_timeout=200),
         nshards=4, reach=["quoted_cookie", "with_port", "param"],
         units=["httputil._parse_header", "httputil._parseparam", "httputil.parse_cookie",
                "httputil._unquote_cookie", "httputil.split_host_and_port"],
         stubs=[], outside=["inputs longer than L code points (e.g. ports of more than 4300 digits, where "
                            "int() raises ValueError)"])
def h_total(f: int, s: str):
    """totality: none of the four parsers raises, and basic shape of the results"""
    if f == 0:
        key, pd = httputil._parse_header(s)
        assert isinstance(key, str) and isinstance(pd, dict)
        if len(pd) > 0:
            reached("param")
    elif f == 1:
        d = httputil.parse_cookie(s)
        assert isinstance(d, dict)
    elif f == 2:
        r = httputil._unquote_cookie(s)
        assert isinstance(r, str)
        if len(s) >= 2 and s[0] == '"' and s[-1] == '"':
            reached("quoted_cookie")
            assert len(r) <= len(s) - 2
        else:
            assert r == s
    else:
        host, port = httputil.split_host_and_port(s)
        if port is None:
            assert host == s
        else:
            reached("with_port")
            assert port >= 0 and s.startswith(host + ":")


def _is_token(s):
    if len(s) == 0:
        return False
    for c in s:
        if not _tchar(c):
            return False
    return True


def pre_rt(kb: bool, params: List[Tuple[str, str]]) -> bool:
    if not (len(params) <= P.NP):
        return False
    for p, v in params:
        if not (len(p) <= P.L and len(v) <= P.L):
            return False
    return in_shard(len(params))


@harness(pre=pre_rt, quick=dict(L=1, NP=1, timeout=200), thorough=dict(L=2, NP=2, timeout=1200),
         nshards=dict(quick=2, thorough=3), reach=["roundtrip"],
         units=["httputil._encode_header", "httputil._parse_header", "httputil._parseparam"],
         stubs=[], outside=["parameter names containing '*' (RFC 2231 extended-parameter syntax, decoded on "
                            "purpose)", "non-token (quoted) values: _encode_header does not quote",
                            "tokens longer than L characters, more than NP parameters", "main value from a pool of two tokens"])
def h_param_roundtrip(kb: bool, params: List[Tuple[str, str]]):
    key = "permessage-deflate" if kb else "k"
    pd = {}
    for p, v in params:
        if not (_is_token(p) and _is_token(v)) or "*" in p:
            return
        if p.lower() in pd:
            return
        pd[p.lower()] = v
    enc = httputil._encode_header(key, {p: v for p, v in params})
    k2, pd2 = httputil._parse_header(enc)
    reached("roundtrip")
    assert k2 == key, "main value changed in the round trip"
    assert pd2 == pd, "token parameters changed in the round trip"


def pre_s(s: str) -> bool:
    return len(s) <= P.L


@harness(pre=pre_s, quick=dict(L=2, timeout=150), thorough=dict(L=3, timeout=1200),
         nshards=1, reach=["escaped_something"],
         units=["util.re_unescape", "util._re_unescape_replacement"],
         stubs=["re.escape is replaced by a pure-Python equivalent of CPython's table (backslash before "
                "every character of re._special_chars_map), checked against re.escape on concrete strings "
                "at import, because str.translate realises symbolic strings"],
         outside=["strings longer than L code points"])
def h_re_unescape(s: str):
    e = _py_escape(s)
    if len(e) != len(s):
        reached("escaped_something")
    assert util.re_unescape(e) == s, "re_unescape(re.escape(s)) != s"


def _is_special(c):
    o = ord(c)
    return (9 <= o <= 13 or o == 32 or o == 35 or o == 36 or o == 38 or 40 <= o <= 43 or o == 45 or
            o == 46 or o == 63 or 91 <= o <= 94 or 123 <= o <= 126)


def _py_escape(s):
    out = ""
    for c in s:
        out += ("\\" + c) if _is_special(c) else c
    return out


for _o in range(0x250):
    assert _py_escape(chr(_o)) == re.escape(chr(_o)), "pure-Python re.escape shim differs at %d" % _o


for _s in ["a.b", "x*y\\z", " \t\n", "é-[]", "", "&~#"]:
    assert _py_escape(_s) == re.escape(_s), "pure-Python re.escape shim differs from re.escape"


def pre_ip(s: str) -> bool:
    return len(s) <= P.L


@harness(pre=pre_ip, quick=dict(L=3, timeout=100), thorough=dict(L=5, timeout=600), nshards=1,
         reach=["nul_rejected", "resolver_asked"],
         units=["netutil.is_valid_ip"],
         stubs=["socket.getaddrinfo replaced by a recorder that answers 'not an address' (EAI_NONAME): only "
                "the pure-Python guard of is_valid_ip is decided here"],
         outside=["which strings libc's getaddrinfo(AI_NUMERICHOST) accepts (plain IPv4/IPv6 acceptance, host "
                  "name rejection) - C code, not reachable by the solver"])
def h_valid_ip_guard(s: str):
    import socket
    calls = []

    def fake(host, *a, **k):
        calls.append(host)
        raise socket.gaierror(socket.EAI_NONAME, "stub")
    real = socket.getaddrinfo
    netutil.socket.getaddrinfo = fake
    try:
        r = netutil.is_valid_ip(s)
    finally:
        netutil.socket.getaddrinfo = real
    if s == "" or "\x00" in s:
        reached("nul_rejected")
        assert r is False and not calls, "empty / NUL-containing string must be rejected before the resolver"
    else:
        reached("resolver_asked")
        assert calls == [s] and r is False


# ------------------------------------------------------------------------------ Engine B extras
def x_startlines(tier, seed):
    import z3
    from engines import rxsmt as rx
    A = httputil._ABNF
    S = rx.harvest(300)
    pats = [(A.request_line, "fullmatch"), (A.status_line, "fullmatch"), (httputil._netloc_re, "match"),
            (util._re_unescape_pattern, "fullmatch")]
    vals = [rx.validate(p, S, mode=m) for p, m in pats]
    if not all(v["ok"] for v in vals):
        return dict(status="ERROR", message="translator validation failed: %r" % vals)
    # independent grammars, RFC 9112 / 9110 / 5234
    digit = rx.chars("0123456789")
    tchar = rx.chars(TCHARS)
    vo = rx.chars([(0x21, 0x7E), (0x80, 0xFF)])
    sp = rx.lit(" ")
    version = z3.Concat(rx.lit("HTTP/"), digit, rx.lit("."), digit)
    req = z3.Concat(z3.Plus(tchar), sp, z3.Plus(vo), sp, version)
    reason = z3.Plus(rx.chars([(0x21, 0x7E), (0x80, 0xFF), (0x20, 0x20), (0x09, 0x09)]))
    sta = z3.Concat(version, sp, digit, digit, digit, sp, z3.Option(reason))
    # strict RFC 3986 origin-form ("/" segments of pchar, optional query) and asterisk-form
    alnum = "abcdefghijklmnopqrstuvwxyzABCDEFGHIJKLMNOPQRSTUVWXYZ0123456789"
    hexd = rx.chars("0123456789abcdefABCDEF")
    pchar = z3.Union(rx.chars(alnum + "-._~" + "!$&'()*+,;=" + ":@"), z3.Concat(rx.lit("%"), hexd, hexd))
    origin = z3.Concat(z3.Plus(z3.Concat(rx.lit("/"), z3.Star(pchar))),
                       z3.Option(z3.Concat(rx.lit("?"), z3.Star(z3.Union(pchar, rx.chars("/?"))))))
    strict_req = z3.Concat(z3.Plus(tchar), sp, z3.Union(origin, rx.lit("*")), sp, version)
    nd = rx._set_re(rx._category("d", True))
    netloc = z3.Concat(z3.Plus(rx._set_re(rx._compl([(10, 10)], rx.MAXCP))), rx.lit(":"), z3.Plus(nd),
                       z3.Option(rx.lit("\n")))
    R_req, R_sta = rx.to_z3(A.request_line), rx.to_z3(A.status_line)
    R_net = rx.to_z3(httputil._netloc_re, mode="match")
    R_une = rx.to_z3(util._re_unescape_pattern)

    def real(p, mode):
        return lambda w: getattr(p, mode)(w) is not None
    checks = [
        ("request_line subset of RFC 9112 request-line", lambda: rx.included(R_req, req),
         lambda w: real(A.request_line, "fullmatch")(w) and ref_request_line(w) is None),
        ("RFC 9112 request-line subset of request_line", lambda: rx.included(req, R_req),
         lambda w: not real(A.request_line, "fullmatch")(w) and ref_request_line(w) is not None),
        ("strict origin-form/asterisk request lines accepted", lambda: rx.included(strict_req, R_req),
         lambda w: not real(A.request_line, "fullmatch")(w)),
        ("status_line subset of RFC 9112 status-line", lambda: rx.included(R_sta, sta),
         lambda w: real(A.status_line, "fullmatch")(w) and ref_status_line(w) is None),
        ("RFC 9112 status-line subset of status_line", lambda: rx.included(sta, R_sta),
         lambda w: not real(A.status_line, "fullmatch")(w) and ref_status_line(w) is not None),
        ("request_line excludes CR LF NUL", lambda: rx.excludes_chars(R_req, "\r\n\0"),
         lambda w: real(A.request_line, "fullmatch")(w)),
        ("status_line excludes CR LF NUL", lambda: rx.excludes_chars(R_sta, "\r\n\0"),
         lambda w: real(A.status_line, "fullmatch")(w)),
        ("_netloc_re.match == 1*(not LF) ':' 1*Nd [LF]", lambda: rx.equivalent(R_net, netloc),
         lambda w: True),
        ("_re_unescape_pattern == backslash + any character (DOTALL)",
         lambda: rx.equivalent(R_une, z3.Concat(rx.lit("\\"), z3.AllChar(rx._RS))), lambda w: True),
    ]
    obl = dis = q = 0
    secs, samples, viol, status = 0.0, [], [], "PROVED"
    for title, run, confirm in checks:
        obl += 1
        verdict, w, t = run()
        q += 1
        secs += t
        samples.append(dict(obligation=title, verdict=verdict, witness=w, solver_s=t))
        if verdict == "unsat":
            dis += 1
        elif verdict == "sat" and confirm(w):
            status = "VIOLATION"
            viol.append(dict(detail="%s: fails for the real regex on the witness" % title, input=repr(w),
                             finding_key="C43-" + title.split()[0]))
        elif status == "PROVED":
            status = "BOUNDED"
    return dict(status=status, obligations=obl, discharged=dis, queries=q, solver_s=round(secs, 2),
                samples=samples + [dict(validate=v) for v in vals], violations=viol,
                trusted_base=["z3 %s seq/re theory" % z3.get_version_string(),
                              "engines/rxsmt.py translator (validated on this run against the re module on %d "
                              "strings)" % sum(v["checked"] for v in vals), "re._parser.parse (CPython)"],
                assumptions=["code points above 0x2FFFF are outside z3's character sort",
                             "reference grammars written from RFC 9112 3/4, RFC 9110 5.6.2, RFC 3986 3.3/3.4",
                             "int() accepts every string of Unicode Nd digits up to the 4300-digit limit"])


EXTRAS = {"x_startlines": dict(fn=x_startlines, wall=400)}
TECHNIQUE = "z3 regular-language obligations on the live patterns + CrossHair symbolic execution of the real parsers"
