"""C43 - HTTP utility parsers and formatters are total and mutually consistent.

Engine B (unbounded length, z3 regex obligations on the LIVE patterns):
  _ABNF.request_line / status_line == independently written RFC 9112 grammars (both inclusions),
  strict RFC 3986 origin-form/asterisk targets are accepted, _netloc_re == reference grammar,
  _re_unescape_pattern == "backslash + any one character".
Engine A (CrossHair, bounded, any code point): parse_request_start_line / parse_response_start_line
accept exactly the grammar (HTTP/1.x) and raise only HTTPInputError; url_concat keeps existing pairs (blank values
included) and the fragment and appends the arguments; HTTP timestamps round-trip (pooled search); _parse_header, parse_cookie,
_unquote_cookie, split_host_and_port never raise; token parameters round-trip through
_encode_header/_parse_header; re_unescape inverts re.escape; is_valid_ip's empty/NUL guard.
"""
import re
from typing import List, Tuple

from vp.api import P, harness, in_shard, reached

from tornado import httputil, netutil, util
from tornado.httputil import HTTPInputError

TCHARS = "!#$%&'*+-.^_`|~0123456789abcdefghijklmnopqrstuvwxyzABCDEFGHIJKLMNOPQRSTUVWXYZ"


# ----------------------------------------------------------------- reference grammars (RFC 9112)
def _tchar(c):
    o = ord(c)
    return (48 <= o <= 57 or 65 <= o <= 90 or 94 <= o <= 122 or o == 33 or 35 <= o <= 39 or
            o == 42 or o == 43 or o == 45 or o == 46 or o == 124 or o == 126)


for _o in range(0x250):
    assert _tchar(chr(_o)) == (chr(_o) in TCHARS)


def _vchar_obs(c):
    o = ord(c)
    return 0x21 <= o <= 0x7E or 0x80 <= o <= 0xFF


def _digit(c):
    return 48 <= ord(c) <= 57


def _version(s):
    return len(s) == 8 and s[:5] == "HTTP/" and _digit(s[5]) and s[6] == "." and _digit(s[7])


def ref_request_line(line: str):
    """RFC 9112 3: method SP request-target SP HTTP-version; request-target = 1*(VCHAR / obs-text)
    (tornado's documented relaxation of the RFC 3986 forms).  Neither method nor target contains SP,
    so the first SP ends the method and the last SP precedes the version.  Returns parts or None."""
    n = len(line)
    if n < 12:
        return None
    v = line[n - 8:]
    if line[n - 9] != " " or not _version(v):
        return None
    head = line[:n - 9]
    i = head.find(" ")
    if i <= 0 or i == len(head) - 1:
        return None
    m, t = head[:i], head[i + 1:]
    for c in m:
        if not _tchar(c):
            return None
    for c in t:
        if not _vchar_obs(c):
            return None
    return (m, t, v)


def ref_status_line(line: str):
    """RFC 9112 4: HTTP-version SP 3DIGIT SP [ 1*(HTAB / SP / VCHAR / obs-text) ]"""
    if len(line) < 13 or not _version(line[:8]) or line[8] != " " or line[12] != " ":
        return None
    code = line[9:12]
    for c in code:
        if not _digit(c):
            return None
    reason = line[13:]
    for c in reason:
        if not (_vchar_obs(c) or c in " \t"):
            return None
    return (line[:8], (ord(code[0]) - 48) * 100 + (ord(code[1]) - 48) * 10 + ord(code[2]) - 48, reason)


def pre_line(line: str) -> bool:
    return len(line) <= P.L and in_shard(len(line))


def pre_reqline(line: str) -> bool:
    n = len(line)
    if n > P.L:
        return False
    # lines shorter than 12 can only be rejected (cheap); from 12 on, split by the major-version character
    # (tornado formats a refused version with "%r", which realises it: ~100 versions x method/target classes)
    return in_shard(n % 4 if n < 12 else 4 + ord(line[n - 3]) % 4)


@harness(pre=pre_reqline, quick=dict(L=12, timeout=300, reach_timeout=200), thorough=dict(L=14, timeout=1500, reach_timeout=300),
         nshards=8, reach=["accepted", "bad_version"],
         units=["httputil.parse_request_start_line", "httputil._ABNF.request_line"],
         stubs=[], outside=["lines longer than L code points (Engine B covers the regex for every length)",
                            "request-target is checked as 1*(VCHAR/obs-text), not against RFC 3986"])
def h_request_line(line: str):
    try:
        got = httputil.parse_request_start_line(line)
        exc = None
    except HTTPInputError as e:
        got, exc = None, e
    want = ref_request_line(line)
    if want is not None and want[2][5] == "1":
        reached("accepted")
        assert exc is None, "a well-formed HTTP/1.x request line was rejected"
        assert (got.method, got.path, got.version) == want, "parts differ from the grammar's"
    else:
        if want is not None:
            reached("bad_version")
        assert exc is not None, "a malformed request line was accepted"


@harness(pre=pre_line, quick=dict(L=14, timeout=300, reach_timeout=200), thorough=dict(L=16, timeout=1200, reach_timeout=300),
         nshards=dict(quick=2, thorough=4), reach=["accepted", "with_reason"],
         units=["httputil.parse_response_start_line", "httputil._ABNF.status_line"],
         stubs=[], outside=["lines longer than L code points (Engine B covers the regex for every length)"])
def h_status_line(line: str):
    try:
        got = httputil.parse_response_start_line(line)
        exc = None
    except HTTPInputError as e:
        got, exc = None, e
    want = ref_status_line(line)
    if want is not None and want[0][5] == "1":
        reached("accepted")
        assert exc is None, "a well-formed HTTP/1.x status line was rejected"
        assert got.version == want[0] and got.code == want[1], "version/code differ"
        if want[2]:
            reached("with_reason")
            assert got.reason == want[2]
        else:
            assert not got.reason
    else:
        assert exc is not None, "a malformed status line was accepted"


def pre_total(f: int, s: str) -> bool:
    return (f == 0 or f == 2 or f == 3) and len(s) <= (P.L0 if f == 0 else P.L) and in_shard(f)


@harness(pre=pre_total, quick=dict(L=3, L0=2, timeout=300, reach_timeout=120), thorough=dict(L=4, L0=4, timeout=1500, reach_timeout=200),
         nshards=4, reach=["quoted_cookie", "with_port", "param"],
         units=["httputil._parse_header", "httputil._parseparam",
                "httputil._unquote_cookie", "httputil.split_host_and_port"],
         stubs=[], outside=["inputs longer than L code points (e.g. ports of more than 4300 digits, where "
                            "int() raises ValueError)"])
def h_total(f: int, s: str):
    """totality: none of the parsers raises, and basic shape of the results (shard 1 is empty: parse_cookie
    stores symbolic strings as dict keys, which realises them - it has its own pooled harness h_cookie)"""
    if f == 0:
        key, pd = httputil._parse_header(s)
        assert isinstance(key, str) and isinstance(pd, dict)
        if len(pd) > 0:
            reached("param")
    elif f == 1:
        d = httputil.parse_cookie(s)
        assert isinstance(d, dict)
    elif f == 2:
        r = httputil._unquote_cookie(s)
        assert isinstance(r, str)
        if len(s) >= 2 and s[0] == '"' and s[-1] == '"':
            reached("quoted_cookie")
            assert len(r) <= len(s) - 2
        else:
            assert r == s
    else:
        host, port = httputil.split_host_and_port(s)
        if port is None:
            assert host == s
        else:
            reached("with_port")
            assert port >= 0 and s.startswith(host + ":")


COOKIE_ALPH = [";", "=", " ", "\t", '"', "\\", "a", "0", "7", "\xe9", "\n", "\0", "\u3000", ",", "\x85"]


def pre_cookie(cs: List[int]) -> bool:
    if len(cs) > P.L:
        return False
    for c in cs:
        if not 0 <= c < len(COOKIE_ALPH):
            return False
    return in_shard(cs[0] if len(cs) > 0 else 0)


@harness(pre=pre_cookie, quick=dict(L=3, timeout=200), thorough=dict(L=4, timeout=1200), nshards=dict(quick=3, thorough=15),
         reach=["quoted", "named"],
         units=["httputil.parse_cookie", "httputil._unquote_cookie", "httputil._unquote_replace"],
         stubs=["the header is built from symbolic indices into %d class representatives (separators, ASCII and Unicode "
                "white space, quote, backslash, octal digits, NUL, non-ASCII): parse_cookie uses the pieces as dict keys, "
                "which realises symbolic strings" % len(COOKIE_ALPH)],
         outside=["cookie headers longer than L characters or with other characters"])
def h_cookie(cs: List[int]):
    s = "".join([COOKIE_ALPH[c] for c in cs])
    d = httputil.parse_cookie(s)
    assert isinstance(d, dict)
    for k, v in d.items():
        assert isinstance(k, str) and isinstance(v, str)
        assert k == k.strip(), "cookie name keeps surrounding white space: %r" % k
        if k:
            reached("named")
    if len(s) >= 2 and s[0] == '"' and s[-1] == '"' and ";" not in s and "=" not in s:
        reached("quoted")
        assert list(d) == [""] and len(d[""]) <= len(s) - 2


def _is_token(s):
    if len(s) == 0:
        return False
    for c in s:
        if not _tchar(c):
            return False
    return True


# Tokens chosen by symbolic index: every tchar punctuation on its own, both letter cases, digits, and a few
# multi-character tokens.  (Symbolic str tokens push email.utils.decode_params' regexes into ~2 s/path.)
TOKENS = ["a", "Z", "0", "-", "_", ".", "!", "#", "$", "%", "&", "'", "+", "^", "`", "|", "~", "aB", "x-y",
          "%41", "a'b", "utf-8", "15", "*"]


def pre_rt(kb: bool, params: List[Tuple[int, int]]) -> bool:
    if not (len(params) <= P.NP):
        return False
    nt = P.NT if len(params) <= 1 else P.NT2
    for p, v in params:
        if not (0 <= p < nt - 1 and 0 <= v < nt):      # the last token ("*") is never a name
            return False
    return in_shard(len(params))


@harness(pre=pre_rt, quick=dict(NP=2, NT=len(TOKENS), NT2=5, timeout=200), thorough=dict(NP=2, NT=len(TOKENS), NT2=10, timeout=1200),
         nshards=3, reach=["roundtrip", "two_params"],
         units=["httputil._encode_header", "httputil._parse_header", "httputil._parseparam"],
         stubs=["parameter names and values are chosen by symbolic index from a pool of %d tokens (each tchar "
                "punctuation, both cases, digits, multi-character tokens)" % len(TOKENS)],
         outside=["parameter names containing '*' (RFC 2231 extended-parameter syntax, decoded on purpose)",
                  "non-token (quoted) values: _encode_header does not quote", "tokens outside the pool",
                  "more than 2 parameters", "main value from a pool of two tokens"])
def h_param_roundtrip(kb: bool, params: List[Tuple[int, int]]):
    key = "permessage-deflate" if kb else "k"
    pd, src = {}, {}
    for p, v in params:
        name, val = TOKENS[p], TOKENS[v]
        if name.lower() in pd:
            return
        pd[name.lower()] = val
        src[name] = val
    enc = httputil._encode_header(key, src)
    k2, pd2 = httputil._parse_header(enc)
    reached("roundtrip")
    if len(params) == 2:
        reached("two_params")
    assert k2 == key, "main value changed in the round trip"
    assert pd2 == pd, "token parameters changed in the round trip: %r -> %r" % (enc, pd2)


# ----------------------------------------------------------------- url_concat
U_BASES = ["http://h/p", "/p;x", "http://u@h:8"]
U_EX = [("a", "1"), ("flag", "9"), ("b", "x+y"), ("%26", "%3D"), ("c", "%C3%A9"), ("", "v"), ("d", "%25"), ("e", "\xe9")]
U_ARGS = [("c", "d"), ("", ""), ("k&", "v="), ("p+", "q r"), ("%", "\xe9"), ("x", ""), ("h#", "/?"), ("a", "1")]
U_FRAG = "f%20g"


def ref_unquote(s):
    """application/x-www-form-urlencoded decoding written from the WHATWG URL spec: '+' is a space, %XX is a byte,
    everything else is itself (as UTF-8); the bytes are decoded as UTF-8."""
    out = bytearray()
    i = 0
    hexd = "0123456789abcdefABCDEF"
    while i < len(s):
        c = s[i]
        if c == "+":
            out += b" "
        elif c == "%" and i + 2 < len(s) and s[i + 1] in hexd and s[i + 2] in hexd:
            out.append(int(s[i + 1:i + 3], 16))
            i += 2
        else:
            out += c.encode("utf-8")
        i += 1
    return out.decode("utf-8", "replace")


def ref_pairs(query):
    out = []
    for piece in query.split("&"):
        if piece == "":
            continue
        if "=" in piece:
            n, v = piece.split("=", 1)
        else:
            n, v = piece, ""          # a name without '=' is a pair with a blank value
        out.append((ref_unquote(n), ref_unquote(v)))
    return out


def ref_split_url(url):
    """(part before '?', query, fragment or None) by plain text splitting (RFC 3986 3.4 / 3.5)"""
    frag = None
    if "#" in url:
        url, frag = url.split("#", 1)
    query = ""
    if "?" in url:
        url, query = url.split("?", 1)
    return url, query, frag


def pre_url(b: int, fr: bool, ex: List[int], ei: int, ak: int, na: int, ai: int) -> bool:
    if not (0 <= b < P.NB and len(ex) <= 2 and 0 <= ei < P.NE and 0 <= ak <= 3 and 0 <= na <= 2 and 0 <= ai < P.NA):
        return False
    for k in ex:
        if not 0 <= k <= 2:
            return False
    if len(ex) == 0 and ei != 0:
        return False
    if (ak == 0 or na == 0) and ai != 0:
        return False
    if ak == 0 and na != 0:
        return False
    return in_shard(ak)


@harness(pre=pre_url, quick=dict(NB=1, NE=4, NA=4, timeout=200, reach_timeout=90),
         thorough=dict(NB=3, NE=8, NA=8, timeout=1200, reach_timeout=120),
         nshards=4, reach=["blank_kept", "fragment", "dict_args", "empty_dict", "none_args"],
         units=["httputil.url_concat"],
         stubs=["existing pairs / argument pairs are taken from pools (incl. empty string, '&', '=', '+', space, '%', '#', "
                "percent-escapes, non-ASCII) starting at a symbolic index; number of existing pairs (0..2), their form "
                "(name=value / name= / bare name), argument container (None/dict/list/tuple), number of arguments (0..2), "
                "fragment presence and base URL are solver-chosen (urlencode/quote realise symbolic strings)"],
         outside=["pairs outside the pools, more than 2 existing pairs or arguments", "empty '&&' pieces in the query",
                  "an empty fragment ('#' alone)", "byte-exact preservation of the existing query text (url_concat "
                  "re-encodes it; the decoded pairs are compared)"])
def h_url_concat(b: int, fr: bool, ex: List[int], ei: int, ak: int, na: int, ai: int):
    pieces = []
    for j in range(len(ex)):
        n, v = U_EX[(ei + j) % len(U_EX)]
        pieces.append(n + "=" + v if ex[j] == 0 else n + "=" if ex[j] == 1 else n)
    url = U_BASES[b]
    if pieces:
        url += "?" + "&".join(pieces)
    if fr:
        url += "#" + U_FRAG
    pairs = [U_ARGS[(ai + j) % len(U_ARGS)] for j in range(na)]
    args = None if ak == 0 else dict(pairs) if ak == 1 else list(pairs) if ak == 2 else tuple(pairs)
    got = httputil.url_concat(url, args)
    if args is None:
        reached("none_args")
        assert got == url, "url_concat(url, None) must return the url unchanged"
        return
    head0, q0, f0 = ref_split_url(url)
    head1, q1, f1 = ref_split_url(got)
    want = ref_pairs(q0) + pairs
    if ak == 1:
        reached("dict_args")
        if na == 0:
            reached("empty_dict")
    if fr:
        reached("fragment")
    if any(v == "" for _n, v in ref_pairs(q0)):
        reached("blank_kept")
    assert head1 == head0, "scheme/authority/path changed: %r -> %r" % (url, got)
    assert f1 == f0, "fragment not preserved: %r -> %r" % (url, got)
    assert ref_pairs(q1) == want, "query pairs of %r are %r, expected %r" % (got, ref_pairs(q1), want)


# ----------------------------------------------------------------- HTTP timestamps
T_BOUNDS = [0, 1, 59, 60, 3599, 86399, 86400, 951782400, 951868799, 1078012800, 2 ** 31 - 1, 2 ** 31, 2 ** 32 - 1,
            4107542400]
_IMF = re.compile(r"(Mon|Tue|Wed|Thu|Fri|Sat|Sun), [0-3][0-9] (Jan|Feb|Mar|Apr|May|Jun|Jul|Aug|Sep|Oct|Nov|Dec) "
                  r"[0-9]{4} [0-2][0-9]:[0-5][0-9]:[0-6][0-9] GMT")


def pre_ts(bi: int, d: int, kind: int) -> bool:
    return 0 <= bi < len(T_BOUNDS) and -2 <= d <= 2 and 0 <= kind <= 4 and in_shard(kind)


@harness(pre=pre_ts, quick=dict(timeout=150), thorough=dict(timeout=300), nshards=5, reach=["aware_datetime", "roundtrip"],
         units=["httputil.format_timestamp"],
         stubs=["POOLED SEARCH, not exhaustive over integers: seconds = one of %d boundary values (epoch, minute/hour/day "
                "ends, leap days 2000/2004, 2100-03-01, 2**31-1, 2**31, 2**32-1) + a delta in -2..2 made concrete by "
                "branching, because time.gmtime / datetime (C) realise symbolic integers" % len(T_BOUNDS),
                "parser = email.utils.parsedate_to_datetime (the one tornado.web uses for If-Modified-Since)"],
         outside=["other instants", "fractional seconds (HTTP dates have none)", "negative timestamps"])
def h_timestamp(bi: int, d: int, kind: int):
    import calendar
    import datetime
    import email.utils
    import time
    cd = -2 if d == -2 else -1 if d == -1 else 0 if d == 0 else 1 if d == 1 else 2
    base = 0
    for i in range(len(T_BOUNDS)):      # branch so that the instant is concrete on every path (no symbolic floats)
        if bi == i:
            base = T_BOUNDS[i]
    ts = base + cd
    if ts < 0:
        return
    if kind == 0:
        arg = ts
    elif kind == 1:
        arg = float(ts)
    elif kind == 2:
        arg = time.gmtime(ts)
    elif kind == 3:
        arg = datetime.datetime(*time.gmtime(ts)[:6])                            # naive = UTC
    else:
        reached("aware_datetime")

        class _IST(datetime.tzinfo):                                             # UTC+05:30, no DST
            def utcoffset(self, dt):
                return datetime.timedelta(hours=5, minutes=30)

            def dst(self, dt):
                return datetime.timedelta(0)

            def tzname(self, dt):
                return "IST"
        arg = datetime.datetime(*time.gmtime(ts + 19800)[:6], tzinfo=_IST())
    s = httputil.format_timestamp(arg)
    assert _IMF.fullmatch(s), "not an IMF-fixdate: %r" % s
    back = email.utils.parsedate_to_datetime(s)
    reached("roundtrip")
    assert calendar.timegm(back.utctimetuple()) == ts, "timestamp %d formats to %r which parses to another instant" % (ts, s)


def pre_s(s: str) -> bool:
    return len(s) <= P.L


@harness(pre=pre_s, quick=dict(L=2, timeout=150), thorough=dict(L=3, timeout=1200),
         nshards=1, reach=["escaped_something"],
         units=["util.re_unescape", "util._re_unescape_replacement"],
         stubs=["re.escape is replaced by a pure-Python equivalent of CPython's table (backslash before "
                "every character of re._special_chars_map), checked against re.escape on concrete strings "
                "at import, because str.translate realises symbolic strings"],
         outside=["strings longer than L code points"])
def h_re_unescape(s: str):
    e = _py_escape(s)
    if len(e) != len(s):
        reached("escaped_something")
    assert util.re_unescape(e) == s, "re_unescape(re.escape(s)) != s"


def _is_special(c):
    o = ord(c)
    return (9 <= o <= 13 or o == 32 or o == 35 or o == 36 or o == 38 or 40 <= o <= 43 or o == 45 or
            o == 46 or o == 63 or 91 <= o <= 94 or 123 <= o <= 126)


def _py_escape(s):
    out = ""
    for c in s:
        out += ("\\" + c) if _is_special(c) else c
    return out


for _o in range(0x250):
    assert _py_escape(chr(_o)) == re.escape(chr(_o)), "pure-Python re.escape shim differs at %d" % _o


for _s in ["a.b", "x*y\\z", " \t\n", "é-[]", "", "&~#"]:
    assert _py_escape(_s) == re.escape(_s), "pure-Python re.escape shim differs from re.escape"


def pre_ip(s: str) -> bool:
    return len(s) <= P.L


@harness(pre=pre_ip, quick=dict(L=3, timeout=100), thorough=dict(L=5, timeout=600), nshards=1,
         reach=["nul_rejected", "resolver_asked"],
         units=["netutil.is_valid_ip"],
         stubs=["socket.getaddrinfo replaced by a recorder that answers 'not an address' (EAI_NONAME): only "
                "the pure-Python guard of is_valid_ip is decided here"],
         outside=["which strings libc's getaddrinfo(AI_NUMERICHOST) accepts (plain IPv4/IPv6 acceptance, host "
                  "name rejection) - C code, not reachable by the solver"])
def h_valid_ip_guard(s: str):
    import socket
    calls = []

    def fake(host, *a, **k):
        calls.append(host)
        raise socket.gaierror(socket.EAI_NONAME, "stub")
    real = socket.getaddrinfo
    netutil.socket.getaddrinfo = fake
    try:
        r = netutil.is_valid_ip(s)
    finally:
        netutil.socket.getaddrinfo = real
    if s == "" or "\x00" in s:
        reached("nul_rejected")
        assert r is False and not calls, "empty / NUL-containing string must be rejected before the resolver"
    else:
        reached("resolver_asked")
        assert calls == [s] and r is False


# ------------------------------------------------------------------------------ Engine B extras
def x_startlines(tier, seed):
    import z3
    from engines import rxsmt as rx
    A = httputil._ABNF
    S = rx.harvest(300)
    pats = [(A.request_line, "fullmatch"), (A.status_line, "fullmatch"), (httputil._netloc_re, "match"),
            (util._re_unescape_pattern, "fullmatch")]
    vals = [rx.validate(p, S, mode=m) for p, m in pats]
    if not all(v["ok"] for v in vals):
        return dict(status="ERROR", message="translator validation failed: %r" % vals)
    # independent grammars, RFC 9112 / 9110 / 5234
    digit = rx.chars("0123456789")
    tchar = rx.chars(TCHARS)
    vo = rx.chars([(0x21, 0x7E), (0x80, 0xFF)])
    sp = rx.lit(" ")
    version = z3.Concat(rx.lit("HTTP/"), digit, rx.lit("."), digit)
    req = z3.Concat(z3.Plus(tchar), sp, z3.Plus(vo), sp, version)
    reason = z3.Plus(rx.chars([(0x21, 0x7E), (0x80, 0xFF), (0x20, 0x20), (0x09, 0x09)]))
    sta = z3.Concat(version, sp, digit, digit, digit, sp, z3.Option(reason))
    # strict RFC 3986 origin-form ("/" segments of pchar, optional query) and asterisk-form
    alnum = "abcdefghijklmnopqrstuvwxyzABCDEFGHIJKLMNOPQRSTUVWXYZ0123456789"
    hexd = rx.chars("0123456789abcdefABCDEF")
    pchar = z3.Union(rx.chars(alnum + "-._~" + "!$&'()*+,;=" + ":@"), z3.Concat(rx.lit("%"), hexd, hexd))
    origin = z3.Concat(z3.Plus(z3.Concat(rx.lit("/"), z3.Star(pchar))),
                       z3.Option(z3.Concat(rx.lit("?"), z3.Star(z3.Union(pchar, rx.chars("/?"))))))
    strict_req = z3.Concat(z3.Plus(tchar), sp, z3.Union(origin, rx.lit("*")), sp, version)
    nd = rx._set_re(rx._category("d", True))
    netloc = z3.Concat(z3.Plus(rx._set_re(rx._compl([(10, 10)], rx.MAXCP))), rx.lit(":"), z3.Plus(nd),
                       z3.Option(rx.lit("\n")))
    R_req, R_sta = rx.to_z3(A.request_line), rx.to_z3(A.status_line)
    R_net = rx.to_z3(httputil._netloc_re, mode="match")
    R_une = rx.to_z3(util._re_unescape_pattern)

    def real(p, mode):
        return lambda w: getattr(p, mode)(w) is not None
    checks = [
        ("request_line subset of RFC 9112 request-line", lambda: rx.included(R_req, req),
         lambda w: real(A.request_line, "fullmatch")(w) and ref_request_line(w) is None),
        ("RFC 9112 request-line subset of request_line", lambda: rx.included(req, R_req),
         lambda w: not real(A.request_line, "fullmatch")(w) and ref_request_line(w) is not None),
        ("strict origin-form/asterisk request lines accepted", lambda: rx.included(strict_req, R_req),
         lambda w: not real(A.request_line, "fullmatch")(w)),
        ("status_line subset of RFC 9112 status-line", lambda: rx.included(R_sta, sta),
         lambda w: real(A.status_line, "fullmatch")(w) and ref_status_line(w) is None),
        ("RFC 9112 status-line subset of status_line", lambda: rx.included(sta, R_sta),
         lambda w: not real(A.status_line, "fullmatch")(w) and ref_status_line(w) is not None),
        ("request_line excludes CR LF NUL", lambda: rx.excludes_chars(R_req, "\r\n\0"),
         lambda w: real(A.request_line, "fullmatch")(w)),
        ("status_line excludes CR LF NUL", lambda: rx.excludes_chars(R_sta, "\r\n\0"),
         lambda w: real(A.status_line, "fullmatch")(w)),
        ("_netloc_re.match == 1*(not LF) ':' 1*Nd [LF]", lambda: rx.equivalent(R_net, netloc),
         lambda w: True),
        ("_re_unescape_pattern == backslash + any character (DOTALL)",
         lambda: rx.equivalent(R_une, z3.Concat(rx.lit("\\"), z3.AllChar(rx._RS))), lambda w: True),
    ]
    obl = dis = q = 0
    secs, samples, viol, status = 0.0, [], [], "PROVED"
    for title, run, confirm in checks:
        obl += 1
        verdict, w, t = run()
        q += 1
        secs += t
        samples.append(dict(obligation=title, verdict=verdict, witness=w, solver_s=t))
        if verdict == "unsat":
            dis += 1
        elif verdict == "sat" and confirm(w):
            status = "VIOLATION"
            viol.append(dict(detail="%s: fails for the real regex on the witness" % title, input=repr(w),
                             finding_key="C43-" + title.split()[0]))
        elif status == "PROVED":
            status = "BOUNDED"
    return dict(status=status, obligations=obl, discharged=dis, queries=q, solver_s=round(secs, 2),
                samples=samples + [dict(validate=v) for v in vals], violations=viol,
                trusted_base=["z3 %s seq/re theory" % z3.get_version_string(),
                              "engines/rxsmt.py translator (validated on this run against the re module on %d "
                              "strings)" % sum(v["checked"] for v in vals), "re._parser.parse (CPython)"],
                assumptions=["code points above 0x2FFFF are outside z3's character sort",
                             "reference grammars written from RFC 9112 3/4, RFC 9110 5.6.2, RFC 3986 3.3/3.4",
                             "int() accepts every string of Unicode Nd digits up to the 4300-digit limit"])


EXTRAS = {"x_startlines": dict(fn=x_startlines, wall=400)}
TECHNIQUE = "z3 regular-language obligations on the live patterns + CrossHair symbolic execution of the real parsers"
