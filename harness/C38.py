"""C38 - IOLoop callbacks and timeouts run once, in order, and survive errors.

Unit: the REAL tornado.platform.asyncio.BaseAsyncIOLoop (add_callback / call_at / remove_timeout) together with
the real IOLoop.add_timeout / call_later / add_future / _run_callback / run_sync, constructed over the fake
asyncio loop of vp/env.py (FakeAio: call_soon FIFO queue, timers fired in (deadline, insertion) order, virtual
integral clock).  IOLoop.time() is time.time(): the module attribute tornado.ioloop.time is replaced by a clock
object reading the same virtual clock (stub).
"""
import asyncio
import datetime
from typing import List, Tuple

from vp.api import P, harness, in_shard, reached
from vp.env import install, FakeAio

from tornado import ioloop
from tornado import log as _tlog
from tornado.platform.asyncio import BaseAsyncIOLoop


class _Log:
    def __init__(self):
        self.errors = []

    def error(self, msg, *args, **kw):
        self.errors.append(msg)

    warning = info = debug = exception = error


class _Clock:
    """stands in for the `time` module inside tornado.ioloop"""

    def __init__(self, v):
        self.v = v

    def time(self):
        return self.v.now

    monotonic = time


class _RunnableAio(FakeAio):
    """FakeAio + run_forever()/stop() (needed by IOLoop.run_sync): run ready callbacks, then jump the virtual
    clock to the next timer, until stop() or nothing is left."""

    def __init__(self, venv):
        super().__init__(venv)
        self._stop = False
        self.deadlock = False
        self.iteration = 0

    def stop(self):
        self._stop = True

    def run_forever(self):
        """asyncio-style iterations (BaseEventLoop._run_once): every timer that is due NOW is appended to the ready
        queue in (deadline, insertion) order; then exactly the handles that were queued at that moment run (what
        they schedule with call_soon waits for the next iteration); with an empty queue the clock jumps to the next
        timer.  stop() takes effect at the end of the iteration."""
        self._stop = False
        v = self.v
        for _ in range(1000):
            self.iteration += 1
            due = [h for h in v.timers if not h.cancelled and h.when <= v.now]
            due.sort(key=lambda h: (h.when, h.seq))
            for h in due:
                v.timers.remove(h)
                v.ready.append(h)
            v.timers = [h for h in v.timers if not h.cancelled]
            if not v.ready:
                if not v.timers:
                    self.deadlock = True
                    return
                nxt = v.timers[0].when
                for h in v.timers:
                    if h.when < nxt:
                        nxt = h.when
                if nxt > v.now:
                    v.now = nxt
                continue
            for _i in range(len(v.ready)):
                h = v.ready.popleft()
                if not h.cancelled:
                    v._call(h)
            if self._stop:
                return

    def close(self):
        pass


class _Patched:
    def __init__(self):
        self.log = _Log()

    def __enter__(self):
        self.env = install().__enter__()
        self.saved = (ioloop.app_log, ioloop.time)
        assert ioloop.app_log is _tlog.app_log and _tlog.app_log.name == "tornado.application"
        ioloop.app_log = self.log
        ioloop.time = _Clock(self.env.v)
        self.aio = _RunnableAio(self.env.v)
        asyncio._set_running_loop(self.aio)
        self.loop = BaseAsyncIOLoop(asyncio_loop=self.aio, make_current=False)
        return self

    def __exit__(self, *exc):
        ioloop.app_log, ioloop.time = self.saved
        try:
            del ioloop.IOLoop._ioloop_for_asyncio[self.aio]
        except KeyError:
            pass
        self.env.__exit__(*exc)
        return False


NK = 9
STUBS = ["fake asyncio loop (vp/env.py FakeAio/VEnv): call_soon = FIFO queue, call_later/call_at timers fired never "
         "early and in (deadline, insertion) order, integral virtual clock - this is the asyncio CONTRACT the bridge "
         "relies on, not the stdlib BaseEventLoop code",
         "tornado.ioloop.time replaced by a clock object reading the same virtual clock (IOLoop.time() = time.time())",
         "tornado.ioloop.app_log replaced by a recorder (it is checked to be the 'tornado.application' logger)",
         "deadline offsets a in 0..2 and clock advances 0..2 are concrete per path (chosen by branching)"]


def pre_prog(ops: List[Tuple[int, int]]) -> bool:
    if len(ops) > P.N:
        return False
    for k, a in ops:
        if not (0 <= k < NK and 0 <= a <= 2):
            return False
    return in_shard((ops[0][0] if len(ops) > 0 else 0) + NK * (ops[1][0] % 2 if len(ops) > 1 else 0))


@harness(
    pre=pre_prog,
    quick=dict(N=3, timeout=150, reach_timeout=60),
    thorough=dict(N=4, timeout=1500, reach_timeout=90),
    nshards=dict(quick=18, thorough=18),
    reach=["timer_removed_never_runs", "raise_then_next_runs", "failing_future_logged", "two_timers_deadline_order",
           "add_future_deferred"],
    units=["platform.asyncio.BaseAsyncIOLoop.add_callback", "platform.asyncio.BaseAsyncIOLoop.call_at",
           "platform.asyncio.BaseAsyncIOLoop.remove_timeout", "ioloop.IOLoop.add_timeout", "ioloop.IOLoop.call_later",
           "ioloop.IOLoop.add_future", "ioloop.IOLoop._run_callback", "ioloop.IOLoop._discard_future_result"],
    stubs=STUBS,
    outside=["add_callback from other threads (real OS threads are not symbolically schedulable): NOT covered",
             "callbacks that themselves schedule further work", "programs longer than N operations",
             "stdlib asyncio BaseEventLoop internals (replaced by the contract above)"],
)
def h_prog(ops: List[Tuple[int, int]]):
    """ops: 0 add_callback | 1 add_timeout(now+a) | 2 add_timeout(timedelta(a)) | 3 call_later(a) |
    4 remove_timeout(handle a%n) | 5 add_callback(raising) | 6 add_callback(returning a failed future) |
    7 add_future (a=0: resolve after, a>=1: already done) | 8 let the loop run for a seconds"""
    with _Patched() as px:
        env, loop, log = px.env, px.loop, px.log
        ran = []                    # (id, time)
        cb_pending = []             # model: ids of callbacks scheduled and not yet run, FIFO
        timers = []                 # model: dict(id, deadline, handle, state: 'P' pending / 'R' removed / 'F' fired)
        exp_errors = 0
        nid = [0]

        def new_id():
            nid[0] += 1
            return nid[0]

        def mk(i, mode):
            def cb(*a):
                ran.append((i, env.v.now))
                if mode == 1:
                    raise ValueError("boom %d" % i)
                if mode == 2:
                    f = px.aio.create_future()
                    f.set_exception(KeyError("late %d" % i))
                    return f
            return cb

        def settle(now):
            """compare what ran since the last settle with the model"""
            seg = ran[settle.pos:]
            settle.pos = len(ran)
            ids = [i for i, _ in seg]
            assert len(set(ids)) == len(ids), "a callback ran twice: %r" % (ids,)
            cbs = [i for i in ids if i in cb_pending]
            assert cbs == cb_pending, "callbacks must each run once, in scheduling order: ran %r, scheduled %r" % (
                cbs, cb_pending)
            del cb_pending[:]
            due = [t for t in timers if t["state"] == 'P' and t["deadline"] <= now]
            fired = [i for i in ids if i not in cbs]
            assert sorted(fired) == sorted(t["id"] for t in due), \
                "timeouts that ran %r != timeouts due and not removed %r" % (fired, [t["id"] for t in due])
            last = None
            for i, at in seg:
                for t in due:
                    if t["id"] == i:
                        assert at >= t["deadline"], "timeout ran before its deadline"
                        if last is not None:
                            assert t["deadline"] >= last, "timeouts ran out of deadline order"
                            if t["deadline"] > last:
                                reached("two_timers_deadline_order")
                        last = t["deadline"]
                        t["state"] = 'F'
        settle.pos = 0

        now = env.v.now
        for k, a in ops:
            if k in (1, 2, 3, 8):      # (only these use the amount: no branching on `a` for the others)
                ca = 0 if a == 0 else 1 if a == 1 else 2
            if k == 0 or k == 5 or k == 6:
                i = new_id()
                loop.add_callback(mk(i, 0 if k == 0 else 1 if k == 5 else 2))
                cb_pending.append(i)
                if k != 0:
                    exp_errors += 1
            elif k in (1, 2, 3):
                i = new_id()
                if k == 1:
                    h = loop.add_timeout(now + a, mk(i, 0))
                elif k == 2:
                    h = loop.add_timeout(datetime.timedelta(seconds=ca), mk(i, 0))
                else:
                    h = loop.call_later(a, mk(i, 0))
                timers.append(dict(id=i, deadline=now + ca, handle=h, state='P'))
            elif k == 4:
                if timers:
                    t = timers[a % len(timers)]
                    loop.remove_timeout(t["handle"])
                    if t["state"] == 'P':
                        t["state"] = 'R'
            elif k == 7:
                i = new_id()
                f = px.aio.create_future()
                if a >= 1:
                    f.set_result(7)
                loop.add_future(f, mk(i, 0))
                if a == 0:
                    f.set_result(7)
                assert all(j != i for j, _ in ran), "add_future callback ran synchronously"
                reached("add_future_deferred")
                cb_pending.append(i)
            else:
                env.advance(ca)
                now = now + ca
                settle(now)
            assert len(ran) == settle.pos, "a callback ran outside the loop (synchronously)"
        env.advance(3)
        now = now + 3
        settle(now)
        for t in timers:
            assert t["state"] != 'P', "timeout %d never ran" % t["id"]
            if t["state"] == 'R':
                assert all(j != t["id"] for j, _ in ran), "timeout ran after remove_timeout"
                reached("timer_removed_never_runs")
        assert len(log.errors) == exp_errors, \
            "every raising callback / failed returned future is logged on tornado.application: %d logged, %d expected" % (
                len(log.errors), exp_errors)
        kinds = [k for k, _ in ops]
        if 5 in kinds and kinds.index(5) < len(kinds) - 1 and kinds[kinds.index(5) + 1] == 0:
            reached("raise_then_next_runs")
        if 6 in kinds:
            reached("failing_future_logged")
        assert not env.v.exc_contexts, "exception escaped to the asyncio loop: %r" % (env.v.exc_contexts,)
        assert not env.v.pending_timers() and not env.v.ready, "work left after quiescence"


RUN_FOREVER_STUB = ("run_forever()/stop() of the fake asyncio loop, iteration semantics of asyncio's _run_once: all timers due "
                    "now are queued in (deadline, insertion) order, then the handles queued at that moment run FIFO, "
                    "call_soon from inside a handle waits for the next iteration; idle loop jumps to the next timer")


def pre_sync(kind: int, tmo: int, d: int) -> bool:
    return 0 <= kind <= 3 and 0 <= tmo <= 3 and 0 <= d <= 3


@harness(
    pre=pre_sync,
    quick=dict(timeout=120, reach_timeout=40),
    thorough=dict(timeout=300, reach_timeout=40),
    nshards=1,
    reach=["timeout_raised", "result_returned", "exception_reraised"],
    units=["ioloop.IOLoop.run_sync", "platform.asyncio.BaseAsyncIOLoop.start", "platform.asyncio.BaseAsyncIOLoop.stop",
           "ioloop.IOLoop.add_future", "gen.convert_yielded"],
    stubs=STUBS + [RUN_FOREVER_STUB],
    outside=["run_sync on a real selector loop"],
)
def h_run_sync(kind: int, tmo: int, d: int):
    """kind 0: plain function returning None | 1: function raising | 2: coroutine sleeping d seconds then returning 42 |
    3: coroutine sleeping d seconds then raising.  tmo = 0: no timeout, else timeout tmo seconds."""
    with _Patched() as px:
        loop, aio, env = px.loop, px.aio, px.env
        st = dict(cancelled=False, finished=False)
        cd = 0 if d == 0 else 1 if d == 1 else 2 if d == 2 else 3
        ct = None if tmo == 0 else 1 if tmo == 1 else 2 if tmo == 2 else 3

        async def co():
            try:
                if cd > 0:
                    f = aio.create_future()
                    aio.call_later(cd, f.set_result, None)
                    await f
                st["finished"] = True
            except asyncio.CancelledError:
                st["cancelled"] = True
                raise
            if kind == 3:
                raise KeyError("co")
            return 42

        def plain():
            if kind == 1:
                raise ValueError("plain")
            return None          # run_sync accepts functions returning None or an awaitable

        t_begin = env.v.now
        try:
            res = loop.run_sync(plain if kind <= 1 else co, timeout=ct)
            exc = None
        except Exception as e:
            res, exc = None, e
        assert not aio.deadlock, "run_sync left the loop running with nothing scheduled"
        expect_timeout = kind >= 2 and ct is not None and cd > ct
        if expect_timeout:
            reached("timeout_raised")
            assert type(exc).__name__ == "TimeoutError", "expected TimeoutError, got %r / %r" % (exc, res)
            assert st["cancelled"] and not st["finished"], "the timed-out coroutine must be cancelled"
            assert env.v.now - t_begin == ct, "timeout must fire at its deadline"
        elif kind == 0:
            assert exc is None and res is None
            reached("result_returned")
        elif kind == 1:
            assert type(exc) is ValueError, "exception must be re-raised, got %r" % (exc,)
            reached("exception_reraised")
        elif kind == 2:
            if not (ct is not None and cd == ct):
                assert exc is None and res == 42, "expected result 42, got %r / %r" % (res, exc)
        else:
            if not (ct is not None and cd == ct):
                assert type(exc) is KeyError, "expected KeyError, got %r / %r" % (exc, res)
        assert not px.log.errors, "unexpected error log: %r" % (px.log.errors,)


def pre_race(exc: bool, cd: int, ct: int, b0: int, bx: int, b1: int, late: bool) -> bool:
    return 0 <= cd <= 3 and 1 <= ct <= 3 and 0 <= b0 <= 1 and 0 <= bx <= 2 and 0 <= b1 <= 1 and \
        in_shard(cd + 4 * (ct - 1))


@harness(
    pre=pre_race,
    quick=dict(timeout=120, reach_timeout=60),
    thorough=dict(timeout=300, reach_timeout=60),
    nshards=12,
    reach=["finished_and_timeout_callback_ran", "finished_in_same_batch_as_timeout", "timeout_cancels_pending",
           "timeout_first_equal_deadline", "completion_first_equal_deadline"],
    units=["ioloop.IOLoop.run_sync (run, timeout_callback, post-loop outcome selection)",
           "platform.asyncio.BaseAsyncIOLoop.start/stop/call_at/remove_timeout", "ioloop.IOLoop.add_future",
           "gen.convert_yielded"],
    stubs=STUBS + [RUN_FOREVER_STUB,
                   "the function is a coroutine awaiting a future that a timer completes at t0+cd (cd in 0..3); the "
                   "timer is registered before run_sync (so it precedes the timeout timer at equal deadlines) or, with "
                   "late=True, inside the coroutine's first step (so it follows it); run_sync timeout ct in 1..3",
                   "the loop is BLOCKED (virtual clock jumps while a handle runs) by 2*b0 s in the coroutine's first step, "
                   "bx s in a handle queued right behind the completion timer, 2*b1 s in the coroutine's last step - this "
                   "is how completion and the timeout callback become due in one loop iteration, in either order"],
    outside=["run_sync without timeout (h_run_sync)", "functions that ignore cancellation"],
)
def h_run_sync_race(exc: bool, cd: int, ct: int, b0: int, bx: int, b1: int, late: bool):
    """run_sync(timeout) when completion and the timeout callback race: a function that COMPLETED keeps its result /
    exception (never replaced by TimeoutError); TimeoutError only together with a cancelled, unfinished function and
    never before the deadline."""
    with _Patched() as px:
        loop, aio, env = px.loop, px.aio, px.env
        v = env.v
        st = dict(finished=None, cancelled=None, fin_iter=None, tmo_iter=None, tmo_at=None)
        c_d = 0 if cd == 0 else 1 if cd == 1 else 2 if cd == 2 else 3
        c_t = 1 if ct == 1 else 2 if ct == 2 else 3
        k0 = 2 if b0 == 1 else 0
        kx = 0 if bx == 0 else 1 if bx == 1 else 2
        k1 = 2 if b1 == 1 else 0
        t0 = v.now
        ext = aio.create_future()

        def blocker():
            v.now = v.now + kx

        def complete_ext():
            if not ext.done():          # (a cancelled waiter cancels the future it awaits)
                ext.set_result(None)

        def arm():
            aio.call_at(t0 + c_d, complete_ext)
            if kx:
                aio.call_at(t0 + c_d, blocker)

        async def co():
            try:
                if late:
                    arm()
                v.now = v.now + k0
                await ext
                v.now = v.now + k1
                st["finished"] = v.now
                st["fin_iter"] = aio.iteration
            except asyncio.CancelledError:
                st["cancelled"] = v.now
                raise
            if exc:
                raise KeyError("co")
            return 42

        # observe the timeout callback (the only timer run_sync itself registers through IOLoop.call_at)
        real_call_at = loop.call_at

        def rec_call_at(when, callback, *a, **kw):
            def observed():
                st["tmo_iter"] = aio.iteration
                st["tmo_at"] = v.now
                return callback(*a, **kw)
            return real_call_at(when, observed)

        loop.call_at = rec_call_at
        if not late:
            arm()
        try:
            res = loop.run_sync(co, timeout=c_t)
            err = None
        except Exception as e:
            res, err = None, e
        assert not aio.deadlock, "run_sync left the loop running with nothing scheduled"
        timed_out = type(err).__name__ == "TimeoutError"
        if st["finished"] is not None:
            # the function completed: its outcome must come back, whatever the timeout callback did
            if st["tmo_iter"] is not None:
                reached("finished_and_timeout_callback_ran")
                if st["tmo_iter"] == st["fin_iter"]:
                    reached("finished_in_same_batch_as_timeout")
            if exc:
                assert type(err) is KeyError, "completed function's exception replaced by %r (result %r)" % (err, res)
            else:
                assert err is None and res == 42, "completed function's result replaced by %r / %r" % (err, res)
            assert st["cancelled"] is None
        else:
            assert timed_out, "unfinished function: expected TimeoutError, got %r / %r" % (err, res)
            assert st["cancelled"] is not None, "TimeoutError without cancelling the function"
            reached("timeout_cancels_pending")
        if timed_out:
            assert st["finished"] is None and st["cancelled"] is not None, "TimeoutError although the function completed"
            assert st["tmo_at"] is not None and st["tmo_at"] >= t0 + c_t, "timeout fired before its deadline"
        if k0 == 0 and kx == 0 and k1 == 0:
            # loop never blocked: strict comparison of completion time and deadline decides
            if c_d < c_t:
                assert st["finished"] is not None, "function finishing before the deadline was timed out"
            if c_d > c_t:
                assert timed_out, "function finishing after the deadline was not timed out"
            if c_d == c_t:
                if late:
                    assert timed_out, "timeout timer precedes the completion timer at the same deadline"
                    reached("timeout_first_equal_deadline")
                else:
                    reached("completion_first_equal_deadline")
        assert not px.log.errors, "unexpected error log: %r" % (px.log.errors,)
        assert not v.exc_contexts, "exception escaped to the asyncio loop: %r" % (v.exc_contexts,)


# ----------------------------------------------------------------------------------------------
# add_timeout(timedelta) with a DAYS component or a NEGATIVE value: deadline = now + total_seconds()
TD_POOL = (-1, 0, 1, 86399, 86400, 86401, 172800)      # seconds; 86401 = timedelta(days=1, seconds=1); -1 = days=-1, seconds=86399
TD_ADV = (1, 2, 86399, 172800)                          # clock advances (integer seconds)


def _pick(pool, i):
    for j in range(len(pool) - 1):
        if i == j:
            return pool[j]
    return pool[len(pool) - 1]


def pre_td(ops: List[int]) -> bool:
    if len(ops) > P.N:
        return False
    for c in ops:
        if not 0 <= c < len(TD_POOL) + len(TD_ADV):
            return False
    return in_shard(ops[0] if len(ops) > 0 else 0)


@harness(
    pre=pre_td,
    quick=dict(N=3, timeout=120, reach_timeout=60),
    thorough=dict(N=4, timeout=1200, reach_timeout=60),
    nshards=11,
    reach=["negative_fires_at_once", "day_component_after_shorter", "day_component_not_early"],
    units=["ioloop.IOLoop.add_timeout (timedelta branch: total_seconds)", "platform.asyncio.BaseAsyncIOLoop.call_at",
           "ioloop.IOLoop._run_callback"],
    stubs=STUBS + ["timedeltas from the pool {-1 s, 0, 1 s, 86399 s, 86400 s, 86401 s (days=1, seconds=1), 2 days}, built as "
                   "datetime.timedelta(seconds=v) (normalised by datetime into days/seconds); clock advances from "
                   "{1, 2, 86399, 172800} s; all concrete per path, chosen by the solver through a symbolic index",
                   "a deadline that is already past when it is scheduled counts as due at the scheduling time (the asyncio "
                   "bridge clamps the delay at 0): ordering is checked on max(deadline, time of scheduling)"],
    outside=["timedeltas outside the pool", "microsecond components (C39 covers sub-second periods)"],
)
def h_td(ops: List[int]):
    """ops < 7: add_timeout(timedelta(seconds=TD_POOL[op])) | ops >= 7: let the loop run for TD_ADV[op-7] seconds.
    Oracle: a timeout fires exactly when its deadline now+total_seconds() has been reached (never before, not later
    than the advance that crosses it), once, and timeouts fire in deadline order."""
    with _Patched() as px:
        env, loop = px.env, px.loop
        ran = []                 # (id, time)
        timers = []              # dict(id, deadline, eff, secs, state)
        pos = [0]

        def mk(i):
            def cb():
                ran.append((i, env.v.now))
            return cb

        def settle(now):
            seg = ran[pos[0]:]
            pos[0] = len(ran)
            ids = [i for i, _ in seg]
            assert len(set(ids)) == len(ids), "a timeout ran twice: %r" % (ids,)
            due = [t for t in timers if t["state"] == 'P' and t["deadline"] <= now]
            assert sorted(ids) == sorted(t["id"] for t in due), \
                "timeouts that ran %r != timeouts whose deadline now+total_seconds() was reached %r (now=%r, all=%r)" % (
                    ids, [t["id"] for t in due], now, [(t["id"], t["deadline"]) for t in timers])
            last = None
            for i, at in seg:
                t = [x for x in due if x["id"] == i][0]
                assert at >= t["deadline"], "timeout ran before its deadline"
                assert at == t["eff"], "timeout ran at %r, its deadline was %r" % (at, t["eff"])
                if last is not None:
                    assert t["eff"] >= last["eff"], "timeouts ran out of deadline order"
                    if t["secs"] >= 86400 and last["id"] > t["id"]:
                        hit.append("day_component_after_shorter")
                last = t
                t["state"] = 'F'
                if t["secs"] < 0:
                    hit.append("negative_fires_at_once")

        hit = []
        now = env.v.now
        nid = 0
        for c in ops:
            if c < len(TD_POOL):
                secs = _pick(TD_POOL, c)
                nid += 1
                loop.add_timeout(datetime.timedelta(seconds=secs), mk(nid))
                timers.append(dict(id=nid, deadline=now + secs, eff=max(now, now + secs), secs=secs, state='P'))
                assert len(ran) == pos[0], "a timeout ran synchronously"
            else:
                adv = _pick(TD_ADV, c - len(TD_POOL))
                env.advance(adv)
                now = now + adv
                settle(now)
                if any(t["secs"] >= 86400 and t["state"] == 'P' for t in timers) and adv >= 86399:
                    hit.append("day_component_not_early")
        env.advance(2 * 172800 + 5)
        now = now + 2 * 172800 + 5
        settle(now)
        assert all(t["state"] == 'F' for t in timers), "a timeout never ran"
        for tag in hit:
            reached(tag)
        assert not px.log.errors, "unexpected error log %r" % (px.log.errors,)
        assert not env.v.exc_contexts and not env.v.pending_timers()
