"""C04 - Server size limits bound what a peer can make the application buffer.

  h_body    Content-Length and chunked bodies through the real server loop
            (_server_request_loop -> _read_message -> _read_body -> _read_fixed_body/_read_chunked_body),
            symbolic: max_body_size, per-request override (set_max_body_size in headers_received),
            declared length / chunk split, partial-read segment size, params.chunk_size
  h_gzip    _GzipMessageDelegate (decompress_request) with a pure-Python decompressor whose expansion
            factor is symbolic; symbolic compressed length and limit
  h_header  max_header_size: the value handed to read_until_regex(max_bytes=...) is the configured limit
            and an oversize block is refused (closed, nothing delivered); the byte-exact boundary of
            read_until_regex itself is C11's subject.
"""
from vp.api import P, harness, in_shard, reached
from vp.env import install

import tornado.http1connection as h1
from tornado.http1connection import HTTP1ConnectionParameters, HTTP1ServerConnection

from harness._httpin import (FMT, HDR_STREAM, HdrStream, LogTrap, RecConn, body_of, count,
                             respond_ok)

TECHNIQUE = "symbolic execution of the real Python code (CrossHair/z3), bounded"
ASSUMPTIONS = [FMT, HDR_STREAM]

PAY = b"abcdefghijklmnop"
R400 = b"HTTP/1.1 400 Bad Request\r\n\r\n"
R200 = b"HTTP/1.1 200 OK\r\nContent-Length: 0\r\n\r\n"
GET_HDR = b"GET /n HTTP/1.1\r\nHost: h\r\n\r\n"
CL_HDRS = [b"POST /u HTTP/1.1\r\nHost: h\r\nContent-Length: %d\r\n\r\n" % i for i in range(17)]
CH_HDR = b"POST /u HTTP/1.1\r\nHost: h\r\nTransfer-Encoding: chunked\r\n\r\n"
HEX = b"0123456789abcdef"


def _chunk(data: bytes) -> bytes:
    n = len(data)
    assert n < 16
    return HEX[n:n + 1] + b"\r\n" + data + b"\r\n"


def pre_body(framing: int, maxb: int, ovr: int, n: int, c1: int, seg: int, csz: int) -> bool:
    if not (0 <= framing <= 1 and 0 <= maxb <= P.M and -1 <= ovr <= P.M and 0 <= n <= P.N):
        return False
    if not (1 <= seg <= 3 and 1 <= csz <= 3):
        return False
    if framing == 0:
        if c1 != 0:
            return False
    elif not (0 <= c1 <= n):
        return False
    if framing == 0:
        return in_shard(ovr + 1)
    return in_shard(P.M + 2 + (ovr + 1) * 2 + n % 2)


@harness(
    pre=pre_body,
    quick=dict(M=5, N=7, timeout=150, reach_timeout=60),
    thorough=dict(M=9, N=12, timeout=1200, reach_timeout=120),
    nshards=dict(quick=21, thorough=33),
    reach=["cl_over_limit", "chunked_over_limit_second_chunk", "within_limit_two_requests",
           "override_raises_limit", "override_lowers_limit"],
    units=["http1connection.HTTP1Connection._read_body", "http1connection.HTTP1Connection._read_fixed_body",
           "http1connection.HTTP1Connection._read_chunked_body", "http1connection.HTTP1Connection.set_max_body_size",
           "http1connection.HTTP1Connection._read_message",
           "http1connection.HTTP1ServerConnection._server_request_loop"],
    stubs=[FMT, HDR_STREAM, "virtual loop (vp/env.py)",
           "Content-Length header block chosen from a concrete pool by the symbolic length n (a fork per value); "
           "all other sizes stay solver variables",
           "chunked body = chunk(c1 bytes) [+ chunk(n-c1 bytes)] + last-chunk; application answers 200/empty; "
           "a concrete GET is pipelined behind to observe 'requests within the limits are unaffected'"],
    outside=["sizes above the bounds (M, N)", "more than two data chunks", "the 100 MB default read-buffer cap"],
)
def h_body(framing: int, maxb: int, ovr: int, n: int, c1: int, seg: int, csz: int):
    """A declared (Content-Length) or chunked body larger than the effective limit (max_body_size or the
    per-request override) is refused and the connection closed; the application never gets more than the
    limit; bodies within the limit are delivered unchanged and the connection keeps serving."""
    eff = ovr if ovr >= 0 else maxb
    data = PAY[:n]
    if framing == 0:
        hdr = CL_HDRS[n]
        body = data
    else:
        hdr = CH_HDR
        body = (_chunk(data[:c1]) if c1 > 0 else b"") + (_chunk(data[c1:]) if n - c1 > 0 else b"") + b"0\r\n\r\n"

    def on_headers(rec, start_line, headers):
        if ovr >= 0 and start_line.method == "POST":
            rec.conn.set_max_body_size(ovr)
        return None

    with install() as env, LogTrap() as trap:
        stream = HdrStream(env.loop, [(hdr, body), (GET_HDR, b"")], eof=True, seg=seg)
        rc = RecConn(on_headers=on_headers, on_finish=respond_ok)
        sc = HTTP1ServerConnection(stream, HTTP1ConnectionParameters(max_body_size=maxb, chunk_size=csz))
        sc.start_serving(rc)
        env.run_ready()
        ev = rc.events_by_req[0]
        assert ev and ev[0][0] == "H"
        got = body_of(ev)
        assert len(got) <= eff, "application was handed %d body bytes, limit is %d" % (len(got), eff)
        assert data[:len(got)] == got, "delivered bytes are not a prefix of the body"
        assert not trap.uncaught() and not env.v.exc_contexts, \
            "uncaught: %r %r" % (trap.uncaught(), env.v.exc_contexts)
        if n > eff:
            if framing == 0:
                reached("cl_over_limit")
            elif 0 < c1 <= eff:
                reached("chunked_over_limit_second_chunk")
            if ovr >= 0 and ovr < maxb and n <= maxb:
                reached("override_lowers_limit")
            assert count(ev, "F") == 0, "over-limit body was accepted (finish delivered)"
            assert count(ev, "C") == 1
            assert stream.closed(), "connection not closed after an over-limit body"
            assert stream.wire() in (b"", R400), "unexpected bytes written: %r" % (stream.wire(),)
            assert len(rc.events_by_req) == 1 or not rc.events_by_req[1], \
                "request after the refused one was served"
            if framing == 0:
                assert got == b"", "Content-Length over the limit must be refused before any body byte"
        else:
            if ovr >= 0 and ovr > maxb and n > maxb:
                reached("override_raises_limit")
            assert got == data and count(ev, "F") == 1 and count(ev, "C") == 0, \
                "request within the limit was affected: %r" % (ev,)
            assert not stream.desync
            assert len(rc.events_by_req) >= 2 and [e[0] for e in rc.events_by_req[1]] == ["H", "F"], \
                "pipelined request behind an in-limit body not served: %r" % (rc.events_by_req,)
            assert stream.wire() == R200 * 2
            reached("within_limit_two_requests")


# ---------------------------------------------------------------------------------------------
class ShimDecompressor:
    """Pure-Python stand-in for tornado.util.GzipDecompressor (zlib is C): every compressed byte expands
    to EXP copies of itself; decompress(value, max_length) honours max_length at byte granularity and
    leaves the unconsumed input in `unconsumed_tail`, flush() returns b'' - the documented
    zlib.decompressobj contract that _GzipMessageDelegate relies on."""
    EXP = 1

    def __init__(self):
        self.unconsumed_tail = b""
        self.unused_data = b""

    def decompress(self, value, max_length=0):
        e = ShimDecompressor.EXP
        out = b""
        i = 0
        while i < len(value):
            if max_length and len(out) + e > max_length:
                break
            out = out + value[i:i + 1] * e
            i += 1
        self.unconsumed_tail = value[i:]
        return out

    def flush(self):
        return b""


GZ_HDRS = [b"POST /z HTTP/1.1\r\nHost: h\r\nContent-Encoding: gzip\r\nContent-Length: %d\r\n\r\n" % i
           for i in range(9)]


def pre_gzip(maxb: int, k: int, e: int, seg: int, csz: int) -> bool:
    return (0 <= maxb <= P.M and 0 <= k <= P.K and 0 <= e <= P.E and 1 <= seg <= 2
            and max(e, 1) <= csz <= P.C and in_shard(e))


@harness(
    pre=pre_gzip,
    quick=dict(M=8, K=3, E=3, C=3, timeout=120, reach_timeout=60),
    thorough=dict(M=16, K=5, E=4, C=5, timeout=1200, reach_timeout=120),
    nshards=dict(quick=4, thorough=5),
    reach=["bomb_refused", "inflated_within_limit"],
    units=["http1connection._GzipMessageDelegate.headers_received", "http1connection._GzipMessageDelegate.data_received",
           "http1connection._GzipMessageDelegate.finish", "http1connection.HTTP1Connection.read_response",
           "http1connection.HTTP1Connection._read_fixed_body"],
    stubs=[FMT, HDR_STREAM, "virtual loop (vp/env.py)",
           "tornado.http1connection.GzipDecompressor replaced by ShimDecompressor (pure Python; each compressed byte "
           "expands to a symbolic number e of bytes; max_length / unconsumed_tail semantics of zlib.decompressobj); "
           "real zlib bit-level decoding is outside the claim",
           "Content-Length header block from a concrete pool indexed by the symbolic compressed length k"],
    outside=["real zlib streams", "per-request override combined with gzip (see report)", "chunked + gzip"],
)
def h_gzip(maxb: int, k: int, e: int, seg: int, csz: int):
    """With decompress_request on, a body that inflates beyond max_body_size is refused and closed and the
    application never sees more than max_body_size bytes; bodies inflating within the limit are delivered
    completely."""
    comp = PAY[:k]
    saved = h1.GzipDecompressor
    h1.GzipDecompressor = ShimDecompressor
    ShimDecompressor.EXP = e
    try:
        with install() as env, LogTrap() as trap:
            stream = HdrStream(env.loop, [(GZ_HDRS[k], comp), (GET_HDR, b"")], eof=True, seg=seg)
            rc = RecConn(on_finish=respond_ok)
            sc = HTTP1ServerConnection(stream, HTTP1ConnectionParameters(
                max_body_size=maxb, chunk_size=csz, decompress=True))
            sc.start_serving(rc)
            env.run_ready()
            ev = rc.events_by_req[0] if rc.events_by_req else []
            got = body_of(ev)
            assert len(got) <= maxb, "application was handed %d inflated bytes, limit %d" % (len(got), maxb)
            assert not trap.uncaught() and not env.v.exc_contexts, \
                "uncaught: %r %r" % (trap.uncaught(), env.v.exc_contexts)
            if k > maxb or k * e > maxb:
                if k <= maxb:
                    reached("bomb_refused")
                assert count(ev, "F") == 0, "body inflating beyond the limit was accepted"
                assert stream.closed() and stream.wire() in (b"", R400)
                assert len(rc.events_by_req) <= 1 or not rc.events_by_req[1]
            else:
                want = b"".join(comp[i:i + 1] * e for i in range(k))
                assert got == want and count(ev, "F") == 1 and count(ev, "C") == 0, \
                    "in-limit gzip body affected: %r" % (ev,)
                assert [x[0] for x in rc.events_by_req[1]] == ["H", "F"]
                if e >= 2 and k >= 1:
                    reached("inflated_within_limit")
    finally:
        h1.GzipDecompressor = saved


# ---------------------------------------------------------------------------------------------
HDR_LONG = b"GET /x HTTP/1.1\r\nHost: h\r\nX-Pad: " + b"p" * 40 + b"\r\n\r\n"


def pre_header(mh: int, pad: int) -> bool:
    return 1 <= mh <= P.H and 0 <= pad <= 40


@harness(
    pre=pre_header,
    quick=dict(H=90, timeout=90),
    thorough=dict(H=200, timeout=300),
    nshards=1,
    reach=["header_over", "header_within"],
    units=["http1connection.HTTP1Connection._read_message", "http1connection.HTTP1ConnectionParameters.__init__"],
    stubs=[HDR_STREAM + " - i.e. `a header block longer than max_bytes makes read_until_regex fail with "
           "UnsatisfiableReadError and close the stream` is ASSUMED here and checked on the real BaseIOStream in C11",
           "virtual loop (vp/env.py)"],
    outside=["byte-exact delimiter search of read_until_regex (C11)", "max_header_size=0 (documented to mean default)"],
)
def h_header(mh: int, pad: int):
    """The configured max_header_size is exactly what bounds the header read; an oversize header block is
    refused (connection closed, nothing delivered, no uncaught error); one within the limit is served."""
    hdr = b"GET /x HTTP/1.1\r\nHost: h\r\nX-Pad: " + (b"p" * 40)[:pad] + b"\r\n\r\n"
    with install() as env, LogTrap() as trap:
        stream = HdrStream(env.loop, [(hdr, b"")], eof=True, seg=None)
        rc = RecConn(on_finish=respond_ok)
        sc = HTTP1ServerConnection(stream, HTTP1ConnectionParameters(max_header_size=mh))
        sc.start_serving(rc)
        env.run_ready()
        assert stream.hdr_max and stream.hdr_max[0] == mh, "header read not bounded by max_header_size"
        assert not trap.uncaught() and not env.v.exc_contexts
        ev = rc.events_by_req[0] if rc.events_by_req else []
        if len(hdr) > mh:
            reached("header_over")
            assert ev == [] and stream.closed() and stream.wire() in (b"", R400)
        else:
            reached("header_within")
            assert [x[0] for x in ev] == ["H", "F"]
