"""C26 - Static file serving never leaves its root directory.

Real code driven: tornado.web.StaticFileHandler.get prologue (parse_url_path, get_absolute_path,
validate_absolute_path, the directory redirect) through RequestHandler._execute / send_error, with
posixpath.join/abspath/normpath running symbolically (pure Python).  Only the filesystem predicates
os.path.isdir/exists/isfile (as seen from tornado.web) are replaced by an in-memory tree:

    /r/root/a.txt   /r/root/d/index.html   /r/rootx/s.txt (sibling sharing the root's prefix)   /r/secret

Oracle: a 200 (served) or 301 (directory revealed) happens only if normpath of the absolute path is
the root or below it; everything else is 403/404; and the filesystem is never even PROBED
(isdir/exists/isfile) for a path outside the root, so existence outside the root cannot leak.
"""
import posixpath
from typing import List, Tuple

from vp.api import P, harness, in_shard, reached
from vp.env import install

from tornado import web

from harness._sec_rig import QuietMixin, make_app, make_request

DIRS = {"/", "/r", "/r/root", "/r/root/d", "/r/rootx"}
FILES = {"/r/root/a.txt": b"A", "/r/root/d/index.html": b"I", "/r/rootx/s.txt": b"S", "/r/secret": b"X"}
ROOT = "/r/root"
PROBES = []


def _py_normpath(path):
    """CPython's own pure-Python posixpath.normpath (the `except ImportError` fallback in
    Lib/posixpath.py); on 3.12 the default is the C function posix._path_normpath, which rejects
    symbolic strings.  Validated against the C function at import time (below)."""
    sep, empty, dot, dotdot = "/", "", ".", ".."
    if path == empty:
        return dot
    initial_slashes = path.startswith(sep)
    if initial_slashes and path.startswith(sep * 2) and not path.startswith(sep * 3):
        initial_slashes = 2
    comps = path.split(sep)
    new_comps = []
    for comp in comps:
        if comp in (empty, dot):
            continue
        if (comp != dotdot or (not initial_slashes and not new_comps) or
                (new_comps and new_comps[-1] == dotdot)):
            new_comps.append(comp)
        elif new_comps:
            new_comps.pop()
    comps = new_comps
    path = sep.join(comps)
    if initial_slashes:
        path = sep * initial_slashes + path
    return path or dot


def _py_abspath(path):
    assert path.startswith("/"), "relative path would need os.getcwd()"
    return _py_normpath(path)


def _selfcheck():
    import itertools
    pool = ["..", ".", "", "a", "/r", "\x00x", "b.c"]
    for k in range(4):
        for t in itertools.product(pool, repeat=k):
            for pre in ("", "/", "//", "///"):
                q = pre + "/".join(t)
                assert _py_normpath(q) == posixpath.normpath(q), q


_selfcheck()


def _norm(p):
    return _py_normpath(p)


class _FakePath:
    sep = "/"

    def isdir(self, p):
        PROBES.append(p)
        return _norm(p) in DIRS and "\x00" not in p

    def isfile(self, p):
        PROBES.append(p)
        return _norm(p) in FILES and "\x00" not in p

    def exists(self, p):
        PROBES.append(p)
        n = _norm(p)
        return (n in FILES or n in DIRS) and "\x00" not in p

    def normpath(self, p):
        return _py_normpath(p)

    def abspath(self, p):
        return _py_abspath(p)

    def __getattr__(self, k):
        return getattr(posixpath, k)


class _FakeOs:
    path = _FakePath()
    sep = "/"

    def __getattr__(self, k):
        import os as _os
        return getattr(_os, k)


web.os = _FakeOs()


class TreeStatic(QuietMixin, web.StaticFileHandler):
    """Real path logic; content access through the documented override points."""

    def get_content_size(self):
        return len(FILES[_norm(self.absolute_path)])

    @classmethod
    def get_content(cls, abspath, start=None, end=None):
        return FILES[_norm(abspath)][start:end]

    @classmethod
    def get_content_version(cls, abspath):
        return "v"

    def get_modified_time(self):
        return None

    def get_content_type(self):
        return "text/plain"

    def decode_argument(self, value, name=None):
        # documented override point; the harness hands the capture over as str so that the UTF-8
        # encode/decode round trip (4-way fork per free code point) is not re-explored here
        return value


SEGS = ["..", "", "a.txt", "d", "rootx", "/r/secret", ".", "\x00x", "s.txt", "%2e%2e", "/r/rootx", "root"]


def inside(p):
    n = _norm(p)
    return n == ROOT or n.startswith(ROOT + "/")


NS = len(SEGS)


def shard_table(nseg, F, front):
    """(first segment, free length, free part in front?, rootslash or None) per shard - small discrete
    choices enumerated by sharding.  Shards with a free part fork most and are split by rootslash."""
    t = []
    for ff in ([False, True] if front else [False]):
        for flen in range(F + 1):
            if ff and flen == 0:
                continue                       # no free part: position is irrelevant
            for a in range(nseg):
                if flen == 0:
                    t.append((a, flen, ff, None))
                else:
                    t.append((a, flen, ff, False))
                    t.append((a, flen, ff, True))
    return t


def pre_path(n: int, a: int, b: int, c: int, d: int, free: str, ffront: bool, rootslash: bool,
             deffile: bool) -> bool:
    if P.nshards > 1:
        # sharded run: pinned per shard by equalities with concrete values (a modulo over a sum makes
        # CrossHair wander through failing pres)
        sa, sflen, sffront, srs = shard_table(P.NSEG, P.F, P.FRONT)[P.shard]
        if a != sa or len(free) != sflen or ffront != sffront:
            return False
        if srs is not None and rootslash != srs:
            return False
    elif not (0 <= a < P.NSEG and len(free) <= P.F and (P.FRONT == 1 or not ffront)):
        return False
    if len(free) == 0 and ffront:
        return False
    # up to N segments without a free part, up to NF with one
    if not ((0 if a == 0 else 1) <= n <= (P.N if len(free) == 0 else P.NF)):
        return False
    ns = P.NSEG
    if not (0 <= b < ns and 0 <= c < ns and 0 <= d < ns):
        return False
    # unused segment slots are pinned to 0 so that every URL has exactly one encoding
    if (n < 2 and b != 0) or (n < 3 and c != 0) or (n < 4 and d != 0):
        return False
    return True


@harness(
    pre=pre_path,
    quick=dict(N=3, NF=2, F=1, NSEG=6, FRONT=0, timeout=150, reach_timeout=250),
    thorough=dict(N=3, NF=3, F=2, NSEG=12, FRONT=1, timeout=1400, reach_timeout=200),
    nshards=dict(quick=len(shard_table(6, 1, 0)), thorough=len(shard_table(12, 2, 1))),
    reach=["served", "redirected", "escape_refused", "prefix_sibling_refused"],   # "default_served" needs ~220 CPU-s unsharded: asserted, not a twin
    units=["web.StaticFileHandler.get", "web.StaticFileHandler.parse_url_path",
           "web.StaticFileHandler.get_absolute_path", "web.StaticFileHandler.validate_absolute_path",
           "web.RequestHandler.redirect", "web.RequestHandler.send_error", "posixpath.join/abspath/normpath"],
    stubs=["tornado.web.os replaced by a shim: os.path.isdir/exists/isfile answer from an in-memory tree "
           "(/r/root/{a.txt,d/index.html}, /r/rootx/s.txt, /r/secret); join is the real posixpath.join; normpath (a C function on 3.12) is replaced by CPython's own pure-Python "
           "fallback implementation (checked against the C function on a concrete grid at import), abspath = "
           "normpath for absolute paths",
           "content access via the documented override points (get_content, get_content_size, "
           "get_modified_time, get_content_type, get_content_version)",
           "URL path = up to N segments from the first NSEG entries of the pool ('..','.','','a.txt','d','rootx','/r/secret','\\\\0x','s.txt',"
           "'%2e%2e','/r/rootx','root') joined by '/', plus up to F free code points at the end (thorough: also at the front; in quick an absolute/odd first segment is covered by the pooled '' and '/r/secret' segments); up to N segments without a free part, NF with one; "
           "handed to _execute as the already-unquoted, already-decoded routing capture (decode_argument overridden to the identity); request path = '/static/' + its wire form (NUL / non-printable free code points percent-encoded)",
           "recording connection, virtual loop, fixed clock, logging off (harness/_sec_rig.py)"],
    outside=["symlinks", "Windows separators", "filesystem races", "root == '/' (validation deliberately off)"],
)
def h_path(n: int, a: int, b: int, c: int, d: int, free: str, ffront: bool, rootslash: bool, deffile: bool):
    segs = [a, b, c, d][:n]
    url = "/".join([SEGS[i] for i in segs])
    url = (free + url) if ffront else (url + free)
    # the request path as it appears on the wire: CTL / non-ASCII are percent-encoded there
    wfree = free
    for ch in free:
        if not ("!" <= ch <= "~"):
            wfree = "%zz"
    wire = "/".join([("%00x" if SEGS[i] == "\x00x" else SEGS[i]) for i in segs])
    wire = "/static/" + ((wfree + wire) if ffront else (wire + wfree))
    root = ROOT + "/" if rootslash else ROOT
    del PROBES[:]
    TreeStatic._static_hashes = {}
    with install() as env:
        app = make_app()
        req, conn = make_request("GET", wire)
        kw = dict(path=root)
        if deffile:
            kw["default_filename"] = "index.html"
        handler = TreeStatic(app, req, **kw)
        t = env.spawn(handler._execute([], url))
        env.run_ready()
        assert t.done() and t.exception() is None
    assert conn.finished
    st = conn.status
    target = posixpath.join(root, url)
    ins = inside(target)
    for p in PROBES:
        assert inside(p), "filesystem probed outside the root: %r (url %r)" % (p, url)
    if not ins:
        reached("escape_refused")
        if _norm(target).startswith("/r/rootx"):
            reached("prefix_sibling_refused")
        assert st in (403, 404), "path outside the root answered %r (url %r -> %r)" % (st, url, target)
        assert conn.body().find(b"X") < 0 or st != 200
        return
    if st == 200:
        reached("served")
        ap = handler.absolute_path if hasattr(handler, "absolute_path") else None
        assert ap is not None and inside(ap) and _norm(ap) in FILES, "served %r" % (ap,)
        if _norm(ap) != _norm(target):
            assert deffile and _norm(ap) == _norm(target) + "/index.html"
        assert conn.body() == FILES[_norm(ap)]
    elif st == 301:
        reached("redirected")
        assert deffile and _norm(target) in DIRS, "redirect for a non-directory"
        assert conn.header("Location") == wire + "/"
    else:
        assert st in (403, 404), "unexpected status %r" % (st,)
        if st == 404:
            assert not (_norm(target) in FILES and "\x00" not in target), "existing file inside root answered 404"
