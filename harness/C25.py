"""C25 - Outgoing cookies are emitted exactly as set.

Real code driven: RequestHandler.set_cookie (validation, http.cookies.SimpleCookie/Morsel) ->
RequestHandler.finish/flush (Set-Cookie emission via Morsel.OutputString) -> real
HTTP1Connection.write_headers (latin-1 encoding, CR/LF guard) -> the Set-Cookie header values ->
tornado's own request-side httputil.parse_cookie / _unquote_cookie on the cookie-pair a client
would send back.  Oracle: call raised, or exactly one Set-Cookie for the name whose pair parses back
to {name: value} and whose attribute list is exactly the requested one.
"""
from typing import List, Tuple

from vp.api import P, harness, in_shard, reached
from vp.env import install
from vp.fakestream import FakeStream

from harness import _httpout_rig as rig

from tornado import httputil
from tornado.http1connection import HTTP1Connection, HTTP1ConnectionParameters


class _RecConn(HTTP1Connection):
    """Real HTTP1Connection; records the Set-Cookie values handed to write_headers (the header
    block itself is concrete-framed by C02; parsing a wire with embedded symbolic text is avoided)."""

    def write_headers(self, start_line, headers, chunk=None):
        self.rec_cookies = list(headers.get_list("Set-Cookie"))
        self.rec_code = start_line.code
        return HTTP1Connection.write_headers(self, start_line, headers, chunk)


def make_handler(env, **settings):
    st = FakeStream(env.loop, b"")
    conn = _RecConn(st, False, HTTP1ConnectionParameters())
    sl = httputil.RequestStartLine("GET", "/a", "HTTP/1.1")
    hd = httputil.HTTPHeaders()
    hd["Host"] = "x"
    conn._request_start_line = sl
    conn._request_headers = hd
    conn._read_finished = True
    req = httputil.HTTPServerRequest(method="GET", uri="/a", version="HTTP/1.1", headers=hd,
                                     connection=conn, start_line=sl)
    app = rig.make_app([], **settings)
    h = rig.ProgHandler(app, req)
    h._transforms = []
    return h, conn, st


def split_set_cookie(sc):
    """Reference splitter: cookie-pair + list of (lower-cased attribute name, value or None)."""
    segs = sc.split(";")
    attrs = []
    for seg in segs[1:]:
        seg = seg.strip(" ")
        if "=" in seg:
            k, v = seg.split("=", 1)
            attrs.append((k.lower(), v))
        else:
            attrs.append((seg.lower(), None))
    return segs[0], attrs


def _check(cookies, name, value, kw, httponly, secure):
    assert len(cookies) == 1, "expected exactly one Set-Cookie, got %r" % (cookies,)
    sc = cookies[0]
    pair, attrs = split_set_cookie(sc)
    if pair.startswith(name + '="'):
        reached("quoted_value")
    back = httputil.parse_cookie(pair)
    assert back == {name: value}, "Set-Cookie %r reads back as %r, set (%r, %r)" % (sc, back, name, value)
    want = []
    path = kw.get("path", "/")
    if kw.get("domain"):
        want.append(("domain", kw["domain"]))
    if path:
        want.append(("path", path))
    if httponly:
        want.append(("httponly", None))
    if secure:
        want.append(("secure", None))
    if kw.get("samesite"):
        want.append(("samesite", kw["samesite"]))
    assert sorted(attrs, key=lambda t: t[0]) == sorted(want, key=lambda t: t[0]), \
        "attributes %r, requested %r (header %r)" % (attrs, want, sc)


_STUBS = ["handler built directly on a real HTTP1Connection over FakeStream (no request parsing/routing)",
          "fixed time.time() and datetime.now() as seen by tornado.web; logging disabled",
          "the Set-Cookie values are read from the HTTPHeaders handed to the real write_headers "
          "(which still encodes/validates them); the client's echo is the cookie-pair before the first ';'",
          "symbolic strings are taken as bytes and decoded as latin-1 (code points 0..255)"]
_OUTSIDE = ["code points above U+00FF (cannot be sent in a latin-1 header block at all)",
            "symbolic expiry dates (pooled ones: h_cookie_expires); signature strength (C23); clear_cookie's date value",
            "deprecated **kwargs attributes"]


def _mk(n, c1, c2):
    """String of n (<= 2) characters from code points (chr() of a solver int stays symbolic and is
    far cheaper for CrossHair than a symbolic bytes/str argument)."""
    if n == 0:
        return ""
    if n == 1:
        return chr(c1)
    return chr(c1) + chr(c2)


def _pinned(n, c1, c2):
    """Unused code points are pinned to 0 (no duplicate work)."""
    return not ((n < 2 and c2 != 0) or (n < 1 and c1 != 0))


def _cp(*cs):
    for c in cs:
        if not 0 <= c <= 255:
            return False
    return True


_UNITS = ["web.RequestHandler.set_cookie", "web.RequestHandler.flush (Set-Cookie emission)",
          "http.cookies.SimpleCookie/Morsel.OutputString/_quote (stdlib, pure Python)",
          "http1connection.HTTP1Connection.write_headers", "httputil.parse_cookie", "httputil._unquote_cookie"]
_CPSTUB = ["symbolic strings are built with chr() from solver-chosen code points 0..255 and a solver-chosen "
           "length (far cheaper for CrossHair than symbolic str/bytes arguments)"]


def _run_value(name, value, twice):
    with install() as env:
        h, conn, st = make_handler(env)
        try:
            if twice:
                h.set_cookie(name, "x", domain="d", secure=True)
            h.set_cookie(name, value)
        except Exception:
            reached("rejected")
            return          # "either that call raises ..."
        h.finish()          # an exception here = accepted by set_cookie but the response fails
        cookies = conn.rec_cookies
        assert conn.rec_code == 200
    reached("sent")
    if twice:
        reached("set_twice")
    _check(cookies, name, value, {}, False, False)


def pre_value(vl: int, v1: int, v2: int, twice: bool) -> bool:
    if not (0 <= vl <= P.LV and _cp(v1, v2) and _pinned(vl, v1, v2)):
        return False
    return in_shard(v1 // 32 if vl == 1 else ((v1 // 32) * 8 + v2 // 32 if vl == 2 else 0))


@harness(
    pre=pre_value,
    quick=dict(LV=1, timeout=200, reach_timeout=60),
    thorough=dict(LV=2, timeout=1500, reach_timeout=120),
    nshards=dict(quick=8, thorough=64),
    reach=["sent", "quoted_value", "rejected", "set_twice"],
    units=_UNITS, stubs=_STUBS + _CPSTUB + ["cookie name fixed to 'n' here (names: h_cookie_name)"],
    outside=_OUTSIDE,
)
def h_cookie_value(vl: int, v1: int, v2: int, twice: bool):
    """Any value (name 'n'): set_cookie raises, or exactly one Set-Cookie that reads back as {n: value}
    with only the default Path attribute; setting the name twice emits only the last setting."""
    _run_value("n", _mk(vl, v1, v2), twice)


NAME_VALUES = ("v", "", 'a";b\\', "\xe9 ")


def pre_name(nl: int, n1: int, n2: int, vi: int, twice: bool) -> bool:
    if not (0 <= nl <= P.LN and _cp(n1, n2) and _pinned(nl, n1, n2) and 0 <= vi < P.V):
        return False
    return in_shard(n1 // 32 + 8 * vi + (n2 // 32 if nl == 2 else 0))


@harness(
    pre=pre_name,
    quick=dict(LN=1, V=1, timeout=250, reach_timeout=90),
    thorough=dict(LN=2, V=4, timeout=1500, reach_timeout=120),
    nshards=dict(quick=8, thorough=32),
    reach=["sent", "rejected", "set_twice"],
    units=_UNITS, stubs=_STUBS + _CPSTUB + ["value from a small pool (incl. one that needs quoting)"],
    outside=_OUTSIDE,
)
def h_cookie_name(nl: int, n1: int, n2: int, vi: int, twice: bool):
    """Any name: set_cookie raises, or the cookie reads back under exactly that name."""
    _run_value(_mk(nl, n1, n2), NAME_VALUES[vi], twice)


def pre_attr(which: int, ab: bytes, httponly: bool, secure: bool) -> bool:
    return 1 <= which <= 3 and len(ab) <= P.LA and in_shard(which)


@harness(
    pre=pre_attr,
    quick=dict(LA=1, timeout=150, reach_timeout=60),
    thorough=dict(LA=2, timeout=1500, reach_timeout=90),
    nshards=dict(quick=3, thorough=3),
    reach=["attr_sent", "attr_rejected"],
    units=["web.RequestHandler.set_cookie (attribute validation)", "web.RequestHandler.flush",
           "http.cookies.Morsel.OutputString", "httputil.parse_cookie"],
    stubs=_STUBS, outside=_OUTSIDE,
)
def h_cookie_attr(which: int, ab: bytes, httponly: bool, secure: bool):
    """Any domain/path/samesite string (+ httponly/secure flags): raises, or the header carries
    exactly the requested attributes and still reads back as the one cookie n=v."""
    a = ab.decode("latin-1")
    kw = {("domain", "path", "samesite")[which - 1]: a}
    with install() as env:
        h, conn, st = make_handler(env)
        try:
            h.set_cookie("n", "v", httponly=httponly, secure=secure, **kw)
        except Exception:
            reached("attr_rejected")
            return
        h.finish()
        cookies = conn.rec_cookies
    if a:
        reached("attr_sent")
    _check(cookies, "n", "v", kw, httponly, secure)


# =========================================================================== call histories
H_NAMES = ("a", "b")
H_VALUES = ("v", 'w;"x')
# attribute choice of a step: (kwargs, valid?) - validity per the statement: an attribute that cannot be
# carried verbatim in a Set-Cookie header (';', space, control) must make the call raise
H_ATTRS = (
    ({}, True),
    ({"domain": "d.e"}, True),
    ({"path": "/p", "secure": True}, True),
    ({"domain": "d;x"}, False),
    ({"path": "/p q"}, False),
    ({"samesite": "lax\n"}, False),
)


def pre_hist(steps: List[Tuple[int, int, int, int]]) -> bool:
    if not (1 <= len(steps) <= P.N):
        return False
    for op, ni, vi, ai in steps:
        if not (0 <= op <= 1 and 0 <= ni <= 1 and 0 <= vi <= 1 and 0 <= ai < P.AT):
            return False
        if op == 1 and vi != 0:
            return False          # clear_cookie takes no value
    return in_shard(steps[0][3] + P.AT * steps[0][0] + 2 * P.AT * (steps[1][3] % 3 if len(steps) > 1 else 0))


def _hist_may_reach(tag, steps):
    ok = [H_ATTRS[ai][1] for op, ni, vi, ai in steps]
    if tag == "cleared":
        return steps[-1][0] == 1 and ok[-1]
    if len(steps) < 2:
        return tag == "sent"
    same = steps[0][1] == steps[1][1]
    if tag == "later_call_rejected_first_kept":
        return ok[0] and not ok[1] and same and steps[1][0] == 0
    if tag == "rejected_clear_first_kept":
        return ok[0] and not ok[1] and same and steps[1][0] == 1
    if tag == "overwritten_last_wins":
        return ok[0] and ok[1] and same
    if tag == "two_names":
        return ok[0] and ok[1] and not same
    return True


@harness(
    pre=pre_hist,
    quick=dict(N=2, AT=6, timeout=150, reach_timeout=60),
    thorough=dict(N=3, AT=6, timeout=1500, reach_timeout=120),
    nshards=dict(quick=12, thorough=36),
    reach=["later_call_rejected_first_kept", "overwritten_last_wins", "cleared", "two_names",
           "rejected_clear_first_kept"],
    units=["web.RequestHandler.set_cookie", "web.RequestHandler.clear_cookie",
           "web.RequestHandler.flush (Set-Cookie emission)", "http.cookies.SimpleCookie/Morsel",
           "httputil.parse_cookie"],
    stubs=_STUBS + ["names, values and attribute values are pooled (by symbolic index); the history (length, "
                    "set vs clear, name, value, valid/invalid attribute per step) is the symbolic part; "
                    "exceptions of a step are caught by the handler, as an application would"],
    outside=_OUTSIDE + ["histories longer than N calls", "the Expires date of clear_cookie (only its presence)"],
)
def h_cookie_history(steps: List[Tuple[int, int, int, int]]):
    """A response's cookies = the fold of the SUCCESSFUL set_cookie/clear_cookie calls only (a call
    that raises has no effect), last setting per name wins, exactly one Set-Cookie per name."""
    if P.reach is not None and not _hist_may_reach(P.reach, steps):
        return      # reach-twin steering only: necessary condition from the inputs; tag raised after the real run
    model = {}          # name -> (value, kwargs, cleared)
    with install() as env:
        h, conn, st = make_handler(env)
        for op, ni, vi, ai in steps:
            name = H_NAMES[ni]
            kw, valid = H_ATTRS[ai]
            raised = False
            try:
                if op == 0:
                    h.set_cookie(name, H_VALUES[vi], **kw)
                else:
                    h.clear_cookie(name, **kw)
            except Exception:
                raised = True
            if raised:
                if name in model:
                    reached("rejected_clear_first_kept" if op == 1 else "later_call_rejected_first_kept")
                continue
            assert valid, "%s(%r, **%r) accepted an attribute that cannot be carried" % (
                ("set_cookie", "clear_cookie")[op], name, kw)
            if name in model:
                reached("overwritten_last_wins")
            model[name] = (H_VALUES[vi] if op == 0 else "", kw, op == 1)
        h.finish()
        cookies = conn.rec_cookies
        assert conn.rec_code == 200
    if len(model) == 2:
        reached("two_names")
    assert len(cookies) == len(model), "Set-Cookie headers %r, successful settings %r" % (cookies, model)
    seen = set()
    for sc in cookies:
        pair, attrs = split_set_cookie(sc)
        back = httputil.parse_cookie(pair)
        assert len(back) == 1, "cookie-pair %r reads back as %r" % (pair, back)
        name = list(back)[0]
        assert name in model and name not in seen, "unexpected / duplicate cookie %r in %r" % (name, cookies)
        seen.add(name)
        value, kw, cleared = model[name]
        assert back[name] == value, "%r reads back %r, last successful setting was %r" % (sc, back[name], value)
        want = [("path", kw.get("path", "/"))]
        if kw.get("domain"):
            want.append(("domain", kw["domain"]))
        if kw.get("secure"):
            want.append(("secure", None))
        if kw.get("samesite"):
            want.append(("samesite", kw["samesite"]))
        got = [(k, v) for k, v in attrs if k != "expires"]
        nexp = len(attrs) - len(got)
        if cleared:
            reached("cleared")
        assert nexp == (1 if cleared else 0), "Expires attribute count %d in %r (cleared=%r)" % (nexp, sc, cleared)
        assert sorted(got, key=lambda t: t[0]) == sorted(want, key=lambda t: t[0]), \
            "attributes %r, last successful setting asked %r (header %r)" % (attrs, want, sc)


# =========================================================================== expires / expires_days
import calendar  # noqa: E402
import datetime as _rdt  # noqa: E402
import email.utils  # noqa: E402

import tornado.web  # noqa: E402

FIXED_NOW = _rdt.datetime(2026, 9, 21, 14, 13, 20, tzinfo=_rdt.timezone.utc)   # = the rig's datetime.now() stub
SECRET = "httpout-cookie-secret"
# explicit `expires` arguments (index 0 = not given) with the instant they denote (epoch seconds)
def _epoch(y, mo, d, h, mi, sec):
    return calendar.timegm((y, mo, d, h, mi, sec, 0, 0, 0))


EXPIRES_POOL = (
    (None, None),
    (_rdt.datetime(2030, 1, 2, 3, 4, 5, tzinfo=_rdt.timezone.utc), _epoch(2030, 1, 2, 3, 4, 5)),
    (1900000000, 1900000000),                                               # numeric timestamp
    (_rdt.datetime(2031, 5, 6, 7, 8, 9), _epoch(2031, 5, 6, 7, 8, 9)),       # naive datetime = UTC
    (1700000000.0, 1700000000),                                             # float timestamp in the past
)
DAYS_POOL = (None, 0, 1, 30, -365, "omit")   # "omit" = argument not passed (set_signed_cookie defaults to 30)


def _http_date(epoch):
    """Reference formatter (stdlib, independent of tornado.httputil.format_timestamp)."""
    return email.utils.formatdate(epoch, usegmt=True)


def pre_expires(signed: bool, ei: int, di: int, secure: bool) -> bool:
    return 0 <= ei < len(EXPIRES_POOL) and 0 <= di < len(DAYS_POOL) and in_shard(ei)


@harness(
    pre=pre_expires,
    quick=dict(timeout=120, reach_timeout=60),
    thorough=dict(timeout=300, reach_timeout=60),
    nshards=dict(quick=len(EXPIRES_POOL), thorough=len(EXPIRES_POOL)),
    reach=["explicit_expires_wins_over_days", "expires_from_days", "no_expires", "signed_with_explicit_expires",
           "signed_default_30_days"],
    units=["web.RequestHandler.set_cookie (expires / expires_days)", "web.RequestHandler.set_signed_cookie",
           "web.RequestHandler.create_signed_value", "web.RequestHandler.flush", "httputil.format_timestamp",
           "httputil.parse_cookie", "web.decode_signed_value"],
    stubs=_STUBS + ["`expires` from a pool of concrete aware/naive datetimes and int/float timestamps, "
                    "`expires_days` from {None, 0, 1, 30, -365, not passed}, by symbolic index; "
                    "Application(cookie_secret=...) configured; hmac/sha256 run on concrete inputs"],
    outside=["expires=0 / other falsy timestamps (treated by tornado as 'not given')", "time tuples",
             "symbolic (non-pooled) dates", "signature strength (C23)"],
)
def h_cookie_expires(signed: bool, ei: int, di: int, secure: bool):
    """Exactly the requested expiry: an explicit `expires` wins over `expires_days` (which
    set_signed_cookie always forwards, default 30): one Expires = that instant; only expires_days:
    Expires = now + days; neither: no Expires.  Signed values read back through decode_signed_value."""
    expires, epoch = EXPIRES_POOL[ei]
    days = DAYS_POOL[di]
    kw = {}
    if expires is not None:
        kw["expires"] = expires
    if days != "omit":
        kw["expires_days"] = days
    if secure:
        kw["secure"] = True
    with install() as env:
        h, conn, st = make_handler(env, cookie_secret=SECRET)
        if signed:
            h.set_signed_cookie("n", "v", **kw)
        else:
            h.set_cookie("n", "v", **kw)
        h.finish()
        cookies = conn.rec_cookies
    assert len(cookies) == 1, "expected exactly one Set-Cookie, got %r" % (cookies,)
    pair, attrs = split_set_cookie(cookies[0])
    back = httputil.parse_cookie(pair)
    assert list(back) == ["n"], "reads back as %r" % (back,)
    if signed:
        dec = tornado.web.decode_signed_value(SECRET, "n", back["n"])
        assert dec == b"v", "signed value reads back as %r" % (dec,)
    else:
        assert back["n"] == "v"
    eff_days = (30 if signed else None) if days == "omit" else days
    if epoch is not None:
        want_exp = _http_date(epoch)
        if eff_days is not None:
            reached("explicit_expires_wins_over_days")
        if signed:
            reached("signed_with_explicit_expires")
    elif eff_days is not None:
        want_exp = _http_date(calendar.timegm((FIXED_NOW + _rdt.timedelta(days=eff_days)).utctimetuple()))
        reached("expires_from_days")
        if signed and days == "omit":
            reached("signed_default_30_days")
    else:
        want_exp = None
        reached("no_expires")
    want = [("path", "/")]
    if want_exp is not None:
        want.append(("expires", want_exp))
    if secure:
        want.append(("secure", None))
    assert sorted(attrs, key=lambda t: t[0]) == sorted(want, key=lambda t: t[0]), \
        "attributes %r, requested %r (call kwargs %r, signed=%r)" % (attrs, want, kw, signed)


def pre_maxage(max_age: int) -> bool:
    return -3 <= max_age <= 3


@harness(
    pre=pre_maxage,
    quick=dict(timeout=60, reach_timeout=40),
    thorough=dict(timeout=60, reach_timeout=40),
    nshards=1,
    reach=["maxage_sent"],
    units=["web.RequestHandler.set_cookie (max_age)", "web.RequestHandler.flush"],
    stubs=["same rig as h_cookie"],
    outside=["values beyond +-3"],
)
def h_cookie_maxage(max_age: int):
    """A requested Max-Age is carried (or the call raises)."""
    # concrete per path (7 forks): str(symbolic int) in the header would turn the read-back into
    # hundreds of digit-string paths
    for c in range(-3, 4):
        if max_age == c:
            max_age = c
            break
    with install() as env:
        h, conn, st = make_handler(env)
        try:
            h.set_cookie("n", "v", max_age=max_age)
        except Exception:
            return
        h.finish()
        cookies = conn.rec_cookies
    assert len(cookies) == 1
    pair, attrs = split_set_cookie(cookies[0])
    reached("maxage_sent")
    got = [v for k, v in attrs if k == "max-age"]
    assert len(got) == 1 and int(got[0]) == max_age, \
        "max_age=%r requested, header %r" % (max_age, cookies[0])


TECHNIQUE = ("CrossHair symbolic execution of set_cookie -> Set-Cookie emission with symbolic name/value/attribute "
             "strings, read back through tornado's own parse_cookie")
ASSUMPTIONS = ["latin-1 code points only", "stdlib http.cookies as installed (Python 3.12)"]
