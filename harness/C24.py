"""C24 - XSRF protection accepts exactly the tokens issued for the cookie.

Real code driven: RequestHandler.xsrf_token / _get_raw_xsrf_token / _decode_xsrf_token /
check_xsrf_cookie and the gate in RequestHandler._execute (plus get_cookie / get_argument / send_error)
on a handler over a fake request.
Oracle: the handler method runs  <=>  method in {GET,HEAD,OPTIONS}  or  the presented token decodes
(reference decoder written from the documented formats: v2 "2|hex(mask)|hex(mask XOR token)|int",
v1 hex, else raw) to the same NON-EMPTY secret as the _xsrf cookie; every token issued by the real
xsrf_token() for that cookie (either output version, any mask) is accepted; all rejections are 403.
"""
import binascii
from typing import List, Tuple

from vp.api import P, harness, in_shard, reached
from vp.env import install

from tornado import web
from tornado.escape import utf8

from harness._sec_rig import QuietMixin, make_app, make_request

import logging
logging.getLogger("tornado.general").disabled = True


# ---------------------------------------------------------------- pure-Python shims (stubs)
def _hv(c):
    if 48 <= c <= 57:
        return c - 48
    if 97 <= c <= 102:
        return c - 87
    if 65 <= c <= 70:
        return c - 55
    raise binascii.Error("Non-hexadecimal digit found")


def _a2b_hex(b):
    if len(b) % 2:
        raise binascii.Error("Odd-length string")
    out = []
    for i in range(0, len(b), 2):
        out.append(_hv(b[i]) * 16 + _hv(b[i + 1]))
    return bytes(out)


def _hc(n):
    return n + 48 + 39 * (n // 10)      # branch-free lower-case hex digit of 0..15


def _b2a_hex(b):
    out = []
    for x in b:
        out.append(_hc(x // 16))
        out.append(_hc(x % 16))
    return bytes(out)


class _Binascii:
    Error = binascii.Error
    a2b_hex = staticmethod(_a2b_hex)
    b2a_hex = staticmethod(_b2a_hex)


def _mask(mask, data):
    if len(mask) != 4:
        raise ValueError("mask must be 4 bytes")
    # XOR on symbolic ints makes CrossHair enumerate byte values; the property only needs the algebraic
    # contract of the masking (involutive, bijective for a fixed mask, length preserving)
    return bytes([(mask[i % 4] - data[i]) % 256 for i in range(len(data))])


class _Hmac:
    @staticmethod
    def compare_digest(a, b):
        return a == b


RANDOM = {"token": b"\x00\x00", "masks": []}


class _Os:
    @staticmethod
    def urandom(n):
        if n == 16:
            return RANDOM["token"]          # token length shortened (stated)
        assert n == 4, "unexpected urandom size"
        assert RANDOM["masks"], "urandom(4) called more often than expected"
        return RANDOM["masks"].pop(0)

    def __getattr__(self, k):
        import os as _os
        return getattr(_os, k)


web.binascii = _Binascii
web._websocket_mask = _mask
web.hmac = _Hmac
web.os = _Os()

STUBS = ["os.urandom (as seen from tornado.web) returns harness-supplied symbolic bytes; the 16-byte session token is "
         "shortened to 1 byte in h_issued / 2 bytes in h_free (the code is length-generic); masks: the byte applied to the token is free, the other three fixed; quick: token byte fully symbolic for v1 cookie + v1 token, otherwise token/mask bytes chosen by the solver from pools {00,09,0a,61,9f,ff} / {00,aa} / {01,ff}; thorough: all symbolic",
         "binascii.a2b_hex/b2a_hex replaced by pure-Python shims (same accept/reject behaviour: odd length, "
         "non-hex digit -> binascii.Error; both letter cases accepted)",
         "_websocket_mask replaced by the linear involution d -> (mask - d) mod 256 per byte (same algebraic contract as "
         "XOR: involutive, bijective for a fixed mask, length preserving, len(mask)!=4 -> ValueError); XOR on symbolic "
         "ints makes CrossHair enumerate byte values; the real XOR kernel is C14/C18's subject",
         "hmac.compare_digest -> ==",
         "assumption: the attacker cannot guess os.urandom output (a presented token equal to the freshly generated "
         "token of a cookie-less request is excluded)",
         "recording connection, virtual loop, fixed clock, logging off (harness/_sec_rig.py)",
         "the reference decoder is applied to the values the real get_cookie()/get_argument()/headers.get() return "
         "(cookie and form parsing are C05/C30's subject)"]
OUTSIDE = ["16-byte tokens", "xsrf_cookie_kwargs / current_user cookie expiry", "free strings longer than L"]


class H(QuietMixin, web.RequestHandler):
    ran = False

    def _run(self):
        self.ran = True
        self.write("ok")

    # a custom verb: the gate must cover every method that is not GET/HEAD/OPTIONS
    SUPPORTED_METHODS = web.RequestHandler.SUPPORTED_METHODS + ("PURGE",)
    get = head = post = put = options = delete = patch = purge = _run


METHODS = ["POST", "GET", "PUT", "DELETE", "PATCH", "HEAD", "OPTIONS", "PURGE"]   # h_issued quick: the first NM=2
SAFE = ("GET", "HEAD", "OPTIONS")
UNSAFE = ["POST", "PATCH", "PUT", "DELETE", "PURGE"]


def ref_decode(tok):
    """Reference: secret bytes carried by a token/cookie string, or None."""
    if tok is None or tok == "":
        return None
    raw = utf8(tok)
    # version prefix: [1-9][0-9]* '|'
    i = 0
    while i < len(raw) and 48 <= raw[i] <= 57:
        i += 1
    rest = raw[i + 1:]
    if rest.endswith(b"\n"):
        rest = rest[:-1]           # regex `(.*)$` tolerates one trailing newline
    if i > 0 and raw[0] != 48 and i < len(raw) and raw[i] == 124 and b"\n" not in rest:
        if raw[:i] != b"2":
            return None
        parts = tok.split("|")
        if len(parts) != 4:
            return None
        try:
            m = _a2b_hex(utf8(parts[1]))
            d = _a2b_hex(utf8(parts[2]))
            int(parts[3])
        except Exception:
            return None
        if len(m) != 4:
            return None
        return _mask(m, d)
    try:
        return _a2b_hex(raw)
    except Exception:
        return raw


def v2(mask, tk, ts="1600000000"):
    return "2|" + _b2a_hex(mask).decode("latin1") + "|" + _b2a_hex(_mask(mask, tk)).decode("latin1") + "|" + ts


def v1(tk):
    return _b2a_hex(tk).decode("latin1")


def run_request(method, cookie, token, chan, settings):
    with install() as env:
        app = make_app(xsrf_cookies=True, **settings)
        headers = []
        if cookie is not None:
            headers.append(("Cookie", "_xsrf=" + cookie))
        if token is not None and chan == 1:
            headers.append(("X-XSRFToken", token))
        if token is not None and chan == 2:
            headers.append(("X-CSRFToken", token))
        req, conn = make_request(method, "/x", headers)
        if token is not None and chan == 0:
            req.arguments = {"_xsrf": [utf8(token)]}
            req.body_arguments = {"_xsrf": [utf8(token)]}
        h = H(app, req)
        seen_cookie = h.get_cookie("_xsrf")
        if chan == 0:
            seen_token = h.get_argument("_xsrf", None)
        elif chan == 1:
            seen_token = req.headers.get("X-Xsrftoken")
        else:
            seen_token = req.headers.get("X-Csrftoken")
        t = env.spawn(h._execute([]))
        env.run_ready()
        assert t.done(), "handler task not done"
        assert t.exception() is None, "handler task raised %r" % (t.exception(),)
        assert not env.v.exc_contexts, "exception escaped a callback: %r" % (env.v.exc_contexts,)
    assert conn.finished, "response not finished"
    return h, conn, seen_cookie, seen_token


def issue_token(cookie, pver, mask):
    """The token the real application issues (xsrf_token()) on a GET carrying `cookie`."""
    RANDOM["masks"] = [mask]
    with install():
        app = make_app(xsrf_cookies=True, xsrf_cookie_version=pver)
        req, conn = make_request("GET", "/form", [("Cookie", "_xsrf=" + cookie)] if cookie is not None else [])
        h = H(app, req)
        tok = h.xsrf_token
        newcookie = None
        if hasattr(h, "_new_cookie"):
            newcookie = h._new_cookie["_xsrf"].value
    return tok.decode("latin1"), newcookie


# ------------------------------------------------------------------------------------------ 1
TP = (0x00, 0x09, 0x0a, 0x61, 0x9f, 0xff)     # token bytes covering digit/letter nibble combinations
X1P = (0x00, 0xaa)
X2P = (0x01, 0xff)


def _concretize(v, pool):
    """After the pre pinned v to a pool, branch so that the value is a concrete int on each path."""
    for c in pool:
        if v == c:
            return c
    return v


def _pick(pool, i):
    """pool[i] with a branch per index, so that the chosen element is concrete on each path (indexing a
    tuple with a symbolic int yields a symbolic value that drags the hex arithmetic into the solver)."""
    for k in range(len(pool)):
        if i == k:
            return pool[k]
    raise IndexError(i)


def issued_choice():
    k = P.shard
    return k % 3, 1 + (k // 3) % 2, (k // 6) % 3       # cver, pver, chan


def pre_issued(mi: int, cver: int, t: int, x1: int, x2: int, pver: int, chan: int, other: bool,
               t2: int) -> bool:
    if P.nshards > 1:
        scver, spver, schan = issued_choice()
        if cver != scver or pver != spver or chan != schan:
            return False
    elif not (0 <= cver <= 2 and 1 <= pver <= 2 and 0 <= chan <= 2):
        return False
    if not (0 <= mi < P.NM):
        return False
    # Symbolic bytes pushed through the hex shims and the mask arithmetic cost ~1 s of solver time per
    # path.  Quick: the token byte stays fully symbolic where only hex is involved (v1 cookie, v1 token);
    # elsewhere token and mask bytes are chosen by the solver from small pools.  Thorough: all symbolic.
    sym = P.SYM == 1 or (cver == 1 and pver == 1)
    if sym:
        if not (0 <= t <= 255):
            return False
    elif t not in TP:
        return False
    if cver == 2:
        if not ((0 <= x1 <= 255) if P.SYM == 1 else (x1 in X1P)):
            return False
    elif x1 != 0:
        return False                      # unused: pinned
    if pver == 2:
        if not ((0 <= x2 <= 255) if P.SYM == 1 else (x2 in X2P)):
            return False
    elif x2 != 1:
        return False                      # unused: pinned
    if other:
        if sym:
            if not (0 <= t2 <= 255):
                return False
        elif t2 not in TP:
            return False
    elif t2 != 0:
        return False                      # unused: pinned
    return True


@harness(pre=pre_issued, quick=dict(NM=2, SYM=0, timeout=150, reach_timeout=90),
         thorough=dict(NM=8, SYM=1, timeout=1400, reach_timeout=200),
         nshards=dict(quick=18, thorough=18),
         reach=["issued_accepted", "other_session_rejected", "no_cookie_fresh_token_accepted", "safe_method"],
         units=["web.RequestHandler.xsrf_token", "web.RequestHandler._get_raw_xsrf_token",
                "web.RequestHandler._decode_xsrf_token", "web.RequestHandler.check_xsrf_cookie",
                "web.RequestHandler._execute", "web.RequestHandler.get_cookie", "web.RequestHandler.get_argument"],
         stubs=STUBS + ["cookie: none (the application sets a fresh one; the follow-up request carries it) / v1 hex / "
                        "v2 with symbolic mask; token: the one the real xsrf_token() issues for that cookie under output "
                        "version pver with symbolic mask, or another session's token; channel form/X-XSRFToken/X-CSRFToken"],
         outside=OUTSIDE)
def h_issued(mi: int, cver: int, t: int, x1: int, x2: int, pver: int, chan: int, other: bool, t2: int):
    # session token = 1 byte; masks = 1 free byte (the one applied to the token) + 3 fixed bytes
    if not (P.SYM == 1 or (cver == 1 and pver == 1)):
        t, t2 = _concretize(t, TP), _concretize(t2, TP + (0,))
    if P.SYM != 1:
        x1, x2 = _concretize(x1, X1P), _concretize(x2, X2P)
    tk, tk2 = bytes([t]), bytes([t2])
    m1, m2 = bytes([x1, 0x5a, 0x00, 0xff]), bytes([x2, 0x5a, 0x00, 0xff])
    method = METHODS[mi]
    RANDOM["token"] = tk
    if cver == 0:
        cookie0 = None
    elif cver == 1:
        cookie0 = v1(tk)
    else:
        cookie0 = v2(m1, tk)
    token, newcookie = issue_token(cookie0, pver, m2)
    cookie = cookie0 if cookie0 is not None else newcookie
    assert cookie is not None, "no cookie was set for a cookie-less form request"
    if cver == 0:
        reached("no_cookie_fresh_token_accepted")
    if other:
        token = v2(m2, tk2) if pver == 2 else v1(tk2)
    RANDOM["token"] = b"\xfe"     # a later urandom(16) must not matter
    RANDOM["masks"] = []
    h, conn, sc, stok = run_request(method, cookie, token, chan, dict(xsrf_cookie_version=pver))
    good = (not other or tk2 == tk) and len(tk) > 0
    # an all-hex-looking raw v1 secret is fine; an empty secret is impossible here (len 2)
    if method in SAFE:
        reached("safe_method")
        assert h.ran and conn.status == 200, "safe method blocked"
    elif good:
        reached("issued_accepted")
        assert h.ran and conn.status == 200, \
            "token %r issued for cookie %r was rejected (status %r)" % (token, cookie, conn.status)
    else:
        reached("other_session_rejected")
        assert not h.ran and conn.status == 403, "foreign token accepted / wrong status %r" % (conn.status,)


# ------------------------------------------------------------------------------------------ 2
P_L_QUICK = 0     # quick: pooled shapes only (a free code point makes every shard time out); thorough: L=3
CK = ["", "2|00000000|6162|", "6162", "2|0000|6162|1", "3|x", "2|00000000||1"]
TKN = ["", "2|01010101|a09f|", "6162", "2|00000000|6162|1|", "1|", "ab", "2|01010101||5"]
RND = b"\xfe\xff"


def free_choice():
    k = P.shard
    ci = k % (len(CK) + 1) - 1
    chan = (k // (len(CK) + 1)) % 3
    return ci, chan


def pre_free(ci: int, chan: int, cfree: str, ti: int, tfree: str, um: int) -> bool:
    if not (0 <= um < len(UNSAFE)):
        return False
    if P.nshards > 1:
        sci, schan = free_choice()
        if ci != sci or chan != schan:
            return False
    elif not (-1 <= ci < len(CK) and 0 <= chan <= 2):
        return False
    if not (-1 <= ti < len(TKN)):
        return False
    if len(cfree) + len(tfree) > P.L or (len(cfree) > 0 and len(tfree) > 0):
        return False
    if (ci == -1 and cfree != "") or (ti == -1 and tfree != ""):
        return False
    return True


@harness(pre=pre_free, quick=dict(L=P_L_QUICK, timeout=60, reach_timeout=120), thorough=dict(L=3, timeout=1400),
         nshards=dict(quick=21, thorough=21),    # = (len(CK)+1) * 3 channels
         reach=["free_accepted", "free_rejected_403", "malformed_cookie", "free_non_post"],
         units=["web.RequestHandler._decode_xsrf_token", "web.RequestHandler.check_xsrf_cookie",
                "web.RequestHandler._get_raw_xsrf_token", "web.RequestHandler._execute"],
         stubs=STUBS + ["method from {POST, PATCH, PUT, DELETE, custom verb PURGE}; cookie / token = pooled prefix (valid and truncated v1/v2 shapes, unknown versions) + free "
                        "symbolic str (only one of the two has a free part), or absent; cookie pool entry and channel are "
                        "enumerated by sharding; urandom(16) fixed to fe ff here"],
         outside=OUTSIDE)
def h_free(ci: int, chan: int, cfree: str, ti: int, tfree: str, um: int):
    rnd = RND
    method = _pick(UNSAFE, um)
    if um > 0:
        reached("free_non_post")
    # (an empty symbolic str concatenated to a concrete one still yields a symbolic string)
    cookie = None if ci < 0 else (_pick(CK, ci) if len(cfree) == 0 else _pick(CK, ci) + cfree)
    token = None if ti < 0 else (_pick(TKN, ti) if len(tfree) == 0 else _pick(TKN, ti) + tfree)
    RANDOM["token"] = rnd
    RANDOM["masks"] = []
    h, conn, sc, stok = run_request(method, cookie, token, chan, {})
    csec = ref_decode(sc)
    tsec = ref_decode(stok)
    if sc and csec is None:
        reached("malformed_cookie")
    if csec is None and tsec == rnd:
        return        # assumption: urandom output cannot be guessed
    want = csec is not None and len(csec) > 0 and tsec is not None and tsec == csec
    if want:
        reached("free_accepted")
        assert h.ran and conn.status == 200, "matching token %r / cookie %r rejected (%r)" % (stok, sc, conn.status)
    else:
        reached("free_rejected_403")
        assert not h.ran, "handler ran with token %r (->%r) and cookie %r (->%r)" % (stok, tsec, sc, csec)
        assert conn.status == 403, "rejection must be 403, got %r" % (conn.status,)


# ------------------------------------------------------------------------------------------ 3
# The gate itself, for EVERY method: GET/HEAD/OPTIONS pass untouched; POST, PUT, DELETE, PATCH and a custom
# verb (SUPPORTED_METHODS extended) reach the handler only with the token issued for the request's cookie.
GT = (0x0a, 0x9f)


def pre_gate(mi: int, cver: int, pver: int, ti: int, scen: int, chan: int) -> bool:
    if P.nshards > 1 and mi != P.shard:
        return False
    return (0 <= mi < len(METHODS) and 1 <= cver <= 2 and 1 <= pver <= 2 and 0 <= ti < len(GT)
            and 0 <= scen <= 5 and 0 <= chan <= 2)


@harness(pre=pre_gate, quick=dict(timeout=150, reach_timeout=90), thorough=dict(timeout=600),
         nshards=dict(quick=len(METHODS), thorough=len(METHODS)),
         reach=["gate_custom_verb_blocked", "gate_patch_blocked", "gate_unsafe_accepted", "gate_safe_passes",
                "gate_no_cookie_blocked"],
         units=["web.RequestHandler._execute", "web.RequestHandler.check_xsrf_cookie", "web.RequestHandler.xsrf_token",
                "web.RequestHandler._get_raw_xsrf_token", "web.RequestHandler._decode_xsrf_token"],
         stubs=STUBS + ["method = every entry of {POST, GET, PUT, DELETE, PATCH, HEAD, OPTIONS, custom verb PURGE} (one shard "
                        "each; PURGE via SUPPORTED_METHODS + a handler method); scenario chosen by the solver: 0 token issued "
                        "by the real xsrf_token() for the cookie, 1 no token, 2 another session's token, 3 garbage token, "
                        "4 valid-looking token but no cookie, 5 empty token; cookie v1/v2, token v1/v2, channel form/"
                        "X-XSRFToken/X-CSRFToken; token/mask bytes from small pools"],
         outside=OUTSIDE)
def h_gate(mi: int, cver: int, pver: int, ti: int, scen: int, chan: int):
    method = _pick(METHODS, mi)
    ti = _pick((0, 1), ti)
    x = ti % 2
    tk = bytes([GT[ti]])
    other = bytes([GT[(ti + 1) % len(GT)]])
    m1 = bytes([X1P[x], 0x5a, 0x00, 0xff])
    m2 = bytes([X2P[x], 0x5a, 0x00, 0xff])
    RANDOM["token"] = tk
    cookie = v1(tk) if cver == 1 else v2(m1, tk)
    issued, _ = issue_token(cookie, pver, m2)
    if scen == 0:
        token = issued
    elif scen == 1:
        token = None
    elif scen == 2:
        token = v2(m2, other) if pver == 2 else v1(other)
    elif scen == 3:
        token = "zz|not-a-token"
    elif scen == 4:
        token = issued
        cookie = None
    else:
        token = ""
    RANDOM["token"] = b"\xfe"        # what a cookie-less request would draw; never equals a pooled token
    RANDOM["masks"] = []
    h, conn, sc, stok = run_request(method, cookie, token, chan, dict(xsrf_cookie_version=pver))
    if method in SAFE:
        reached("gate_safe_passes")
        assert h.ran and conn.status == 200, "%s must not be subject to the XSRF check" % method
    elif scen == 0:
        reached("gate_unsafe_accepted")
        assert h.ran and conn.status == 200, "%s with the issued token was rejected (%r)" % (method, conn.status)
    else:
        if method == "PURGE":
            reached("gate_custom_verb_blocked")
        if method == "PATCH":
            reached("gate_patch_blocked")
        if scen == 4:
            reached("gate_no_cookie_blocked")
        assert not h.ran, "%s reached the handler without a valid XSRF token (scenario %d)" % (method, scen)
        assert conn.status == 403, "%s: rejection must be 403, got %r" % (method, conn.status)


# ------------------------------------------------------------------------------------------ 4
# Combinations of token channels in ONE request.  Documented precedence: `_xsrf` argument, then X-XSRFToken,
# then X-CSRFToken, an EMPTY value counting as absent.  Accepted iff the first non-empty channel holds a token
# that decodes to the cookie's secret.
def run_request_multi(method, cookie, form, hx, hc, settings):
    with install() as env:
        app = make_app(xsrf_cookies=True, **settings)
        headers = []
        if cookie is not None:
            headers.append(("Cookie", "_xsrf=" + cookie))
        if hx is not None:
            headers.append(("X-XSRFToken", hx))
        if hc is not None:
            headers.append(("X-CSRFToken", hc))
        req, conn = make_request(method, "/x", headers)
        if form is not None:
            req.arguments = {"_xsrf": [utf8(form)]}
            req.body_arguments = {"_xsrf": [utf8(form)]}
        h = H(app, req)
        t = env.spawn(h._execute([]))
        env.run_ready()
        assert t.done(), "handler task not done"
        assert t.exception() is None, "handler task raised %r" % (t.exception(),)
        assert not env.v.exc_contexts, "exception escaped a callback: %r" % (env.v.exc_contexts,)
    assert conn.finished, "response not finished"
    return h, conn


CONTENT = ("absent", "empty", "valid", "wrong", "blank")     # "blank" = one space (form values are stripped)


def pre_chan(um: int, cver: int, pver: int, fa: int, xa: int, ca: int) -> bool:
    if P.nshards > 1 and fa != P.shard:
        return False
    return (0 <= um < len(UNSAFE) and 1 <= cver <= 2 and 1 <= pver <= 2
            and 0 <= fa < len(CONTENT) and 0 <= xa < 4 and 0 <= ca < 4)


@harness(pre=pre_chan, quick=dict(timeout=200, reach_timeout=90), thorough=dict(timeout=600),
         nshards=dict(quick=len(CONTENT), thorough=len(CONTENT)),
         reach=["blank_form_valid_header_accepted", "wrong_form_valid_header_rejected",
                "empty_xsrf_header_valid_csrf_header_accepted", "valid_then_garbage_accepted", "all_empty_rejected"],
         units=["web.RequestHandler.check_xsrf_cookie", "web.RequestHandler.get_argument",
                "web.RequestHandler._decode_xsrf_token", "web.RequestHandler._execute"],
         stubs=STUBS + ["all three token channels populated at once, each with one of {absent, empty, token issued by the real "
                        "xsrf_token() for the cookie, another session's token} (form field additionally: a single space, "
                        "which get_argument strips to empty); method from {POST, PATCH, PUT, DELETE, PURGE}; cookie v1/v2, "
                        "token v1/v2; concrete pooled token/mask bytes"],
         outside=OUTSIDE)
def h_channels(um: int, cver: int, pver: int, fa: int, xa: int, ca: int):
    method = _pick(UNSAFE, um)
    fa, xa, ca = _pick(CONTENT, fa), _pick(CONTENT[:4], xa), _pick(CONTENT[:4], ca)
    tk, other = bytes([GT[0]]), bytes([GT[1]])
    m1 = bytes([X1P[1], 0x5a, 0x00, 0xff])
    m2 = bytes([X2P[0], 0x5a, 0x00, 0xff])
    RANDOM["token"] = tk
    cookie = v1(tk) if cver == 1 else v2(m1, tk)
    valid, _ = issue_token(cookie, pver, m2)
    wrong = v2(m2, other) if pver == 2 else v1(other)
    RANDOM["token"] = b"\xfe"
    RANDOM["masks"] = []

    def content(kind):
        return {"absent": None, "empty": "", "valid": valid, "wrong": wrong, "blank": " "}[kind]

    h, conn = run_request_multi(method, cookie, content(fa), content(xa), content(ca),
                                dict(xsrf_cookie_version=pver))
    # reference: first non-empty channel in the documented order decides
    decisive = None
    for kind in (fa, xa, ca):
        if kind in ("valid", "wrong"):
            decisive = kind
            break
    if decisive == "valid":
        if fa in ("empty", "blank") and xa == "valid":
            reached("blank_form_valid_header_accepted")
        if fa in ("absent", "empty", "blank") and xa == "empty" and ca == "valid":
            reached("empty_xsrf_header_valid_csrf_header_accepted")
        if xa == "valid" and ca == "wrong":
            reached("valid_then_garbage_accepted")
        assert h.ran and conn.status == 200, \
            "%s form=%s X-XSRFToken=%s X-CSRFToken=%s: the first non-empty channel holds the issued token but the " \
            "request was rejected (%r)" % (method, fa, xa, ca, conn.status)
    else:
        if fa == "wrong" and xa == "valid":
            reached("wrong_form_valid_header_rejected")
        if decisive is None:
            reached("all_empty_rejected")
        assert not h.ran, "%s form=%s X-XSRFToken=%s X-CSRFToken=%s reached the handler" % (method, fa, xa, ca)
        assert conn.status == 403, "rejection must be 403, got %r" % (conn.status,)
